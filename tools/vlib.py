#!/usr/bin/env python3
"""Shared machinery behind ./check.

For one property it
  1. regenerates lean/ArrowModel/Generated/*.lean from /repo (tools/translate.py),
  2. builds the property's theorem modules and the driver with `lake build`
     (this *is* the proof check), audits the sources and `#print axioms`,
  3. builds the harness binary against /repo's working tree and runs the
     correspondence (implementation answers vs Lean driver answers),
  4. classifies what it saw, writes evidence/<id>.json and prints VIOLATION /
     KNOWN-FINDING lines.
Python stdlib only.
"""
import hashlib
import json
import os
import re
import shutil
import subprocess
import sys
import time

VERIF = os.path.dirname(os.path.dirname(os.path.abspath(__file__)))
LEAN = os.path.join(VERIF, "lean")
HARNESS = os.path.join(VERIF, "harness")
REPO = os.environ.get("VERIF_REPO", "/repo")
ALLOWED_AXIOMS = {"propext", "Classical.choice", "Quot.sound"}
ENV = dict(os.environ, CARGO_NET_OFFLINE="true")


def sh(cmd, cwd=None, timeout=None, env=None):
    p = subprocess.run(cmd, cwd=cwd, shell=isinstance(cmd, str), stdout=subprocess.PIPE,
                       stderr=subprocess.STDOUT, text=True, timeout=timeout, env=env or ENV)
    return p.returncode, p.stdout


def load_prop(pid):
    with open(os.path.join(VERIF, "props", pid + ".json")) as f:
        return json.load(f)


def obligations(pid):
    path = os.path.join(VERIF, "obligations", pid + ".txt")
    out = []
    if os.path.exists(path):
        for l in open(path):
            l = l.split("#")[0].strip()
            if l:
                out.append(l)
    return out


def repo_rev():
    rc, out = sh(["git", "-C", REPO, "rev-parse", "--short", "HEAD"])
    rc2, st = sh(["git", "-C", REPO, "status", "--porcelain", "--untracked-files=no"])
    return out.strip(), bool(st.strip())


# ----------------------------------------------------------------------------- Lean side

def translate(log):
    """T-tie: regenerate Generated/*.lean from /repo's current sources."""
    rc, out = sh([sys.executable, os.path.join(VERIF, "tools", "translate.py")])
    log.append("== translate ==\n" + out)
    lost = [l.split(None, 1)[1].strip() for l in out.splitlines() if l.startswith("LOST ")]
    return rc == 0, lost


def gen_driver():
    sh([sys.executable, os.path.join(VERIF, "tools", "gen_driver.py")])


def lake_build(targets, log):
    rc, out = sh(["lake", "build"] + targets, cwd=LEAN, timeout=3600)
    log.append("== lake build %s ==\n%s" % (" ".join(targets), out[-6000:]))
    failed = re.findall(r"^- (\S+)", out, re.M)
    errors = re.findall(r"^error: (\S+\.lean:\d+:\d+: .*)$", out, re.M)
    return rc == 0, failed, errors


def strip_comments(src):
    # remove /- ... -/ (nested) and -- line comments
    out, i, depth = [], 0, 0
    while i < len(src):
        if src.startswith("/-", i):
            depth += 1
            i += 2
        elif src.startswith("-/", i) and depth > 0:
            depth -= 1
            i += 2
        elif depth > 0:
            if src[i] == "\n":
                out.append("\n")
            i += 1
        elif src.startswith("--", i):
            while i < len(src) and src[i] != "\n":
                i += 1
        else:
            out.append(src[i])
            i += 1
    return "".join(out)


FORBIDDEN = re.compile(r"\b(sorry|admit|native_decide|implemented_by|unsafe)\b|^\s*axiom\s|maxHeartbeats\s+0\b", re.M)


def source_audit(dirs):
    hits = []
    for d in dirs:
        base = os.path.join(LEAN, d)
        paths = []
        if os.path.isdir(base):
            for root, _, files in os.walk(base):
                paths += [os.path.join(root, f) for f in files if f.endswith(".lean")]
        elif os.path.exists(base + ".lean"):
            paths.append(base + ".lean")
        for p in paths:
            code = strip_comments(open(p).read())
            for m in FORBIDDEN.finditer(code):
                line = code.count("\n", 0, m.start()) + 1
                hits.append("%s:%d: %s" % (os.path.relpath(p, LEAN), line, m.group(0).strip()))
    return hits


def axiom_audit(pid, modules, thms, log):
    """returns {thm: (ok, axioms or error text)}"""
    if not thms:
        return {}
    path = os.path.join(LEAN, ".lake", "Audit_%s.lean" % pid)
    os.makedirs(os.path.dirname(path), exist_ok=True)
    with open(path, "w") as f:
        for m in modules:
            f.write("import %s\n" % m)
        for t in thms:
            f.write("#print axioms %s\n" % t)
    rc, out = sh(["lake", "env", "lean", path], cwd=LEAN, timeout=1800)
    log.append("== axiom audit ==\n" + out[-4000:])
    res = {}
    # parse blocks: "'name' depends on axioms: [a, b]" or "'name' does not depend on any axioms"
    flat = re.sub(r"\s+", " ", out)
    for t in thms:
        m = re.search(r"'%s' depends on axioms: \[([^\]]*)\]" % re.escape(t), flat)
        if m:
            axs = [a.strip() for a in m.group(1).split(",") if a.strip()]
            bad = [a for a in axs if a not in ALLOWED_AXIOMS and "._native.bv_decide.ax" not in a]
            if "sorryAx" in axs:
                bad.append("sorryAx")
            res[t] = (not bad, axs)
        elif re.search(r"'%s' does not depend on any axioms" % re.escape(t), flat):
            res[t] = (True, [])
        else:
            res[t] = (False, ["<not found / did not elaborate>"])
    return res


# --------------------------------------------------------------------------- harness side

def cargo_build(pkg, binname, log):
    rc, out = sh(["cargo", "build", "--release", "--offline", "-p", pkg, "--bin", binname],
                 cwd=HARNESS, timeout=7200)
    log.append("== cargo build %s ==\n%s" % (binname, out[-4000:]))
    return rc == 0, out


def run_harness(binname, mode_args, outdir, log, timeout=7200):
    if os.path.isdir(outdir):
        shutil.rmtree(outdir)
    os.makedirs(outdir)
    exe = os.path.join(HARNESS, "target", "release", binname)
    rc, out = sh([exe] + mode_args + ["--out", outdir], timeout=timeout)
    log.append("== harness %s %s == rc=%d\n%s" % (binname, " ".join(mode_args), rc, out[-3000:]))
    return rc == 0


def run_driver(pid, cases_path, out_path, log):
    exe = os.path.join(LEAN, ".lake", "build", "bin", "driver_" + pid)
    if not os.path.exists(exe):
        return False
    with open(cases_path) as fi, open(out_path, "w") as fo:
        p = subprocess.run([exe], stdin=fi, stdout=fo, stderr=subprocess.PIPE, text=True)
    if p.returncode != 0:
        log.append("== driver failed rc=%d ==\n%s" % (p.returncode, p.stderr[-2000:]))
    return p.returncode == 0


def read_lines(path):
    if not os.path.exists(path):
        return []
    with open(path) as f:
        return f.read().split("\n")[:-1] if os.path.getsize(path) else []


# ------------------------------------------------------------------------- known findings

def load_known(pid):
    known = []
    path = os.path.join(VERIF, "known_findings.txt")
    if os.path.exists(path):
        for l in open(path):
            l = l.strip()
            m = re.match(r"known:\s+property=(\S+)\s+key=(\S+)\s+(.*)", l)
            if m and m.group(1) == pid:
                known.append((m.group(2), m.group(3)))
    return known


def match_known(known, case_line, tags):
    """a known-finding key is a regular expression searched in `<case line>\t<tags>`"""
    hay = case_line + "\t" + tags
    for key, what in known:
        try:
            if re.search(key, hay):
                return key, what
        except re.error:
            if key in hay:
                return key, what
    return None


# ------------------------------------------------------------------------------- main flow

def check(pid, tier="quick", seed=1, replay=None):
    t0 = time.time()
    prop = load_prop(pid)
    log = []
    os.makedirs(os.path.join(VERIF, "evidence"), exist_ok=True)
    os.makedirs(os.path.join(VERIF, "replay"), exist_ok=True)
    workdir = os.path.join(VERIF, "work", pid)
    rev, dirty = repo_rev()
    lean_modules = prop.get("lean_modules", [])
    thms = obligations(pid)
    known = load_known(pid)

    # 1. translation tie
    t_ok, t_lost_all = translate(log)
    # only this property's own items (and groups it names) count for it; a lost item of
    # another property that this one's proofs depend on still shows up as a broken build
    groups = [pid] + prop.get("translate_groups", [])
    t_lost = [l for l in t_lost_all if l.split(".", 1)[0] in groups]
    gen_driver()

    # 2. proofs
    build_ok, failed_mods, errors = lake_build(lean_modules, log)
    drv_ok, drv_failed, drv_err = lake_build(["driver_" + pid], log)
    audit_hits = source_audit(prop.get("lean_dirs", []))
    ax = axiom_audit(pid, lean_modules, thms, log) if build_ok else {}
    discharged = [t for t in thms if build_ok and ax.get(t, (False,))[0]]
    undischarged = [t for t in thms if t not in discharged]
    nonstd_axioms = sorted({a for t in discharged for a in ax[t][1] if a not in ALLOWED_AXIOMS})
    if tier == "thorough" and build_ok and prop.get("leanchecker", True):
        rc, out = sh(["lake", "env", "leanchecker"] + lean_modules, cwd=LEAN, timeout=3600)
        log.append("== leanchecker == rc=%d\n%s" % (rc, out[-2000:]))
        if rc != 0:
            undischarged = thms
            discharged = []
            errors.append("leanchecker rejected the compiled modules")
    proof_broken = (not build_ok) or bool(undischarged) or bool(audit_hits)

    # 3. correspondence
    hs = prop["harness"]
    if isinstance(hs, dict):
        hs = [hs]
    h = hs[0]
    cb_ok = True
    for hh in hs:
        ok1, _ = cargo_build(hh["package"], hh["bin"], log)
        cb_ok = cb_ok and ok1
    cases, impl, model, tags, oracle = [], [], [], [], []
    stats = {}
    harness_ok = False
    corpus = os.path.join(VERIF, "corpus", pid + ".txt")

    def routed(path, hh, name):
        """case lines of `path` whose op (2nd token) belongs to harness binary hh"""
        ops = hh.get("ops")
        if not ops:
            return path
        keep = [l for l in read_lines(path) if len(l.split(" ")) > 1 and l.split("\t")[0].split(" ")[1] in ops]
        out = os.path.join(workdir, "%s.%s.in" % (name, hh["bin"]))
        os.makedirs(workdir, exist_ok=True)
        with open(out, "w") as f:
            f.write("".join(k + "\n" for k in keep))
        return out if keep else None

    if cb_ok and drv_ok:
        harness_ok = True
        for hh in hs:
            parts = []
            if replay:
                r = routed(replay, hh, "replay")
                if r:
                    parts.append(("replay", ["replay", r]))
            else:
                if os.path.exists(corpus) and os.path.getsize(corpus):
                    r = routed(corpus, hh, "corpus")
                    if r:
                        parts.append(("corpus", ["replay", r]))
                extra = hh.get("args_" + tier, [])
                parts.append(("gen", ["gen", "--seed", str(seed), "--tier", tier] + extra))
            for name, args in parts:
                d = os.path.join(workdir, name + ("" if hh is hs[0] else "_" + hh["bin"]))
                ok = run_harness(hh["bin"], args, d, log)
                if not ok:
                    harness_ok = False
                    continue
                c = read_lines(os.path.join(d, "cases.txt"))
                i = read_lines(os.path.join(d, "impl.txt"))
                t = read_lines(os.path.join(d, "tags.txt"))
                dr_ok = run_driver(pid, os.path.join(d, "cases.txt"), os.path.join(d, "model.txt"), log)
                m = read_lines(os.path.join(d, "model.txt"))
                if not dr_ok or len(m) != len(c) or len(i) != len(c):
                    harness_ok = False
                    log.append("line count mismatch: cases=%d impl=%d model=%d" % (len(c), len(i), len(m)))
                    continue
                cases += c
                impl += i
                model += m
                tags += t if len(t) == len(c) else [""] * len(c)
                oracle += read_lines(os.path.join(d, "oracle.txt"))
                try:
                    for k, v in json.load(open(os.path.join(d, "stats.json"))).items():
                        stats[k] = stats.get(k, 0) + v
                except Exception:
                    pass

    # 4. classify
    def classify(cases, impl, model, tags, oracle):
        vs = []      # (kind, case, impl, model, tags)
        for c, i, m, t in zip(cases, impl, model, tags):
            if m.startswith("MODEL-SPEC-MISMATCH"):
                vs.append(("model-vs-spec", c, i, m, t))
            elif m == "SKIP":
                continue
            elif i != m:
                vs.append(("impl-vs-model", c, i, m, t))
        for o in oracle:
            f = (o.split("\t") + ["", ""])[:3]
            vs.append(("impl-vs-oracle", f[0], f[1], "", f[2]))
        return vs
    violations = classify(cases, impl, model, tags, oracle)
    skipped = sum(1 for m in model if m == "SKIP")

    # 4b. a proof obligation or the translation tie broke but the normal run shows no failing
    # input: search harder (thorough generator, other seed) before reporting without a witness
    searched = 0
    if (proof_broken or t_lost) and not violations and cb_ok and drv_ok and not replay:
        n = str(prop.get("search_cases", 200000))
        for hh in hs:
            d = os.path.join(workdir, "search_" + hh["bin"])
            if not run_harness(hh["bin"], ["gen", "--seed", str(seed + 7919), "--tier", "thorough", "--cases", n], d, log):
                continue
            c = read_lines(os.path.join(d, "cases.txt"))
            i = read_lines(os.path.join(d, "impl.txt"))
            t = read_lines(os.path.join(d, "tags.txt"))
            if run_driver(pid, os.path.join(d, "cases.txt"), os.path.join(d, "model.txt"), log):
                m = read_lines(os.path.join(d, "model.txt"))
                if len(m) == len(c) == len(i):
                    searched += len(c)
                    violations += classify(c, i, m, t if len(t) == len(c) else [""] * len(c),
                                           read_lines(os.path.join(d, "oracle.txt")))

    new, known_hits = [], {}
    for v in violations:
        k = match_known(known, v[1], v[4])
        if k:
            known_hits.setdefault(k, []).append(v)
        else:
            new.append(v)

    out_lines = []
    for (key, what), vs in known_hits.items():
        out_lines.append("KNOWN-FINDING: property=%s %s (key=%s, %d cases this run)" % (pid, what, key, len(vs)))

    replay_path = None
    exit_code = 0
    infra_problem = None
    if not cb_ok:
        infra_problem = "harness does not build against /repo's current tree"
    elif not drv_ok:
        infra_problem = "Lean driver does not build"
    elif not harness_ok:
        infra_problem = "harness or driver run failed"

    def write_replay(kind, body):
        hsh = hashlib.sha1(json.dumps(body, sort_keys=True).encode()).hexdigest()[:12]
        p = os.path.join(VERIF, "replay", "%s-%s.json" % (pid, hsh))
        body.update({"property": pid, "kind": kind, "seed": seed, "tier": tier,
                     "repo_rev": rev, "repo_dirty": dirty})
        with open(p, "w") as f:
            json.dump(body, f, indent=1)
        # case lines alone, for `./check <id> --replay`
        with open(p[:-5] + ".cases", "w") as f:
            for c in body.get("cases", []):
                f.write(c["case"] + "\n")
        return p

    if new:
        # smallest failing cases first: they are the most readable replays
        new.sort(key=lambda v: len(v[1]))
        body = {"cases": [{"kind": v[0], "case": v[1], "impl": v[2], "model": v[3], "tags": v[4]} for v in new[:20]],
                "total_failing_cases": len(new),
                "broken_theorems": undischarged, "lean_errors": errors[:10]}
        replay_path = write_replay(new[0][0], body)
        out_lines.append("VIOLATION property=%s replay=%s" % (pid, replay_path[:-5] + ".cases"))
        exit_code = 1
    elif proof_broken or infra_problem or t_lost and prop.get("translate_required"):
        body = {"cases": [], "broken_theorems": undischarged, "failed_modules": failed_mods,
                "lean_errors": errors[:20], "source_audit": audit_hits, "translator_lost": t_lost,
                "infrastructure": infra_problem,
                "note": "the proof obligations / correspondence named here no longer check; the search over %d "
                        "generated cases found no input on which the implementation disagrees with the specification" % (len(cases) + searched)}
        replay_path = write_replay("theorem-broken" if proof_broken else "correspondence-broken", body)
        out_lines.append("VIOLATION property=%s replay=%s no-failing-input-found" % (pid, replay_path))
        exit_code = 1

    # 5. evidence
    nt = set()
    for c, t in zip(cases, tags):
        if "nt" in t.split():
            nt.add(hashlib.sha1(c.encode()).digest())
    branches = {k: v for k, v in sorted(stats.items())}
    ev = {
        "property_id": pid,
        "tier": tier,
        "seed": seed,
        "level": "proof",
        "coverage": {
            "obligations": max(len(thms), 1) if thms else 0,
            "discharged": len(discharged),
            "checker_cmd": "cd lean && lake build %s driver_%s && lake env lean .lake/Audit_%s.lean  # #print axioms per obligation%s"
                           % (" ".join(lean_modules), pid, pid, "; lake env leanchecker" if tier == "thorough" else ""),
            "trusted_base": [
                "Lean 4.33.0 kernel",
                "axioms: " + ", ".join(sorted(ALLOWED_AXIOMS)) + ("; plus " + ", ".join(nonstd_axioms) if nonstd_axioms else ""),
                "tools/translate.py (constants / straight-line functions regenerated from /repo each run)",
                "correspondence harness " + ", ".join("harness/%s/src/bin/%s.rs" % (x["package"], x["bin"]) for x in hs) + " and its generators/canonicalisers",
            ] + prop.get("trusted_base_extra", []),
            "theorems": discharged,
            "undischarged": undischarged,
            "evaluations": len(cases),
            "distinct_nontrivial": len(nt),
            "rule": prop.get("nontrivial_rule", "cases tagged `nt` by the generator; distinct by SHA-1 of the case line"),
            "samples": cases[:3] + cases[len(cases) // 2: len(cases) // 2 + 2],
            "branches": branches,
            "disagreements_checked": len(violations),
            "known_finding_cases": sum(len(v) for v in known_hits.values()),
            "skipped_by_model": skipped,
            "search_cases_after_broken_proof": searched,
            "translator_lost": t_lost,
            "repo_rev": rev + ("+dirty" if dirty else ""),
        },
        "assumptions": prop.get("assumptions", []),
        "wall_s": round(time.time() - t0, 2),
        "violations": len(new) + (1 if (exit_code == 1 and not new) else 0),
    }
    if not thms:
        del ev["coverage"]["obligations"]
        del ev["coverage"]["discharged"]
    with open(os.path.join(VERIF, "evidence", pid + ".json"), "w") as f:
        json.dump(ev, f, indent=1)
    with open(os.path.join(VERIF, "work", pid + ".log"), "w") as f:
        f.write("\n".join(log))

    print("check %s tier=%s seed=%d: theorems %d/%d, cases %d (nontrivial distinct %d), disagreements %d (known %d), %.1fs"
          % (pid, tier, seed, len(discharged), len(thms), len(cases), len(nt), len(violations),
             sum(len(v) for v in known_hits.values()), time.time() - t0))
    if errors and exit_code:
        for e in errors[:5]:
            print("  lean: " + e)
    for l in out_lines:
        print(l)
    return exit_code
