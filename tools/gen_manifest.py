#!/usr/bin/env python3
"""Regenerate MANIFEST.json from props/*.json (+ props/_not_applicable.json)."""
import glob, json, os
VERIF = os.path.dirname(os.path.dirname(os.path.abspath(__file__)))
checks = []
for p in sorted(glob.glob(os.path.join(VERIF, "props", "C*.json"))):
    d = json.load(open(p))
    m = d["manifest"]
    pid = d["id"]
    checks.append({
        "property_id": pid,
        "quick_cmd": "./check %s --tier quick" % pid,
        "thorough_cmd": "./check %s --tier thorough" % pid,
        "evidence_file": "/verif/evidence/%s.json" % pid,
        "replay_cmd_template": "./check %s --replay {path}" % pid,
        "engine": "lean4+harness",
        "level_claimed": {"category": "proof", "text": m["level_text"], "design_ref": m.get("design_ref", "DESIGN.md §4")},
        "level_note": m["level_note"],
        "technique": m["technique"],
    })
na_path = os.path.join(VERIF, "props", "_not_applicable.json")
na = json.load(open(na_path)) if os.path.exists(na_path) else []
claimed = {c["property_id"] for c in checks}
na = [x for x in na if x["property_id"] not in claimed]
manifest = {
    "version": 1,
    "setup_cmd": "./setup.sh",
    "hooks": {
        "guard": "apache_arrow_rs_verif",
        "enable": "none needed: the harness reaches everything through public API (parquet feature `experimental`); guard name reserved (RUSTFLAGS=--cfg apache_arrow_rs_verif)",
        "baseline_off_cmd": "cd /repo && cargo nextest run --workspace --no-fail-fast --test-threads 8 --offline || cargo test --workspace --no-fail-fast --offline",
        "source_commits": [],
        "add_only": True,
    },
    "engines": [
        {"name": "lean4+harness", "path": "/verif/check",
         "serves_properties": sorted(claimed),
         "kind_free_text": "Lean 4 model + theorems (lake build, #print axioms audit) tied to /repo by tools/translate.py (regenerated constants) and a Rust differential harness driving the real crates and the compiled Lean driver on the same case lines"}
    ],
    "checks": checks,
    "not_applicable": na,
    "notes": "Every check is `./check <id>`; it regenerates lean/ArrowModel/Generated from /repo, rebuilds proofs incrementally, rebuilds the harness against /repo's working tree, runs the correspondence, writes evidence/<id>.json. All 20 properties are claimed (not_applicable is empty). No hook commits exist in /repo (hooks.source_commits is empty); the commits in /repo after the base snapshot are unguarded `fix:` repairs of genuine defects, each recorded as a `fixed:` line in known_findings.txt.",
}
json.dump(manifest, open(os.path.join(VERIF, "MANIFEST.json"), "w"), indent=1)
print("MANIFEST.json: %d checks, %d not_applicable" % (len(checks), len(na)))
