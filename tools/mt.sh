#!/bin/sh
# Mutation-test helper (development aid, not a registered check):
#   tools/mt.sh <patch.diff> <Cnn> [tier]
# Runs ./check <Cnn> from a private copy of /verif ($MT/verif) against a private worktree
# of /repo ($MT/repo) with the patch applied, so that /repo and /verif stay untouched
# while other work is building against them.
set -e
# one user of /tmp/mt at a time
# (re-entrant: skip if we were told so, or if an ancestor already holds `flock ${MT_ROOT:-/tmp/mt}.lock`)
if [ -z "$MT_LOCKED" ]; then
  pid=$$
  while [ -n "$pid" ] && [ "$pid" != "1" ] && [ "$pid" != "0" ]; do
    if tr '\0' ' ' < /proc/$pid/cmdline 2>/dev/null | grep -q "flock.*${MT_ROOT:-/tmp/mt}.lock"; then MT_LOCKED=1; break; fi
    pid=$(awk '{print $4}' /proc/$pid/stat 2>/dev/null)
  done
fi
if [ -z "$MT_LOCKED" ]; then
  exec env MT_LOCKED=1 flock ${MT_ROOT:-/tmp/mt}.lock "$0" "$@"
fi
PATCH=$(readlink -f "$1"); PID=$2; TIER=${3:-quick}
MT=${MT_ROOT:-/tmp/mt}
mkdir -p $MT
if [ ! -d $MT/repo ]; then git -C /repo worktree add --detach $MT/repo HEAD >/dev/null 2>&1; fi
git -C $MT/repo checkout -q --detach "$(git -C /repo rev-parse HEAD)"
git -C $MT/repo checkout -q -- . && git -C $MT/repo clean -fdq
rsync -a --delete --exclude /harness/target --exclude /lean/.lake --exclude /work --exclude /replay --exclude /.git ${MT_SRC:-/verif}/ $MT/verif/
# share compiled Lean objects (copy once, then incremental)
if [ ! -d $MT/verif/lean/.lake ]; then cp -a /verif/lean/.lake $MT/verif/lean/.lake; fi
find $MT/verif/harness -name Cargo.toml -exec sed -i "s#path = \"/repo/#path = \"$MT/repo/#g" {} +
if [ -n "$PATCH" ] && [ "$PATCH" != "/dev/null" ]; then git -C $MT/repo apply "$PATCH"; fi
cd $MT/verif
VERIF_REPO=$MT/repo VERIF_TIER=$TIER ./check "$PID" || true
git -C $MT/repo checkout -q -- .
