#!/bin/sh
# Mutation-test helper (development aid, not a registered check):
#   tools/mt.sh <patch.diff> <Cnn> [tier]
# Runs ./check <Cnn> from a private copy of /verif (/tmp/mt/verif) against a private worktree
# of /repo (/tmp/mt/repo) with the patch applied, so that /repo and /verif stay untouched
# while other work is building against them.
set -e
# one user of /tmp/mt at a time
# (re-entrant: skip if we were told so, or if an ancestor already holds `flock /tmp/mt.lock`)
if [ -z "$MT_LOCKED" ]; then
  pid=$$
  while [ -n "$pid" ] && [ "$pid" != "1" ] && [ "$pid" != "0" ]; do
    if tr '\0' ' ' < /proc/$pid/cmdline 2>/dev/null | grep -q "flock.*/tmp/mt.lock"; then MT_LOCKED=1; break; fi
    pid=$(awk '{print $4}' /proc/$pid/stat 2>/dev/null)
  done
fi
if [ -z "$MT_LOCKED" ]; then
  exec env MT_LOCKED=1 flock /tmp/mt.lock "$0" "$@"
fi
PATCH=$(readlink -f "$1"); PID=$2; TIER=${3:-quick}
mkdir -p /tmp/mt
if [ ! -d /tmp/mt/repo ]; then git -C /repo worktree add --detach /tmp/mt/repo HEAD >/dev/null 2>&1; fi
git -C /tmp/mt/repo checkout -q --detach "$(git -C /repo rev-parse HEAD)"
git -C /tmp/mt/repo checkout -q -- . && git -C /tmp/mt/repo clean -fdq
rsync -a --delete --exclude /harness/target --exclude /lean/.lake --exclude /work --exclude /replay --exclude /.git ${MT_SRC:-/verif}/ /tmp/mt/verif/
# share compiled Lean objects (copy once, then incremental)
if [ ! -d /tmp/mt/verif/lean/.lake ]; then cp -a /verif/lean/.lake /tmp/mt/verif/lean/.lake; fi
find /tmp/mt/verif/harness -name Cargo.toml -exec sed -i 's#path = "/repo/#path = "/tmp/mt/repo/#g' {} +
if [ -n "$PATCH" ] && [ "$PATCH" != "/dev/null" ]; then git -C /tmp/mt/repo apply "$PATCH"; fi
cd /tmp/mt/verif
VERIF_REPO=/tmp/mt/repo VERIF_TIER=$TIER ./check "$PID" || true
git -C /tmp/mt/repo checkout -q -- .
