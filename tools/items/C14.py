"""C14 items the translator (tools/translate.py) extracts from /repo on every run.

CONSTANTS[group] = [(lean_name, file relative to /repo, regex with ONE group, kind)]
"""
CONSTANTS = {
    "C14": [
        # IPC stream framing: `const CONTINUATION_MARKER: [u8; 4] = [0xff; 4];`
        ("IPC_MARKER_BYTE", "arrow-ipc/src/lib.rs", r"const\s+CONTINUATION_MARKER\s*:\s*\[u8;\s*4\]\s*=\s*\[\s*(0x[0-9a-fA-F]+)\s*;\s*4\s*\]\s*;", "int"),
        ("IPC_MARKER_LEN", "arrow-ipc/src/lib.rs", r"const\s+CONTINUATION_MARKER\s*:\s*\[u8;\s*(\d+)\]\s*=\s*\[\s*0x[0-9a-fA-F]+\s*;\s*\d+\s*\]\s*;", "int"),
        # `DecoderState::Header { buf: [u8; 4], .. }` and `if *read == 4 {`
        ("IPC_HEADER_LEN", "arrow-ipc/src/reader/stream.rs", r"Header\s*\{\s*(?:///[^\n]*\s*)*buf:\s*\[u8;\s*(\d+)\]", "int"),
        ("IPC_HEADER_FULL", "arrow-ipc/src/reader/stream.rs", r"if\s+\*read\s*==\s*(\d+)\s*\{", "int"),
        # the zero-copy fast paths of `StreamDecoder::decode`, captured together with their guards and the
        # scratch-buffer arithmetic that follows: editing the guard (`self.buf.is_empty() && buffer.len() > len`),
        # the slice start or the `min(len - self.buf.len())` makes the item LOST.  Value = slice start offset.
        ("IPC_MSG_SLICE_START", "arrow-ipc/src/reader/stream.rs",
         r"DecoderState::Message\s*\{\s*size\s*\}\s*=>\s*\{\s*let len = \*size as usize;\s*if self\.buf\.is_empty\(\) && buffer\.len\(\) > len \{\s*let message = MessageBuffer::try_new\(buffer\.slice_with_length\((\d+), len\)\)\?;\s*self\.state = DecoderState::Body \{ message \};\s*buffer\.advance\(len\);\s*continue;\s*\}\s*let to_read = buffer\.len\(\)\.min\(len - self\.buf\.len\(\)\);", "int"),
        ("IPC_BODY_SLICE_START", "arrow-ipc/src/reader/stream.rs",
         r"let body = if self\.buf\.is_empty\(\) && buffer\.len\(\) >= body_length \{\s*let body = buffer\.slice_with_length\((\d+), body_length\);\s*buffer\.advance\(body_length\);\s*body\s*\} else \{\s*let to_read = buffer\.len\(\)\.min\(body_length - self\.buf\.len\(\)\);", "int"),
        # header copy: `let to_read = buffer.len().min(offset_buf.len());` over `&mut buf[*read as usize..]`
        ("IPC_HEADER_COPY_FROM", "arrow-ipc/src/reader/stream.rs",
         r"let offset_buf = &mut buf\[\*read as usize\.\.\];\s*let to_read = buffer\.len\(\)\.min\(offset_buf\.len\(\)\);\s*offset_buf\[\.\.to_read\]\.copy_from_slice\(&buffer\[\.\.to_read\]\);\s*\*read \+= to_read as u8;\s*buffer\.advance\(to_read\);\s*if \*read == \d+ \{\s*if !\*continuation && buf == &CONTINUATION_MARKER \{\s*\*continuation = true;\s*\*read = (\d+);", "int"),
        # Avro block: 16 byte sync marker
        ("AVRO_SYNC_LEN", "arrow-avro/src/reader/block.rs", r"pub\s+sync:\s*\[u8;\s*(\d+)\]", "int"),
        ("AVRO_SYNC_REMAINING", "arrow-avro/src/reader/block.rs", r"if\s+self\.bytes_remaining\s*==\s*0\s*\{\s*self\.bytes_remaining\s*=\s*(\d+);", "int"),
        ("AVRO_SYNC_OFFSET_BASE", "arrow-avro/src/reader/block.rs", r"let\s+offset\s*=\s*(\d+)\s*-\s*self\.bytes_remaining;", "int"),
        # Avro VLQ decoder
        ("VLQ_MAX_SHIFT", "arrow-avro/src/reader/vlq.rs", r"if\s+self\.shift\s*==\s*(\d+)\s*&&\s*byte\s*>=", "int"),
        ("VLQ_LAST_LIMIT", "arrow-avro/src/reader/vlq.rs", r"if\s+self\.shift\s*==\s*\d+\s*&&\s*byte\s*>=\s*(0x[0-9a-fA-F]+|\d+)\s*\{", "int"),
        ("VLQ_PAYLOAD_MASK", "arrow-avro/src/reader/vlq.rs", r"self\.in_progress\s*\|=\s*\(\(byte\s*&\s*(0x[0-9a-fA-F]+)\)\s*as\s+u64\)\s*<<\s*self\.shift;", "int"),
        ("VLQ_SHIFT_STEP", "arrow-avro/src/reader/vlq.rs", r"self\.shift\s*\+=\s*(\d+);", "int"),
        ("VLQ_CONT_BIT", "arrow-avro/src/reader/vlq.rs", r"if\s+byte\s*&\s*(0x[0-9a-fA-F]+)\s*==\s*0\s*\{\s*let\s+val\s*=\s*self\.in_progress;", "int"),
    ],
}
FUNCTIONS = {}
