"""C14 items the translator (tools/translate.py) extracts from /repo on every run.

CONSTANTS[group] = [(lean_name, file relative to /repo, regex with ONE group, kind)]
"""
CONSTANTS = {
    "C14": [
        # IPC stream framing: `const CONTINUATION_MARKER: [u8; 4] = [0xff; 4];`
        ("IPC_MARKER_BYTE", "arrow-ipc/src/lib.rs", r"const\s+CONTINUATION_MARKER\s*:\s*\[u8;\s*4\]\s*=\s*\[\s*(0x[0-9a-fA-F]+)\s*;\s*4\s*\]\s*;", "int"),
        ("IPC_MARKER_LEN", "arrow-ipc/src/lib.rs", r"const\s+CONTINUATION_MARKER\s*:\s*\[u8;\s*(\d+)\]\s*=\s*\[\s*0x[0-9a-fA-F]+\s*;\s*\d+\s*\]\s*;", "int"),
        # `DecoderState::Header { buf: [u8; 4], .. }` and `if *read == 4 {`
        ("IPC_HEADER_LEN", "arrow-ipc/src/reader/stream.rs", r"Header\s*\{\s*(?:///[^\n]*\s*)*buf:\s*\[u8;\s*(\d+)\]", "int"),
        ("IPC_HEADER_FULL", "arrow-ipc/src/reader/stream.rs", r"if\s+\*read\s*==\s*(\d+)\s*\{", "int"),
        # the zero-copy fast paths of `StreamDecoder::decode`, captured together with their guards and the
        # scratch-buffer arithmetic that follows: editing the guard (`self.buf.is_empty() && buffer.len() > len`),
        # the slice start or the `min(len - self.buf.len())` makes the item LOST.  Value = slice start offset.
        ("IPC_MSG_SLICE_START", "arrow-ipc/src/reader/stream.rs",
         r"DecoderState::Message\s*\{\s*size\s*\}\s*=>\s*\{\s*let len = \*size as usize;\s*if self\.buf\.is_empty\(\) && buffer\.len\(\) > len \{\s*let message = MessageBuffer::try_new\(buffer\.slice_with_length\((\d+), len\)\)\?;\s*self\.state = DecoderState::Body \{ message \};\s*buffer\.advance\(len\);\s*continue;\s*\}\s*let to_read = buffer\.len\(\)\.min\(len - self\.buf\.len\(\)\);", "int"),
        ("IPC_BODY_SLICE_START", "arrow-ipc/src/reader/stream.rs",
         r"let body = if self\.buf\.is_empty\(\) && buffer\.len\(\) >= body_length \{\s*let body = buffer\.slice_with_length\((\d+), body_length\);\s*buffer\.advance\(body_length\);\s*body\s*\} else \{\s*let to_read = buffer\.len\(\)\.min\(body_length - self\.buf\.len\(\)\);", "int"),
        # header copy: `let to_read = buffer.len().min(offset_buf.len());` over `&mut buf[*read as usize..]`
        ("IPC_HEADER_COPY_FROM", "arrow-ipc/src/reader/stream.rs",
         r"let offset_buf = &mut buf\[\*read as usize\.\.\];\s*let to_read = buffer\.len\(\)\.min\(offset_buf\.len\(\)\);\s*offset_buf\[\.\.to_read\]\.copy_from_slice\(&buffer\[\.\.to_read\]\);\s*\*read \+= to_read as u8;\s*buffer\.advance\(to_read\);\s*if \*read == \d+ \{\s*if !\*continuation && buf == &CONTINUATION_MARKER \{\s*\*continuation = true;\s*\*read = (\d+);", "int"),
        # ---- shape items (audit): the value is incidental, the regex pins the guard / statement order
        ("IPC_FINISH_OK_READ", "arrow-ipc/src/reader/stream.rs",
         r"DecoderState::Finished\s*\|\s*DecoderState::Header\s*\{\s*read:\s*(\d+),\s*continuation:\s*false,\s*\.\.\s*\}\s*=>\s*Ok\(\(\)\)", "int"),
        ("IPC_EOS_SIZE", "arrow-ipc/src/reader/stream.rs",
         r"let size = u32::from_le_bytes\(\*buf\);\s*if size == (\d+) \{\s*self\.state = DecoderState::Finished;\s*continue;\s*\}\s*self\.state = DecoderState::Message \{ size \};", "int"),
        ("JSON_NUMBER_CLOSE", "arrow-json/src/reader/tape.rs",
         r"!matches!\(b, b'0'\.\.=b'9' \| b'-' \| b'\+' \| b'\.' \| b'e' \| b'E'\)\s*\}\);\s*self\.bytes\.extend_from_slice\(s\);\s*if !iter\.is_empty\(\) \{\s*self\.stack\.pop\(\);\s*let idx = self\.offsets\.len\(\) - (\d+);\s*self\.elements\.push\(TapeElement::Number", "int"),
        ("JSON_BATCH_STOP", "arrow-json/src/reader/tape.rs",
         r"None => \{\s*iter\.skip_whitespace\(\);\s*if self\.cur_row >= self\.batch_size \{\s*break;\s*\}\s*match iter\.peek\(\) \{\s*Some\(b'\['\) if self\.flatten_top_level_arrays => \{[^}]*\}\s*Some\(_\) => \{\s*// Start of row\s*self\.cur_row \+= (\d+);\s*self\.stack\.push\(DecoderState::Value\);", "int"),
        ("JSON_STRING_SCAN", "arrow-json/src/reader/tape.rs",
         r"let s = iter\.skip_chrs\(b'\\\\', b'\"'\);\s*self\.bytes\.extend_from_slice\(s\);\s*match next!\(iter\) \{\s*b'\\\\' => self\.stack\.push\(DecoderState::Escape\),\s*b'\"' => \{\s*let idx = self\.offsets\.len\(\) - (\d+);", "int"),
        ("JSON_UNICODE_HIGH_LAST", "arrow-json/src/reader/tape.rs",
         r"0\.\.=(\d+) => \*high = \(\*high << 4\) \| parse_hex\(next!\(iter\)\)\? as u16,\s*4 => \{\s*if let Some\(c\) = char::from_u32\(\*high as u32\) \{\s*write_char\(c, &mut self\.bytes\);\s*self\.stack\.pop\(\);\s*break;", "int"),
        ("JSON_UNICODE_LOW_LAST", "arrow-json/src/reader/tape.rs",
         r"6\.\.=(\d+) => \*low = \(\*low << 4\) \| parse_hex\(next!\(iter\)\)\? as u16,\s*_ => \{\s*let c = char_from_surrogate_pair\(\*low, \*high\)\?;", "int"),
        ("JSON_LITERAL_RESUME", "arrow-json/src/reader/tape.rs",
         r"let expected = bytes\.iter\(\)\.skip\(\*idx as usize\)\.copied\(\);\s*for \(expected, b\) in expected\.zip\(&mut iter\) \{\s*match b == expected \{\s*true => \*idx \+= (\d+),", "int"),
        ("CSV_RECORD_DONE", "arrow-csv/src/reader/records.rs",
         r"read \+= (\d+);\s*self\.current_field = 0;\s*self\.line_number \+= 1;\s*self\.num_rows \+= 1;\s*if read == to_read \{[^}]*return Ok\(\(read, input_offset\)\);\s*\}\s*if input\.len\(\) == input_offset \{", "int"),
        ("CSV_FLUSH_PARTIAL_GUARD", "arrow-csv/src/reader/records.rs",
         r"if self\.current_field != (\d+) \{\s*return Err\(ArrowError::CsvError\(\s*\"Cannot flush part way through record\"", "int"),
        ("CSV_TO_READ", "arrow-csv/src/reader/mod.rs",
         r"if self\.to_skip != (\d+) \{[\s\S]{0,1200}?let to_read = self\.batch_size\.min\(self\.end - self\.line_number\) - self\.record_decoder\.len\(\);\s*let \(_, bytes\) = self\.record_decoder\.decode\(buf, to_read\)\?;", "int"),
        ("CSV_BUFREADER_STOP", "arrow-csv/src/reader/mod.rs",
         r"let decoded = self\.decoder\.decode\(buf\)\?;\s*self\.reader\.consume\(decoded\);[\s\S]{0,400}?if decoded == (\d+) \|\| self\.decoder\.capacity\(\) == 0 \{\s*break;", "int"),
        ("AVRO_DATA_COPY", "arrow-avro/src/reader/block.rs",
         r"let to_read = self\.bytes_remaining\.min\(buf\.len\(\)\);\s*self\.in_progress\.data\.extend_from_slice\(&buf\[\.\.to_read\]\);\s*buf = &buf\[to_read\.\.\];\s*self\.bytes_remaining -= to_read;\s*if self\.bytes_remaining == (\d+) \{", "int"),
        ("AVRO_SYNC_COPY", "arrow-avro/src/reader/block.rs",
         r"let to_decode = buf\.len\(\)\.min\(self\.bytes_remaining\);[\s\S]{0,200}?self\.in_progress\.sync\[offset\.\.offset \+ to_decode\]\s*\.copy_from_slice\(&buf\[\.\.to_decode\]\);\s*self\.bytes_remaining -= to_decode;\s*buf = &buf\[to_decode\.\.\];\s*if self\.bytes_remaining == (\d+) \{", "int"),
        ("VLQ_ZIGZAG_SHIFT", "arrow-avro/src/reader/vlq.rs",
         r"return Ok\(Some\(\(val >> (\d+)\) as i64 \^ -\(\(val & 1\) as i64\)\)\);", "int"),
        # Avro streaming Decoder::decode / handle_fingerprint: statement order after a frame prefix
        ("AVROD_PREFIX_ARM", "arrow-avro/src/reader/mod.rs",
         r"match self\.handle_prefix\(&data\[total_consumed\.\.\]\)\? \{\s*Some\((\d+)\) => break, // Insufficient bytes\s*Some\(n\) => \{\s*total_consumed \+= n;\s*self\.apply_pending_schema_if_batch_empty\(\);\s*self\.awaiting_body = true;\s*\}\s*None => \{", "int"),
        ("AVROD_LOOP_HEAD", "arrow-avro/src/reader/mod.rs",
         r"while total_consumed < data\.len\(\) && self\.remaining_capacity > (\d+) \{\s*if self\.awaiting_body \{\s*match self\.active_decoder\.decode\(&data\[total_consumed\.\.\], 1\) \{\s*Ok\(n\) => \{\s*self\.remaining_capacity -= 1;\s*total_consumed \+= n;\s*self\.awaiting_body = false;\s*continue;", "int"),
        ("AVROD_SWITCH_FORCES_FLUSH", "arrow-avro/src/reader/mod.rs",
         r"self\.pending_schema = Some\(\(new_fingerprint, new_decoder\)\);[\s\S]{0,260}?if self\.remaining_capacity < self\.batch_size \{\s*self\.remaining_capacity = (\d+);\s*\}", "int"),
        # Avro block: 16 byte sync marker
        ("AVRO_SYNC_LEN", "arrow-avro/src/reader/block.rs", r"pub\s+sync:\s*\[u8;\s*(\d+)\]", "int"),
        ("AVRO_SYNC_REMAINING", "arrow-avro/src/reader/block.rs", r"if\s+self\.bytes_remaining\s*==\s*0\s*\{\s*self\.bytes_remaining\s*=\s*(\d+);", "int"),
        ("AVRO_SYNC_OFFSET_BASE", "arrow-avro/src/reader/block.rs", r"let\s+offset\s*=\s*(\d+)\s*-\s*self\.bytes_remaining;", "int"),
        # Avro VLQ decoder
        ("VLQ_MAX_SHIFT", "arrow-avro/src/reader/vlq.rs", r"if\s+self\.shift\s*==\s*(\d+)\s*&&\s*byte\s*>=", "int"),
        ("VLQ_LAST_LIMIT", "arrow-avro/src/reader/vlq.rs", r"if\s+self\.shift\s*==\s*\d+\s*&&\s*byte\s*>=\s*(0x[0-9a-fA-F]+|\d+)\s*\{", "int"),
        ("VLQ_PAYLOAD_MASK", "arrow-avro/src/reader/vlq.rs", r"self\.in_progress\s*\|=\s*\(\(byte\s*&\s*(0x[0-9a-fA-F]+)\)\s*as\s+u64\)\s*<<\s*self\.shift;", "int"),
        ("VLQ_SHIFT_STEP", "arrow-avro/src/reader/vlq.rs", r"self\.shift\s*\+=\s*(\d+);", "int"),
        ("VLQ_CONT_BIT", "arrow-avro/src/reader/vlq.rs", r"if\s+byte\s*&\s*(0x[0-9a-fA-F]+)\s*==\s*0\s*\{\s*let\s+val\s*=\s*self\.in_progress;", "int"),
    ],
}
FUNCTIONS = {}
