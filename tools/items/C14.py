"""C14 items the translator (tools/translate.py) extracts from /repo on every run.

CONSTANTS[group] = [(lean_name, file relative to /repo, regex with ONE group, kind)]
"""
CONSTANTS = {
    "C14": [
        # IPC stream framing: `const CONTINUATION_MARKER: [u8; 4] = [0xff; 4];`
        ("IPC_MARKER_BYTE", "arrow-ipc/src/lib.rs", r"const\s+CONTINUATION_MARKER\s*:\s*\[u8;\s*4\]\s*=\s*\[\s*(0x[0-9a-fA-F]+)\s*;\s*4\s*\]\s*;", "int"),
        ("IPC_MARKER_LEN", "arrow-ipc/src/lib.rs", r"const\s+CONTINUATION_MARKER\s*:\s*\[u8;\s*(\d+)\]\s*=\s*\[\s*0x[0-9a-fA-F]+\s*;\s*\d+\s*\]\s*;", "int"),
        # `DecoderState::Header { buf: [u8; 4], .. }` and `if *read == 4 {`
        ("IPC_HEADER_LEN", "arrow-ipc/src/reader/stream.rs", r"Header\s*\{\s*(?:///[^\n]*\s*)*buf:\s*\[u8;\s*(\d+)\]", "int"),
        ("IPC_HEADER_FULL", "arrow-ipc/src/reader/stream.rs", r"if\s+\*read\s*==\s*(\d+)\s*\{", "int"),
        # Avro block: 16 byte sync marker
        ("AVRO_SYNC_LEN", "arrow-avro/src/reader/block.rs", r"pub\s+sync:\s*\[u8;\s*(\d+)\]", "int"),
        ("AVRO_SYNC_REMAINING", "arrow-avro/src/reader/block.rs", r"if\s+self\.bytes_remaining\s*==\s*0\s*\{\s*self\.bytes_remaining\s*=\s*(\d+);", "int"),
        ("AVRO_SYNC_OFFSET_BASE", "arrow-avro/src/reader/block.rs", r"let\s+offset\s*=\s*(\d+)\s*-\s*self\.bytes_remaining;", "int"),
        # Avro VLQ decoder
        ("VLQ_MAX_SHIFT", "arrow-avro/src/reader/vlq.rs", r"if\s+self\.shift\s*==\s*(\d+)\s*&&\s*byte\s*>=", "int"),
        ("VLQ_LAST_LIMIT", "arrow-avro/src/reader/vlq.rs", r"if\s+self\.shift\s*==\s*\d+\s*&&\s*byte\s*>=\s*(0x[0-9a-fA-F]+|\d+)\s*\{", "int"),
        ("VLQ_PAYLOAD_MASK", "arrow-avro/src/reader/vlq.rs", r"self\.in_progress\s*\|=\s*\(\(byte\s*&\s*(0x[0-9a-fA-F]+)\)\s*as\s+u64\)\s*<<\s*self\.shift;", "int"),
        ("VLQ_SHIFT_STEP", "arrow-avro/src/reader/vlq.rs", r"self\.shift\s*\+=\s*(\d+);", "int"),
        ("VLQ_CONT_BIT", "arrow-avro/src/reader/vlq.rs", r"if\s+byte\s*&\s*(0x[0-9a-fA-F]+)\s*==\s*0\s*\{\s*let\s+val\s*=\s*self\.in_progress;", "int"),
    ],
}
FUNCTIONS = {}
