"""C05 items the translator (tools/translate.py) extracts from /repo on every run.

CONSTANTS[group] = [(lean_name, file relative to /repo, regex with ONE group, kind)]
Every constant the Parquet level/value *formats* modelled in lean/ArrowModel/C05 depend on.
The model and the theorems use these names, so a change of the literal in the source
changes the model and re-checks (or breaks) the proofs.
"""
RLE = "parquet/src/encodings/rle.rs"
BU = "parquet/src/util/bit_util.rs"
ENC = "parquet/src/encodings/encoding/mod.rs"
DEC = "parquet/src/encodings/decoding.rs"
CONSTANTS = {
    "C05": [
        # --- RLE / bit-packing hybrid
        ("BIT_PACK_GROUP_SIZE", RLE, r"const\s+BIT_PACK_GROUP_SIZE\s*:\s*usize\s*=\s*([^;]+);", "int"),
        ("MAX_GROUPS_PER_BIT_PACKED_RUN", RLE, r"const\s+MAX_GROUPS_PER_BIT_PACKED_RUN\s*:\s*usize\s*=\s*([^;]+);", "int"),
        # indicator bits
        ("RLE_INDICATOR_SHIFT", RLE, r"let\s+indicator_value\s*=\s*self\.repeat_count\s*<<\s*(\d+)\s*;", "int"),
        ("BP_INDICATOR_SHIFT", RLE, r"let\s+indicator_byte\s*=\s*\(\(num_groups\s*<<\s*(\d+)\)\s*\|\s*1\)\s*as\s*u8", "int"),
        ("BP_INDICATOR_FLAG", RLE, r"let\s+indicator_byte\s*=\s*\(\(num_groups\s*<<\s*\d+\)\s*\|\s*(\d+)\)\s*as\s*u8", "int"),
        ("DEC_INDICATOR_FLAG_MASK", RLE, r"if\s+indicator_value\s*&\s*(\d+)\s*==\s*1\s*\{", "int"),
        ("DEC_BP_SHIFT", RLE, r"self\.bit_packed_left\s*=\s*\(\(indicator_value\s*>>\s*(\d+)\)\s*\*\s*BIT_PACK_GROUP_SIZE", "int"),
        ("DEC_RLE_SHIFT", RLE, r"self\.rle_left\s*=\s*\(indicator_value\s*>>\s*(\d+)\)\s*as\s*u32", "int"),
        # --- VLQ / zig-zag
        ("VLQ_CONT_MASK", BU, r"while\s+v\s*&\s*(0x[0-9A-Fa-f_]+)\s*!=\s*0\s*\{", "int"),
        ("VLQ_PAYLOAD_MASK", BU, r"self\.put_aligned::<u8>\(\(\(v\s*&\s*(0x[0-9A-Fa-f]+)\)\s*\|\s*0x80\)\s*as\s*u8", "int"),
        ("VLQ_CONT_BIT", BU, r"self\.put_aligned::<u8>\(\(\(v\s*&\s*0x[0-9A-Fa-f]+\)\s*\|\s*(0x[0-9A-Fa-f]+)\)\s*as\s*u8", "int"),
        ("VLQ_SHIFT", BU, r"v\s*>>=\s*(\d+)\s*;", "int"),
        ("VLQ_READ_SHIFT", BU, r"v\s*\|=\s*\(\(byte\s*&\s*0x7F\)\s*as\s*i64\)\s*<<\s*shift;\s*shift\s*\+=\s*(\d+)\s*;", "int"),
        ("MAX_VLQ_BYTE_LEN", BU, r"pub\s+const\s+MAX_VLQ_BYTE_LEN\s*:\s*usize\s*=\s*(\d+)\s*;", "int"),
        ("ZIGZAG_ENC_SHL", BU, r"let\s+u\s*:\s*u64\s*=\s*\(\(v\s*<<\s*(\d+)\)\s*\^\s*\(v\s*>>\s*\d+\)\)\s*as\s*u64", "int"),
        ("ZIGZAG_ENC_SAR", BU, r"let\s+u\s*:\s*u64\s*=\s*\(\(v\s*<<\s*\d+\)\s*\^\s*\(v\s*>>\s*(\d+)\)\)\s*as\s*u64", "int"),
        ("ZIGZAG_DEC_SHR", BU, r"\(u\s*>>\s*(\d+)\)\s*as\s*i64\s*\^\s*-\(\(u\s*&\s*1\)\s*as\s*i64\)", "int"),
        # --- DELTA_BINARY_PACKED
        ("DEFAULT_NUM_MINI_BLOCKS", ENC, r"const\s+DEFAULT_NUM_MINI_BLOCKS\s*:\s*usize\s*=\s*(\d+)\s*;", "int"),
        ("DELTA_MINI_BLOCK_SIZE_I32", ENC, r"Type::INT32\s*=>\s*(\d+)\s*,\s*Type::INT64\s*=>\s*\d+\s*,", "int"),
        ("DELTA_MINI_BLOCK_SIZE_I64", ENC, r"Type::INT32\s*=>\s*\d+\s*,\s*Type::INT64\s*=>\s*(\d+)\s*,", "int"),
        ("DELTA_BLOCK_MULTIPLE", DEC, r"if\s*!self\.block_size\.is_multiple_of\((\d+)\)", "int"),
        ("DELTA_MINI_BLOCK_MULTIPLE", DEC, r"if\s*!self\.values_per_mini_block\.is_multiple_of\((\d+)\)", "int"),
        # --- LevelInfoBuilder::write_leaf bulk-fill gate
        ("BULK_FILL_MIN_LEN", "parquet/src/arrow/arrow_writer/levels.rs", r"const\s+BULK_FILL_MIN_LEN\s*:\s*usize\s*=\s*(\d+)\s*;", "int"),
        ("BULK_FILL_NULL_FACTOR", "parquet/src/arrow/arrow_writer/levels.rs", r"len\s*>=\s*BULK_FILL_MIN_LEN\s*&&\s*nulls\.null_count\(\)\s*\*\s*(\d+)\s*>=\s*nulls\.len\(\)", "int"),
        # presence of the `+ range.start` rebase of non_null_indices in both write_leaf paths
        # (empty capture group: the item is "lost" when the expression is no longer in the source)
        ("LEAF_BULK_REBASE", "parquet/src/arrow/arrow_writer/levels.rs", r"\.extend\(range_nulls\.valid_indices\(\)\.map\(\|i\|\s*i\s*\+\s*range\.start\)\)()", "intlist"),
        ("LEAF_ITER_REBASE", "parquet/src/arrow/arrow_writer/levels.rs", r"BitIndexIterator::new\(bits\.inner\(\),\s*bits\.offset\(\)\s*\+\s*range\.start,\s*len\)\s*\.map\(\|i\|\s*i\s*\+\s*range\.start\)()", "intlist"),
    ],
}
FUNCTIONS = {}
