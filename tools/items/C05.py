"""C05 items the translator (tools/translate.py) extracts from /repo on every run.

CONSTANTS[group] = [(lean_name, file relative to /repo, regex with ONE group, kind)]
Every constant the Parquet level/value *formats* modelled in lean/ArrowModel/C05 depend on.
The model and the theorems use these names, so a change of the literal in the source
changes the model and re-checks (or breaks) the proofs.
"""
RLE = "parquet/src/encodings/rle.rs"
BU = "parquet/src/util/bit_util.rs"
ENC = "parquet/src/encodings/encoding/mod.rs"
DEC = "parquet/src/encodings/decoding.rs"

import re as _re
def _shape(text):
    """whitespace-tolerant regex for a source fragment, with an empty capture group: the item is
    LOST (and `source_shapes_present` fails) as soon as the fragment is edited"""
    return r"\s*".join(_re.escape(t) for t in text.split()) + "()"
LV = "parquet/src/arrow/arrow_writer/levels.rs"
SHAPES = [
    # RleEncoder control flow
    ("SH_RLE_PUT_SKIP", RLE, "if self.repeat_count > BIT_PACK_GROUP_SIZE { // A continuation of last value. No need to buffer. return; }"),
    ("SH_RLE_PUT_FLUSH", RLE, "if self.repeat_count >= BIT_PACK_GROUP_SIZE { // The current RLE run has ended and we've gathered enough. Flush first."),
    ("SH_RLE_PUT_RESET", RLE, "self.repeat_count = 1; self.current_value = value; }"),
    ("SH_RLE_GROUP_FULL", RLE, "if self.num_buffered_values == BIT_PACK_GROUP_SIZE {"),
    ("SH_RLE_FBV_GUARD", RLE, "fn flush_buffered_values(&mut self) { if self.repeat_count >= BIT_PACK_GROUP_SIZE {"),
    ("SH_RLE_FBV_CLOSE", RLE, "if self.bit_packed_count > 0 {"),
    ("SH_RLE_MAX_GROUPS", RLE, "if num_groups + 1 >= MAX_GROUPS_PER_BIT_PACKED_RUN {"),
    ("SH_RLE_FLUSH_ALLREP", RLE, "let all_repeat = self.bit_packed_count == 0 && (self.repeat_count == self.num_buffered_values || self.num_buffered_values == 0); if self.repeat_count > 0 && all_repeat {"),
    ("SH_RLE_FLUSH_PAD", RLE, "while self.num_buffered_values < BIT_PACK_GROUP_SIZE { self.buffered_values[self.num_buffered_values] = 0;"),
    ("SH_RLE_VALUE_WIDTH", RLE, "bit_util::ceil(self.bit_width as usize, u8::BITS as usize),"),
    ("SH_RLE_DEC_ZERO", RLE, "if indicator_value == 0 { return Ok(false); }"),
    ("SH_RLE_DEC_ORDER", RLE, "if self.rle_left > 0 { let num_values = cmp::min(buffer.len() - values_read, self.rle_left as usize);"),
    # BitWriter / BitReader
    ("SH_BW_PUT", BU, "self.buffered_values |= v << self.bit_offset; self.bit_offset += num_bits; if let Some(remaining) = self.bit_offset.checked_sub(64) {"),
    ("SH_BW_CARRY", BU, ".checked_shr((num_bits - self.bit_offset) as u32) .unwrap_or(0);"),
    ("SH_BR_GET", BU, "trailing_bits(self.buffered_values, self.bit_offset + num_bits) >> self.bit_offset;"),
    ("SH_BR_VLQ_LIMIT", BU, "for (i, &byte) in buf.iter().enumerate() { if shift >= MAX_VLQ_BYTE_LEN * 7 { return None; } v |= ((byte & 0x7F) as i64) << shift; shift += 7;"),
    ("SH_RLE_BOOL_EMPTY_FLUSH", ENC, "let rle_encoder = self.encoder.take().unwrap_or_else(|| {"),
    ("SH_LV_CHUNK_BOUNDS", LV, "let start = nni.iter().copied().min().unwrap_or(0); let end = nni.iter().copied().max().map_or(0, |i| i + 1);"),
    ("SH_BR_BOUND", BU, "if self.byte_offset * 8 + self.bit_offset + num_bits > self.buffer.len() * 8 { return None; }"),
    # LevelInfoBuilder level arithmetic and run handling
    ("SH_LV_LIST_DEF", LV, "true => parent_ctx.def_level + 2, false => parent_ctx.def_level + 1, };"),
    ("SH_LV_STRUCT_DEF", LV, "true => parent_ctx.def_level + 1, false => parent_ctx.def_level, };"),
    ("SH_LV_LIST_REP", LV, "rep_level: parent_ctx.rep_level + 1, def_level,"),
    ("SH_LV_START_REP", LV, "let list_start_rep = ctx.rep_level - 1;"),
    ("SH_LV_NULLS", LV, "leaf.append_rep_level_run(list_start_rep, count); leaf.append_def_level_run(ctx.def_level - 2, count);"),
    ("SH_LV_EMPTIES", LV, "leaf.append_rep_level_run(list_start_rep, count); leaf.append_def_level_run(ctx.def_level - 1, count);"),
    ("SH_LV_CLASSIFY", LV, "if !$nulls.is_valid($i + null_offset) { SlotKind::Null } else if offsets[$i] == offsets[$i + 1] { SlotKind::Empty } else { SlotKind::NonEmpty }"),
    ("SH_LV_STAMP", LV, "let pos = batch_base + (slot_offset.as_usize() - values_start); rep_levels[pos] = list_start_rep;"),
    ("SH_LV_CHILD_RANGE", LV, "let values_start = run_offsets[0].as_usize(); let values_end = run_offsets[run_offsets.len() - 1].as_usize();"),
    ("SH_LV_STRUCT_NULL", LV, "info.extend_uniform_levels(ctx.def_level - 1, ctx.rep_level, len);"),
    ("SH_LV_LEAF_ALLNULL", LV, "&& nulls.null_count() == nulls.len() { info.extend_uniform_levels(info.max_def_level - 1, info.max_rep_level, len); return; }"),
    ("SH_LV_LEAF_DEF", LV, "max_def_level - (!valid as i16)"),
    ("SH_LV_LEAF_BULK_SET", LV, "buf.resize(base + len, null_def_level); for i in range_nulls.valid_indices() { buf[base + i] = max_def_level; }"),
    ("SH_LV_LEAF_MAXDEF", LV, "let max_def_level = match is_nullable { true => ctx.def_level + 1, false => ctx.def_level, };"),
    # DELTA_BINARY_PACKED
    ("SH_DL_SUB32", ENC, "Type::INT32 => (left as i32).wrapping_sub(right as i32) as u32 as u64,"),
    ("SH_DL_WIDTH", ENC, "let bit_width = num_required_bits(self.subtract_u64(max_delta, min_delta)) as usize;"),
    ("SH_DL_DELTA", ENC, "self.deltas[self.values_in_block] = self.subtract(value, self.current_value); self.current_value = value;"),
    ("SH_DL_MIN", ENC, "min_delta = cmp::min(min_delta, self.deltas[i]);"),
    ("SH_DL_PACKED", ENC, "self.subtract_u64(self.deltas[i * self.mini_block_size + j], min_delta); self.bit_writer.put_value(packed_value, bit_width);"),
    ("SH_DL_DEC_ADD", DEC, ".wrapping_add(&self.min_delta) .wrapping_add(&self.last_value); self.last_value = *v;"),
    ("SH_DBA_PREFIX", ENC, "let match_len = common_prefix_length(&self.previous, current); prefix_lengths.push(match_len as i32); suffixes.push(byte_array.slice(match_len, byte_array.len() - match_len));"),
]
CONSTANTS = {
    "C05": [
        # --- RLE / bit-packing hybrid
        ("BIT_PACK_GROUP_SIZE", RLE, r"const\s+BIT_PACK_GROUP_SIZE\s*:\s*usize\s*=\s*([^;]+);", "int"),
        ("MAX_GROUPS_PER_BIT_PACKED_RUN", RLE, r"const\s+MAX_GROUPS_PER_BIT_PACKED_RUN\s*:\s*usize\s*=\s*([^;]+);", "int"),
        # indicator bits
        ("RLE_INDICATOR_SHIFT", RLE, r"let\s+indicator_value\s*=\s*self\.repeat_count\s*<<\s*(\d+)\s*;", "int"),
        ("BP_INDICATOR_SHIFT", RLE, r"let\s+indicator_byte\s*=\s*\(\(num_groups\s*<<\s*(\d+)\)\s*\|\s*1\)\s*as\s*u8", "int"),
        ("BP_INDICATOR_FLAG", RLE, r"let\s+indicator_byte\s*=\s*\(\(num_groups\s*<<\s*\d+\)\s*\|\s*(\d+)\)\s*as\s*u8", "int"),
        ("DEC_INDICATOR_FLAG_MASK", RLE, r"if\s+indicator_value\s*&\s*(\d+)\s*==\s*1\s*\{", "int"),
        ("DEC_BP_SHIFT", RLE, r"self\.bit_packed_left\s*=\s*\(\(indicator_value\s*>>\s*(\d+)\)\s*\*\s*BIT_PACK_GROUP_SIZE", "int"),
        ("DEC_RLE_SHIFT", RLE, r"self\.rle_left\s*=\s*\(indicator_value\s*>>\s*(\d+)\)\s*as\s*u32", "int"),
        # --- VLQ / zig-zag
        ("VLQ_CONT_MASK", BU, r"while\s+v\s*&\s*(0x[0-9A-Fa-f_]+)\s*!=\s*0\s*\{", "int"),
        ("VLQ_PAYLOAD_MASK", BU, r"self\.put_aligned::<u8>\(\(\(v\s*&\s*(0x[0-9A-Fa-f]+)\)\s*\|\s*0x80\)\s*as\s*u8", "int"),
        ("VLQ_CONT_BIT", BU, r"self\.put_aligned::<u8>\(\(\(v\s*&\s*0x[0-9A-Fa-f]+\)\s*\|\s*(0x[0-9A-Fa-f]+)\)\s*as\s*u8", "int"),
        ("VLQ_SHIFT", BU, r"v\s*>>=\s*(\d+)\s*;", "int"),
        ("VLQ_READ_SHIFT", BU, r"v\s*\|=\s*\(\(byte\s*&\s*0x7F\)\s*as\s*i64\)\s*<<\s*shift;\s*shift\s*\+=\s*(\d+)\s*;", "int"),
        ("MAX_VLQ_BYTE_LEN", BU, r"pub\s+const\s+MAX_VLQ_BYTE_LEN\s*:\s*usize\s*=\s*(\d+)\s*;", "int"),
        ("ZIGZAG_ENC_SHL", BU, r"let\s+u\s*:\s*u64\s*=\s*\(\(v\s*<<\s*(\d+)\)\s*\^\s*\(v\s*>>\s*\d+\)\)\s*as\s*u64", "int"),
        ("ZIGZAG_ENC_SAR", BU, r"let\s+u\s*:\s*u64\s*=\s*\(\(v\s*<<\s*\d+\)\s*\^\s*\(v\s*>>\s*(\d+)\)\)\s*as\s*u64", "int"),
        ("ZIGZAG_DEC_SHR", BU, r"\(u\s*>>\s*(\d+)\)\s*as\s*i64\s*\^\s*-\(\(u\s*&\s*1\)\s*as\s*i64\)", "int"),
        # --- DELTA_BINARY_PACKED
        ("DEFAULT_NUM_MINI_BLOCKS", ENC, r"const\s+DEFAULT_NUM_MINI_BLOCKS\s*:\s*usize\s*=\s*(\d+)\s*;", "int"),
        ("DELTA_MINI_BLOCK_SIZE_I32", ENC, r"Type::INT32\s*=>\s*(\d+)\s*,\s*Type::INT64\s*=>\s*\d+\s*,", "int"),
        ("DELTA_MINI_BLOCK_SIZE_I64", ENC, r"Type::INT32\s*=>\s*\d+\s*,\s*Type::INT64\s*=>\s*(\d+)\s*,", "int"),
        ("DELTA_BLOCK_MULTIPLE", DEC, r"if\s*!self\.block_size\.is_multiple_of\((\d+)\)", "int"),
        ("DELTA_MINI_BLOCK_MULTIPLE", DEC, r"if\s*!self\.values_per_mini_block\.is_multiple_of\((\d+)\)", "int"),
        # --- LevelInfoBuilder::write_leaf bulk-fill gate
        ("BULK_FILL_MIN_LEN", "parquet/src/arrow/arrow_writer/levels.rs", r"const\s+BULK_FILL_MIN_LEN\s*:\s*usize\s*=\s*(\d+)\s*;", "int"),
        ("BULK_FILL_NULL_FACTOR", "parquet/src/arrow/arrow_writer/levels.rs", r"len\s*>=\s*BULK_FILL_MIN_LEN\s*&&\s*nulls\.null_count\(\)\s*\*\s*(\d+)\s*>=\s*nulls\.len\(\)", "int"),
        # presence of the `+ range.start` rebase of non_null_indices in both write_leaf paths
        # (empty capture group: the item is "lost" when the expression is no longer in the source)
        ("LEAF_BULK_REBASE", "parquet/src/arrow/arrow_writer/levels.rs", r"\.extend\(range_nulls\.valid_indices\(\)\.map\(\|i\|\s*i\s*\+\s*range\.start\)\)()", "intlist"),
        ("LEAF_ITER_REBASE", "parquet/src/arrow/arrow_writer/levels.rs", r"BitIndexIterator::new\(bits\.inner\(\),\s*bits\.offset\(\)\s*\+\s*range\.start,\s*len\)\s*\.map\(\|i\|\s*i\s*\+\s*range\.start\)()", "intlist"),
    ] + [(n, f, _shape(t), "intlist") for (n, f, t) in SHAPES],
}
FUNCTIONS = {}
