"""C06 items the translator (tools/translate.py) extracts from /repo on every run.

CONSTANTS[group] = [(lean_name, file relative to /repo, regex with ONE group, kind)]
"""
_RB = "parquet/src/arrow/push_decoder/reader_builder/mod.rs"
_CUR = "parquet/src/arrow/arrow_reader/selection/cursor.rs"
CONSTANTS = {
    "C06": [
        # `RowBudget::is_exhausted`: the limit value at which no further row group is read
        ("BUDGET_EXHAUSTED_LIMIT", _RB, r"fn is_exhausted\(self\) -> bool \{\s*matches!\(self\.limit, Some\((\d+)\)\)", "int"),
        # `RowBudget::rows_after`: offset used when none is configured (`self.offset.unwrap_or(0)`)
        ("BUDGET_DEFAULT_OFFSET", _RB, r"rows_before_budget\.saturating_sub\(self\.offset\.unwrap_or\((\d+)\)\)", "int"),
        # `RowBudget::advance`: the limit is only reduced when `rows_after_budget != 0`
        ("BUDGET_ADVANCE_SKIP_WHEN", _RB, r"if rows_after_budget != (\d+)\s*&& let Some\(limit\) = &mut self\.limit", "int"),
        # `RowSelectionPolicy::default()` = Auto { threshold: 32 }
        ("DEFAULT_AUTO_THRESHOLD", _CUR, r"fn default\(\) -> Self \{\s*Self::Auto \{ threshold: (\d+) \}", "int"),
    ],
}

# ---- shape items: the regex pins a critical expression / guard / statement order; the single
# group captures a literal inside it.  An edit of the pinned text makes the item LOST
# (`<name>_lost = true`), which breaks the obligation `source_shape_ties`.
_SEL = "parquet/src/arrow/arrow_reader/selection/"
_REM = "parquet/src/arrow/push_decoder/remaining.rs"
_RP = "parquet/src/arrow/arrow_reader/read_plan.rs"
_AR = "parquet/src/arrow/arrow_reader/mod.rs"
CONSTANTS["C06"] += [
    # split_off (mask arm): head count from the tail's emptiness, tail count by subtraction
    ("SHAPE_SPLIT_OFF_MASK_COUNT", _SEL + "mod.rs",
     r"let head_count = if tail\.is_empty\(\) \{\s*total\s*\} else \{\s*head\.count_set_bits\(\)\s*\};\s*\(\s*MaskSelection::with_count\(head, head_count\),\s*MaskSelection::with_count\(tail, total - head_count\),\s*\)\s*\}\s*None => \(MaskSelection::new\(head\), MaskSelection::new\(tail\)\),[\s\S]*?let \(head, tail\) = split_off_selectors\(selectors, row_count\);()", "intlist"),
    # split_off_selectors: first selector whose running total exceeds row_count; overflow split
    ("SHAPE_SPLIT_OFF_SELECTORS", _SEL + "selector.rs",
     r"let mut total_count = (0);\s*// Find the index where the selector exceeds the row count\s*let find = selectors\.iter\(\)\.position\(\|selector\| \{\s*total_count \+= selector\.row_count;\s*total_count > row_count\s*\}\);[\s\S]*?let overflow = total_count - row_count;\s*if next\.row_count != overflow \{\s*selectors\.push\(RowSelector \{\s*row_count: next\.row_count - overflow,\s*skip: next\.skip,\s*\}\)\s*\}\s*next\.row_count = overflow;", "int"),
    # offset_selectors: guard and the two rebuilt selectors
    ("SHAPE_OFFSET_SELECTORS", _SEL + "selector.rs",
     r"let mut selected_count = (0);\s*let mut skipped_count = 0;[\s\S]*?true => \{\s*skipped_count \+= selector\.row_count;\s*false\s*\}\s*false => \{\s*selected_count \+= selector\.row_count;\s*selected_count > offset\s*\}[\s\S]*?new_selectors\.push\(RowSelector::skip\(skipped_count \+ offset\)\);\s*new_selectors\.push\(RowSelector::select\(selected_count - offset\)\);\s*new_selectors\.extend_from_slice\(&selectors\[split_idx \+ 1\.\.\]\);", "int"),
    # limit_selectors
    ("SHAPE_LIMIT_SELECTORS", _SEL + "selector.rs",
     r"if limit == (0) \{\s*selectors\.clear\(\);\s*\}\s*for \(idx, selection\) in selectors\.iter_mut\(\)\.enumerate\(\) \{\s*if !selection\.skip \{\s*if selection\.row_count >= limit \{\s*selection\.row_count = limit;\s*selectors\.truncate\(idx \+ 1\);\s*break;\s*\} else \{\s*limit -= selection\.row_count;", "int"),
    # offset_mask / limit_mask
    ("SHAPE_OFFSET_LIMIT_MASK", _SEL + "boolean.rs",
     r"if offset >= popcount \{\s*return BooleanBuffer::new_unset\((0)\);\s*\}[\s\S]*?let pos = mask\.find_nth_set_bit_position\(0, offset\);\s*let mut builder = BooleanBufferBuilder::new\(mask\.len\(\)\);\s*builder\.append_n\(pos, false\);\s*builder\.append_buffer\(&mask\.slice\(pos, mask\.len\(\) - pos\)\);[\s\S]*?let cut = mask\.find_nth_set_bit_position\(0, limit\);\s*mask\.slice\(0, cut\)", "int"),
    # RowSelection::offset / limit count bookkeeping on the mask arm
    ("SHAPE_OFFSET_LIMIT_COUNT", _SEL + "mod.rs",
     r"if offset == (0) \{\s*return self;\s*\}[\s\S]*?let count = mask\.count\(\);\s*let buffer = offset_mask\(\(\*mask\)\.into_mask\(\), offset, count\);\s*Self::from_mask_selection\(MaskSelection::with_count\(\s*buffer,\s*count\.saturating_sub\(offset\),\s*\)\)[\s\S]*?Some\(count\) => Self::from_mask_selection\(MaskSelection::with_count\(\s*buffer,\s*count\.min\(limit\),\s*\)\),", "int"),
    # and_then_iter: the processing step
    ("SHAPE_AND_THEN_ITER", _SEL + "algebra.rs",
     r"let mut to_skip = (0);\s*while let Some\(b\) = second\.peek_mut\(\) \{[\s\S]*?if a\.skip \{\s*// Records were skipped when producing second\s*to_skip \+= a\.row_count;\s*first\.next\(\)\.unwrap\(\);\s*continue;\s*\}\s*let skip = b\.skip;\s*let to_process = a\.row_count\.min\(b\.row_count\);\s*a\.row_count -= to_process;\s*b\.row_count -= to_process;\s*match skip \{\s*true => to_skip \+= to_process,", "int"),
    # next_inner: selector loop (return_selector guard, need_read)
    ("SHAPE_NEXT_INNER", _AR,
     r"while read_records < batch_size && !selectors_cursor\.is_empty\(\) \{[\s\S]*?let need_read = batch_size - read_records;\s*let to_read = match front\.row_count\.checked_sub\(need_read\) \{\s*Some\(remaining\) if remaining != (0) => \{[\s\S]*?selectors_cursor\.return_selector\(RowSelector::select\(remaining\)\);\s*need_read\s*\}\s*_ => front\.row_count,\s*\};", "int"),
    # read_mask_batch: loop condition and chunk request
    ("SHAPE_READ_MASK_BATCH", _AR,
     r"let mut selected_rows = (0);\s*let mut filter_mask = FilterMaskAccumulator::default\(\);\s*while selected_rows < batch_size && !mask_cursor\.is_empty\(\) \{\s*let mask_chunk = mask_cursor\.next_chunk\(batch_size - selected_rows\)\?;", "int"),
    # build_limited: offset is applied before limit
    ("SHAPE_BUILD_LIMITED_ORDER", _RP,
     r"if let Some\(offset\) = offset \{\s*inner\.selection = Some\(match row_count\.checked_sub\(offset\) \{[\s\S]*?\.map\(\|selection\| selection\.offset\(offset\)\)[\s\S]*?if let Some\(limit\) = limit \{[\s\S]*?\.map\(\|selection\| selection\.limit\(limit\)\)[\s\S]*?RowSelection::from\(vec!\[RowSelector::select\(limit\.min\(row_count\)\)\]\)()", "intlist"),
    # with_predicate_options: limit truncation and padding
    ("SHAPE_PREDICATE_LIMIT", _RP,
     r"Some\(limit\) if limit - matched_rows <= filter\.len\(\) => \{\s*let truncated = filter\.take_n_true\(limit - matched_rows\);\s*matched_rows \+= truncated\.true_count\(\);\s*filters\.push\(truncated\);\s*if matched_rows >= limit \{\s*break;[\s\S]*?&& processed_rows < expected\s*\{\s*let pad_len = expected - processed_rows;()", "intlist"),
    # RowGroupFrontier: row_count() == 0 stop, split_off per row group, budget from the SELECTED rows
    ("SHAPE_FRONTIER", _REM,
     r"\.is_some_and\(\|selection\| selection\.row_count\(\) == (0)\)[\s\S]*?let selection = selection\.split_off\(row_count\);\s*let selected_rows = selection\.row_count\(\);\s*if selected_rows == 0 \{\s*self\.row_groups\.pop_front\(\);\s*continue;\s*\}\s*let selection = if selected_rows == row_count \{\s*None[\s\S]*?None => \(None, row_count\),[\s\S]*?match self\.plan_selected_row_group\(next_row_group, selected_rows\)", "int"),
    ("SHAPE_FRONTIER_PLAN", _REM,
     r"let rows_after_budget = self\.budget\.rows_after\(selected_rows\);\s*if rows_after_budget != (0) \{\s*return QueuedRowGroupDecision::Read\(next_row_group\);\s*\}\s*QueuedRowGroupDecision::Skip \{\s*remaining_budget: self\.budget\.advance\(selected_rows, rows_after_budget\),", "int"),
    # RowBudget::rows_after / advance / apply_to_plan
    ("SHAPE_BUDGET", _RB,
     r"let rows_after_offset = rows_before_budget\.saturating_sub\(self\.offset\.unwrap_or\((0)\)\);\s*match self\.limit \{\s*Some\(limit\) => rows_after_offset\.min\(limit\),\s*None => rows_after_offset,[\s\S]*?let rows_before_budget = plan_builder\.num_rows_selected\(\)\.unwrap_or\(row_count\);[\s\S]*?let rows_after_budget = self\.rows_after\(rows_before_budget\);[\s\S]*?remaining_budget: self\.advance\(rows_before_budget, rows_after_budget\),[\s\S]*?\*offset = offset\.saturating_sub\(rows_before_budget - rows_after_budget\);[\s\S]*?\*limit -= rows_after_budget;", "int"),
]

# value-level `skip` of the byte-array decoders (same expressions in both files)
_BV = "parquet/src/arrow/array_reader/byte_view_array.rs"
_BA = "parquet/src/arrow/array_reader/byte_array.rs"
_DL_SKIP = (r"fn skip\(&mut self, to_skip: usize\) -> Result<usize> \{\s*let remain_values = self\.lengths\.len\(\) - self\.length_offset;"
            r"\s*let to_skip = remain_values\.min\(to_skip\);\s*let src_lengths = &self\.lengths\[self\.length_offset\.\.self\.length_offset \+ to_skip\];"
            r"\s*let total_bytes: usize = src_lengths\.iter\(\)\.map\(\|x\| \*x as usize\)\.sum\(\);\s*self\.data_offset \+= total_bytes;"
            r"\s*self\.length_offset \+= to_skip;\s*Ok\(to_skip\)()")
_PLAIN_SKIP = (r"let to_skip = to_skip\.min\(self\.max_remaining_values\);\s*let mut skip = (0);\s*let buf(?:: &\[u8\])? = self\.buf\.as_ref\(\);"
               r"\s*while self\.offset < self\.buf\.len\(\) && skip != to_skip \{[\s\S]*?let len = u32::from_le_bytes\(len_bytes\) as usize;"
               r"\s*skip \+= 1;\s*self\.offset = self\.offset \+ 4 \+ len;\s*\}\s*self\.max_remaining_values -= skip;")
CONSTANTS["C06"] += [
    ("SHAPE_VIEW_DELTA_LENGTH_SKIP", _BV, _DL_SKIP, "intlist"),
    ("SHAPE_BYTES_DELTA_LENGTH_SKIP", _BA, _DL_SKIP, "intlist"),
    ("SHAPE_VIEW_PLAIN_SKIP", _BV, _PLAIN_SKIP, "int"),
    ("SHAPE_BYTES_PLAIN_SKIP", _BA, _PLAIN_SKIP, "int"),
]
FUNCTIONS = {}
