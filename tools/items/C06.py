"""C06 items the translator (tools/translate.py) extracts from /repo on every run.

CONSTANTS[group] = [(lean_name, file relative to /repo, regex with ONE group, kind)]
"""
_RB = "parquet/src/arrow/push_decoder/reader_builder/mod.rs"
_CUR = "parquet/src/arrow/arrow_reader/selection/cursor.rs"
CONSTANTS = {
    "C06": [
        # `RowBudget::is_exhausted`: the limit value at which no further row group is read
        ("BUDGET_EXHAUSTED_LIMIT", _RB, r"fn is_exhausted\(self\) -> bool \{\s*matches!\(self\.limit, Some\((\d+)\)\)", "int"),
        # `RowBudget::rows_after`: offset used when none is configured (`self.offset.unwrap_or(0)`)
        ("BUDGET_DEFAULT_OFFSET", _RB, r"rows_before_budget\.saturating_sub\(self\.offset\.unwrap_or\((\d+)\)\)", "int"),
        # `RowBudget::advance`: the limit is only reduced when `rows_after_budget != 0`
        ("BUDGET_ADVANCE_SKIP_WHEN", _RB, r"if rows_after_budget != (\d+)\s*&& let Some\(limit\) = &mut self\.limit", "int"),
        # `RowSelectionPolicy::default()` = Auto { threshold: 32 }
        ("DEFAULT_AUTO_THRESHOLD", _CUR, r"fn default\(\) -> Self \{\s*Self::Auto \{ threshold: (\d+) \}", "int"),
    ],
}
FUNCTIONS = {}
