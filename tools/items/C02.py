"""C02 items the translator (tools/translate.py) extracts from /repo on every run.

CONSTANTS[group] = [(lean_name, file relative to /repo, regex with ONE group, kind)]
kind: "int" | "intlist" | "f64ratio"
"""
CONSTANTS = {
    "C02": [
        # null-density switch of primitive_equal / fixed_binary_equal between the per-slot loop
        # and the BitSliceIterator comparison (tuning knob: the theorems hold for either branch;
        # the driver uses the value to take the same branch as the code)
        ("NULL_SLICES_SELECTIVITY_THRESHOLD", "arrow-data/src/equal/primitive.rs",
         r"const\s+NULL_SLICES_SELECTIVITY_THRESHOLD\s*:\s*f64\s*=\s*([0-9_]+(?:\.[0-9_]+)?)\s*;", "f64ratio"),
    ],
}
FUNCTIONS = {}
