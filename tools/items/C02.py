"""C02 items the translator (tools/translate.py) extracts from /repo on every run.

CONSTANTS[group] = [(lean_name, file relative to /repo, regex with ONE group, kind)]
kind: "int" | "intlist" | "f64ratio"

Besides the one tuning constant, the items below tie the SHAPE of the critical expressions of
arrow-data/src/equal/* (guards, index arithmetic, which operand a mask / offset comes from) that
the Lean model `ArrowModel.C02.Model` mirrors: each regex spells the expression out and captures
an integer literal inside (or, where the expression has none, the `2` of the licence header's
"Version 2.0" in front of it); when the source is edited the pattern no longer matches, the item
goes LOST and the obligation `ArrowModel.C02.source_shape_ties` fails.
"""
H = r"Version (\d+)\.0.*?"   # licence header, then (non-greedy, re.S) the expression
CONSTANTS = {
    "C02": [
        # null-density switch of primitive_equal / fixed_binary_equal between the per-slot loop
        # and the BitSliceIterator comparison (tuning knob: the theorems hold for either branch;
        # the driver uses the value to take the same branch as the code)
        ("NULL_SLICES_SELECTIVITY_THRESHOLD", "arrow-data/src/equal/primitive.rs",
         r"const\s+NULL_SLICES_SELECTIVITY_THRESHOLD\s*:\s*f64\s*=\s*([0-9_]+(?:\.[0-9_]+)?)\s*;", "f64ratio"),
        # boolean_equal: fast-path guard (all four of lhs_start, rhs_start, lhs.offset(), rhs.offset()), byte indexing, suffix
        ("BOOL_FAST_PATH_GUARD", "arrow-data/src/equal/boolean.rs",
         r"if !contains_nulls \{\s*(?://[^\n]*\n\s*)*if lhs_start\.is_multiple_of\((\d+)\)\s*&&\s*rhs_start\.is_multiple_of\(8\)\s*&&\s*lhs\.offset\(\)\.is_multiple_of\(8\)\s*&&\s*rhs\.offset\(\)\.is_multiple_of\(8\)\s*\{", "int"),
        ("BOOL_FAST_PATH_INDEX", "arrow-data/src/equal/boolean.rs",
         r"let quot = len / (\d+);\s*if quot > 0\s*&&\s*!equal_len\(\s*lhs_values,\s*rhs_values,\s*lhs_start / 8 \+ lhs\.offset\(\) / 8,\s*rhs_start / 8 \+ rhs\.offset\(\) / 8,\s*quot,\s*\)", "int"),
        ("BOOL_SUFFIX", "arrow-data/src/equal/boolean.rs",
         r"let rem = len % (\d+);\s*if rem == 0 \{\s*return true;\s*\} else \{\s*let aligned_bits = len - rem;\s*lhs_start \+= aligned_bits;\s*rhs_start \+= aligned_bits;\s*len = rem\s*\}\s*\}\s*equal_bits\(\s*lhs_values,\s*rhs_values,\s*lhs_start \+ lhs\.offset\(\),\s*rhs_start \+ rhs\.offset\(\),\s*len,", "int"),
        ("BOOL_NULL_PATH", "arrow-data/src/equal/boolean.rs",
         H + r"BitIndexIterator::new\(lhs_nulls\.validity\(\), lhs_start \+ lhs_nulls\.offset\(\), len\)\.all\(\|i\| \{\s*let lhs_pos = lhs_start \+ lhs\.offset\(\) \+ i;\s*let rhs_pos = rhs_start \+ rhs\.offset\(\) \+ i;\s*get_bit\(lhs_values, lhs_pos\) == get_bit\(rhs_values, rhs_pos\)", "int"),
        # equal_nulls: the four (Some/None) cases; contains_nulls: first slice only
        ("EQUAL_NULLS_CASES", "arrow-data/src/equal/utils.rs",
         H + r"\(Some\(lhs\), Some\(rhs\)\) => equal_bits\(\s*lhs\.validity\(\),\s*rhs\.validity\(\),\s*lhs\.offset\(\) \+ lhs_start,\s*rhs\.offset\(\) \+ rhs_start,\s*len,\s*\),\s*\(Some\(lhs\), None\) => !contains_nulls\(Some\(lhs\), lhs_start, len\),\s*\(None, Some\(rhs\)\) => !contains_nulls\(Some\(rhs\), rhs_start, len\),\s*\(None, None\) => true,", "int"),
        ("CONTAINS_NULLS_SHAPE", "arrow-data/src/data.rs",
         r"BitSliceIterator::new\(buffer\.validity\(\), buffer\.offset\(\) \+ offset, len\)\.next\(\) \{\s*Some\(\(start, end\)\) => start != (\d+) \|\| end != len,\s*None => len != 0,", "int"),
        # equal(): base_equal, null_count, equal_nulls, equal_values over 0..len
        ("EQUAL_TOP", "arrow-data/src/equal/mod.rs",
         r"utils::base_equal\(lhs, rhs\)\s*&&\s*lhs\.null_count\(\) == rhs\.null_count\(\)\s*&&\s*utils::equal_nulls\(lhs, rhs, (\d+), 0, lhs\.len\(\)\)\s*&&\s*equal_values\(lhs, rhs, 0, 0, lhs\.len\(\)\)", "int"),
        # primitive_equal: buffer base, the three paths
        ("PRIM_BASE", "arrow-data/src/equal/primitive.rs",
         r"let lhs_values = &lhs\.buffers\(\)\[(\d+)\]\.as_slice\(\)\[lhs\.offset\(\) \* byte_width\.\.\];\s*let rhs_values = &rhs\.buffers\(\)\[0\]\.as_slice\(\)\[rhs\.offset\(\) \* byte_width\.\.\];", "int"),
        ("PRIM_NO_NULLS", "arrow-data/src/equal/primitive.rs",
         H + r"if !contains_nulls\(lhs\.nulls\(\), lhs_start, len\) \{\s*(?://[^\n]*\n\s*)*equal_len\(\s*lhs_values,\s*rhs_values,\s*lhs_start \* byte_width,\s*rhs_start \* byte_width,\s*len \* byte_width,\s*\)", "int"),
        ("PRIM_SWITCH", "arrow-data/src/equal/primitive.rs",
         H + r"let selectivity_frac = lhs\.null_count\(\) as f64 / lhs\.len\(\) as f64;.*?if selectivity_frac >= NULL_SLICES_SELECTIVITY_THRESHOLD \{", "int"),
        ("PRIM_DENSE", "arrow-data/src/equal/primitive.rs",
         H + r"lhs_is_null\s*\|\|\s*\(lhs_is_null == rhs_is_null\)\s*&&\s*equal_len\(\s*lhs_values,\s*rhs_values,\s*lhs_pos \* byte_width,\s*rhs_pos \* byte_width,\s*byte_width,", "int"),
        ("PRIM_SPARSE", "arrow-data/src/equal/primitive.rs",
         H + r"l_start == r_start\s*&&\s*l_end == r_end\s*&&\s*equal_len\(\s*lhs_values,\s*rhs_values,\s*\(lhs_start \+ l_start\) \* byte_width,\s*\(rhs_start \+ r_start\) \* byte_width,\s*\(l_end - l_start\) \* byte_width,", "int"),
        # byte_view_equal: null test at lhs_start + idx, length+prefix word, inline limit
        ("VIEW_NULL_INDEX_INLINE", "arrow-data/src/equal/byte_view.rs",
         r"if lhs\.is_null\(lhs_start \+ idx\) \{\s*continue;\s*\}.*?if l_len_prefix != r_len_prefix \{\s*return false;\s*\}.*?if len <= (\d+) \{\s*if l != r \{", "int"),
        # parents: which start / offset addresses the child
        ("STRUCT_CHILD_START", "arrow-data/src/equal/structure.rs",
         r"equal_child_values\(lhs, rhs, lhs_start, rhs_start, len\).*?lhs_is_null \|\| equal_child_values\(lhs, rhs, lhs_pos, rhs_pos, (\d+)\)", "int"),
        ("FSL_CHILD_START", "arrow-data/src/equal/fixed_list.rs",
         H + r"equal_range\(\s*lhs_values,\s*rhs_values,\s*\(lhs_start \+ lhs\.offset\(\)\) \* size,\s*\(rhs_start \+ rhs\.offset\(\)\) \* size,\s*size \* len,\s*\)", "int"),
        ("LIST_REBASE", "arrow-data/src/equal/list.rs",
         H + r"lhs_child_length == rhs_child_length\s*&&\s*lengths_equal\(\s*&lhs_offsets\[lhs_start\.\.lhs_start \+ len\],\s*&rhs_offsets\[rhs_start\.\.rhs_start \+ len\],\s*\)\s*&&\s*equal_range\(\s*lhs_values,\s*rhs_values,\s*lhs_offsets\[lhs_start\]\.to_usize\(\)\.unwrap\(\),\s*rhs_offsets\[rhs_start\]\.to_usize\(\)\.unwrap\(\),\s*lhs_child_length,", "int"),
        ("DICT_KEYS", "arrow-data/src/equal/dictionary.rs",
         r"lhs_is_null\s*\|\|\s*\(lhs_is_null == rhs_is_null\)\s*&&\s*equal_range\(\s*lhs_values,\s*rhs_values,\s*lhs_keys\[lhs_pos\]\.to_usize\(\)\.unwrap\(\),\s*rhs_keys\[rhs_pos\]\.to_usize\(\)\.unwrap\(\),\s*(\d+),", "int"),
        ("VAR_OFFSETS", "arrow-data/src/equal/variable_size.rs",
         r"let lhs_offsets_slice = &lhs_offsets\[lhs_start\.\.lhs_start \+ len \+ (\d+)\];\s*let rhs_offsets_slice = &rhs_offsets\[rhs_start\.\.rhs_start \+ len \+ 1\];\s*lengths_equal\(lhs_offsets_slice, rhs_offsets_slice\)\s*&&\s*offset_value_equal\(", "int"),
        # arrow-select dictionary merge (concat / interleave of dictionaries): a null dictionary VALUE is interned as None, never by the bytes under it
        ("MERGE_PRIMITIVE_VALUE_VALIDITY", "arrow-select/src/dictionary.rs",
         H + r"for idx in mask\.set_indices\(\) \{\s*out\.push\(\(\s*idx,\s*array\.is_valid\(idx\)\.then_some\(values\[idx\]\.to_byte_slice\(\)\),\s*\)\)\s*\}", "int"),
        ("MERGE_BYTES_VALUE_VALIDITY", "arrow-select/src/dictionary.rs",
         H + r"for idx in mask\.set_indices\(\) \{\s*out\.push\(\(\s*idx,\s*array\.is_valid\(idx\)\.then_some\(array\.value\(idx\)\.as_ref\(\)\),\s*\)\)\s*\}", "int"),
        # ArrayData::slice: the Struct special case (sliceModel, sliceModel_struct_not_spec)
        ("SLICE_STRUCT", "arrow-data/src/data.rs",
         H + r"if let DataType::Struct\(_\) = self\.data_type\(\) \{\s*// Slice into children\s*let new_offset = self\.offset \+ offset;.*?\.map\(\|data\| data\.slice\(offset, length\)\).*?new_data\.offset = offset \+ self\.offset;\s*new_data\.nulls = self\.nulls\.as_ref\(\)\.map\(\|x\| x\.slice\(offset, length\)\);", "int"),
    ],
}
FUNCTIONS = {}
