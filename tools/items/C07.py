"""C07 items the translator (tools/translate.py) extracts from /repo on every run.

CONSTANTS[group] = [(lean_name, file relative to /repo, regex with ONE group, kind)]
"""
_BF = "parquet/src/bloom_filter/mod.rs"
_CW = "parquet/src/column/writer/mod.rs"
CONSTANTS = {
    "C07": [
        # split-block bloom filter: the 8 salts, the top-5-bits shift, words per block
        ("SALT", _BF, r"const\s+SALT\s*:\s*\[u32;\s*8\]\s*=\s*\[(.*?)\];", "intlist"),
        ("MASK_SHIFT", _BF, r"let y = x\.wrapping_mul\(SALT\[i\]\);[^\n]*\n\s*let y = y >> (\d+);", "int"),
        ("MASK_WORDS", _BF, r"fn mask\(x: u32\) -> Self \{\s*let mut result = \[0_u32; 8\];\s*for i in 0\.\.(\d+) \{", "int"),
        ("BLOCK_WORDS", _BF, r"struct Block\(\[u32;\s*(\d+)\]\);", "int"),
        # hash_to_block_index = ((hash >> 32).saturating_mul(len)) >> 32
        ("INDEX_HI_SHIFT", _BF, r"\(\(\(hash >> (\d+)\)\s*\.saturating_mul\(self\.0\.len\(\) as u64\)\)\s*>> \d+\) as usize", "int"),
        ("INDEX_LO_SHIFT", _BF, r"\(\(\(hash >> \d+\)\s*\.saturating_mul\(self\.0\.len\(\) as u64\)\)\s*>> (\d+)\) as usize", "int"),
        ("BITSET_MIN_LENGTH", _BF, r"pub const BITSET_MIN_LENGTH: usize = ([^;]+);", "int"),
        ("BITSET_MAX_LENGTH", _BF, r"pub const BITSET_MAX_LENGTH: usize = ([^;]+);", "int"),
        # Float16 NaN test in `is_nan`: uval & 0x7FFF > 0x7C00
        ("F16_ABS_MASK", _CW, r"uval & (0x[0-9A-Fa-f]+)u16 > 0x[0-9A-Fa-f]+u16", "int"),
        ("F16_INF", _CW, r"uval & 0x[0-9A-Fa-f]+u16 > (0x[0-9A-Fa-f]+)u16", "int"),
        # truncate_and_increment_utf8 searches a char boundary in [length-3, length]
        ("UTF8_BACK", _CW, r"let lower_bound = length\.saturating_sub\((\d+)\);", "int"),
        # sign bit / sign extension byte of compare_greater_byte_array_decimals
        ("DEC_SIGN_MASK", _CW, r"if \((0x[0-9A-Fa-f]+) & first_a\) != \(0x[0-9A-Fa-f]+ & first_b\)", "int"),
        ("DEC_NEG_EXT", _CW, r"let extension: u8 = if \(first_a as i8\) < 0 \{ (0x[0-9A-Fa-f]+) \} else \{ 0 \};", "int"),
    ],
}
FUNCTIONS = {}
