"""C07 items the translator (tools/translate.py) extracts from /repo on every run.

CONSTANTS[group] = [(lean_name, file relative to /repo, regex with ONE group, kind)]
"""
import re as _re
_BF = "parquet/src/bloom_filter/mod.rs"
_EN = "parquet/src/column/writer/encoder.rs"
_AB = "parquet/src/arrow/arrow_writer/byte_array.rs"


def _sh(lit):
    """shape tie: the literal source text (whitespace-insensitive) followed by an empty capture;
    emitted as an empty `intlist`, LOST as soon as the expression is edited"""
    return r"\s*".join(_re.escape(t) for t in lit.split()) + r"(\s*)"


_SHAPES = [
    ("SHAPE_UPDATE_MIN", "parquet/src/column/writer/mod.rs", "update_stat::<T, _>(val, min, |cur| compare_greater(basic_type_info, cur, val))"),
    ("SHAPE_UPDATE_MAX", "parquet/src/column/writer/mod.rs", "update_stat::<T, _>(val, max, |cur| compare_greater(basic_type_info, val, cur))"),
    ("SHAPE_UPDATE_STAT", "parquet/src/column/writer/mod.rs", "if should_update(cur) { *cur = val.clone(); }"),
    ("SHAPE_UPDATE_MIN_NAN", "parquet/src/column/writer/mod.rs", "(false, true) => {} // current min is NaN, but incoming is not: assign val to min (true, false) => *min = val.clone(),"),
    ("SHAPE_UPDATE_MAX_NAN", "parquet/src/column/writer/mod.rs", "(false, true) => {} // current max is NaN, but incoming is not: assign val to max (true, false) => *max = val.clone(),"),
    ("SHAPE_IS_NAN_F16", "parquet/src/column/writer/mod.rs", "let uval = ((val[1] as u16) << 8) | val[0] as u16;"),
    ("SHAPE_NULL_PAGE", "parquet/src/column/writer/mod.rs", "(self.page_metrics.num_buffered_values as u64) == self.page_metrics.num_page_nulls;"),
    ("SHAPE_NOT_ASCENDING", "parquet/src/column/writer/mod.rs", "let not_ascending = compare_greater(basic_info, last_min, new_min) || compare_greater(basic_info, last_max, new_max);"),
    ("SHAPE_NOT_DESCENDING", "parquet/src/column/writer/mod.rs", "let not_descending = compare_greater(basic_info, new_min, last_min) || compare_greater(basic_info, new_max, last_max);"),
    ("SHAPE_BOUNDARY_ORDER", "parquet/src/column/writer/mod.rs", "(true, _) => BoundaryOrder::ASCENDING, (false, true) => BoundaryOrder::DESCENDING, (false, false) => BoundaryOrder::UNORDERED,"),
    ("SHAPE_LAST_MIN_MAX", "parquet/src/column/writer/mod.rs", "self.last_non_null_data_page_min_max = Some((new_min.clone(), new_max.clone()));"),
    ("SHAPE_TRUNC_FILTER", "parquet/src/column/writer/mod.rs", ".filter(|l| data.len() > *l)"),
    ("SHAPE_TRUNC_MIN_BIN", "parquet/src/column/writer/mod.rs", "Err(_) => Some(data[..l].to_vec()), } } else { Some(data[..l].to_vec()) }"),
    ("SHAPE_TRUNC_MAX_BIN", "parquet/src/column/writer/mod.rs", "Err(_) => increment(data[..l].to_vec()), } } else { increment(data[..l].to_vec()) }"),
    ("SHAPE_TRUNC_EXACT", "parquet/src/column/writer/mod.rs", ".with_max_is_exact(!did_truncate_max) .with_min_is_exact(!did_truncate_min),"),
    ("SHAPE_CAN_TRUNCATE", "parquet/src/column/writer/mod.rs", "Type::BYTE_ARRAY => true,"),
    ("SHAPE_NO_TRUNCATE_FLBA", "parquet/src/column/writer/mod.rs", "Type::FIXED_LEN_BYTE_ARRAY if !matches!( self.descr.logical_type_ref(), Some(&LogicalType::Decimal { .. } | &LogicalType::Float16) ) => { true }"),
    ("SHAPE_NO_TRUNCATE_DECIMAL", "parquet/src/column/writer/mod.rs", "Type::BYTE_ARRAY if matches!(self.descr.logical_type_ref(), Some(&LogicalType::Decimal { .. })) || self.descr.converted_type() == ConvertedType::DECIMAL => { false }"),
    ("SHAPE_TRUNC_STATS_BA_GUARD", "parquet/src/column/writer/mod.rs", "Statistics::ByteArray(stats) if (stats._internal_has_min_max_set() && self.can_truncate_value()) =>"),
    ("SHAPE_TRUNC_STATS_FLBA_GUARD", "parquet/src/column/writer/mod.rs", "Statistics::FixedLenByteArray(stats) if (stats._internal_has_min_max_set() && self.can_truncate_value()) =>"),
    ("SHAPE_TRUNCATE_UTF8", "parquet/src/column/writer/mod.rs", "let split = (1..=length).rfind(|x| data.is_char_boundary(*x))?; Some(data.as_bytes()[..split].to_vec())"),
    ("SHAPE_TRUNC_INC_UTF8", "parquet/src/column/writer/mod.rs", "let split = (lower_bound..=length).rfind(|x| data.is_char_boundary(*x))?; increment_utf8(data.get(..split)?)"),
    ("SHAPE_INC_UTF8", "parquet/src/column/writer/mod.rs", "if let Some(next_char) = char::from_u32(original_char as u32 + 1) { // do not allow increasing byte width of incremented char if next_char.len_utf8() == original_len {"),
    ("SHAPE_INCREMENT", "parquet/src/column/writer/mod.rs", "let (incremented, overflow) = byte.overflowing_add(1); *byte = incremented; if !overflow { return Some(data); }"),
    ("SHAPE_DEC_EMPTY", "parquet/src/column/writer/mod.rs", "if a_length == 0 || b_length == 0 { return a_length > 0; }"),
    ("SHAPE_DEC_SHORT", "parquet/src/column/writer/mod.rs", "|| (a_length == b_length && first_a != first_b) { return (first_a as i8) > (first_b as i8); }"),
    ("SHAPE_DEC_NOT_EQUAL", "parquet/src/column/writer/mod.rs", "return if negative_values { !a_longer } else { a_longer };"),
    ("SHAPE_DEC_TAILS", "parquet/src/column/writer/mod.rs", "return if a_length > b_length { a[a_length - b_length..] > *b } else { *a > b[b_length - a_length..] };"),
    ("SHAPE_DEC_EQUAL", "parquet/src/column/writer/mod.rs", "(a[1..]) > (b[1..])"),
    ("SHAPE_GET_MIN_MAX", _EN, "if compare_greater(basic_type_info, min, val) { min = val; } else if compare_greater(basic_type_info, val, max) { max = val; }"),
    ("SHAPE_GET_MIN_MAX_NAN", _EN, "(true, false) => { min = val; max = val; min_max_nan = false; }"),
    ("SHAPE_BLOOM_INSERT_ALL", _EN, "for value in slice { bloom_filter.insert(value); }"),
    ("SHAPE_ARROW_MIN", _AB, "if encoder.min_value.as_ref().is_none_or(|m| m.data() > min) {"),
    ("SHAPE_ARROW_MAX", _AB, "if encoder.max_value.as_ref().is_none_or(|m| m.data() < max) {"),
    ("SHAPE_ARROW_MIN_MAX", _AB, "min = min.min(val); max = max.max(val);"),
    ("SHAPE_MASK_BIT", _BF, "result[i] = 1 << y;"),
    ("SHAPE_BLOCK_INSERT", _BF, "self[i] |= mask[i];"),
    ("SHAPE_BLOCK_CHECK", _BF, "if self[i] & mask[i] == 0 { return false; }"),
    ("SHAPE_SBBF_INSERT", _BF, "let block_index = self.hash_to_block_index(hash); self.0[block_index].insert(hash as u32)"),
    ("SHAPE_SBBF_CHECK", _BF, "let block_index = self.hash_to_block_index(hash); self.0[block_index].check(hash as u32)"),
    ("SHAPE_FOLD", _BF, "let new_len = len / group_size; for i in 0..new_len { let start = i * group_size; let mut merged = self.0[start]; for j in 1..group_size { merged |= self.0[start + j]; } self.0[i] = merged; } self.0.truncate(new_len);"),
    ("SHAPE_BITOR_ASSIGN", _BF, "fn bitor_assign(&mut self, rhs: Self) { for i in 0..8 { self.0[i] |= rhs.0[i]; } }"),
]
_CW = "parquet/src/column/writer/mod.rs"
CONSTANTS = {
    "C07": [
        # split-block bloom filter: the 8 salts, the top-5-bits shift, words per block
        ("SALT", _BF, r"const\s+SALT\s*:\s*\[u32;\s*8\]\s*=\s*\[(.*?)\];", "intlist"),
        ("MASK_SHIFT", _BF, r"let y = x\.wrapping_mul\(SALT\[i\]\);[^\n]*\n\s*let y = y >> (\d+);", "int"),
        ("MASK_WORDS", _BF, r"fn mask\(x: u32\) -> Self \{\s*let mut result = \[0_u32; 8\];\s*for i in 0\.\.(\d+) \{", "int"),
        ("BLOCK_WORDS", _BF, r"struct Block\(\[u32;\s*(\d+)\]\);", "int"),
        # hash_to_block_index = ((hash >> 32).saturating_mul(len)) >> 32
        ("INDEX_HI_SHIFT", _BF, r"\(\(\(hash >> (\d+)\)\s*\.saturating_mul\(self\.0\.len\(\) as u64\)\)\s*>> \d+\) as usize", "int"),
        ("INDEX_LO_SHIFT", _BF, r"\(\(\(hash >> \d+\)\s*\.saturating_mul\(self\.0\.len\(\) as u64\)\)\s*>> (\d+)\) as usize", "int"),
        ("BITSET_MIN_LENGTH", _BF, r"pub const BITSET_MIN_LENGTH: usize = ([^;]+);", "int"),
        ("BITSET_MAX_LENGTH", _BF, r"pub const BITSET_MAX_LENGTH: usize = ([^;]+);", "int"),
        # Float16 NaN test in `is_nan`: uval & 0x7FFF > 0x7C00
        ("F16_ABS_MASK", _CW, r"uval & (0x[0-9A-Fa-f]+)u16 > 0x[0-9A-Fa-f]+u16", "int"),
        ("F16_INF", _CW, r"uval & 0x[0-9A-Fa-f]+u16 > (0x[0-9A-Fa-f]+)u16", "int"),
        # truncate_and_increment_utf8 searches a char boundary in [length-3, length]
        ("UTF8_BACK", _CW, r"let lower_bound = length\.saturating_sub\((\d+)\);", "int"),
        # sign bit / sign extension byte of compare_greater_byte_array_decimals
        ("DEC_SIGN_MASK", _CW, r"if \((0x[0-9A-Fa-f]+) & first_a\) != \(0x[0-9A-Fa-f]+ & first_b\)", "int"),
        ("DEC_NEG_EXT", _CW, r"let extension: u8 = if \(first_a as i8\) < 0 \{ (0x[0-9A-Fa-f]+) \} else \{ 0 \};", "int"),
    ] + [(n, f, _sh(lit), "intlist") for (n, f, lit) in _SHAPES],
}
FUNCTIONS = {}
