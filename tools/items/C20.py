"""C20 items the translator (tools/translate.py) extracts from /repo on every run.

CONSTANTS[group] = [(lean_name, file relative to /repo, regex with ONE group, kind)]
kind: "int" | "intlist" | "f64ratio"
"""
CONSTANTS = {
    "C20": [
        # `Predicate::like`: how many bytes are cut off the END of the pattern for the StartsWith shortcut
        ("LIKE_TRIM_END", "arrow-string/src/predicate.rs",
         r"Ok\(Self::StartsWith\(&pattern\[\.\.pattern\.len\(\)\s*-\s*(\d+)\]\)\)", "int"),
        # ... and off the START for the EndsWith shortcut
        ("LIKE_TRIM_START", "arrow-string/src/predicate.rs",
         r"Ok\(Self::EndsWith\(&pattern\[(\d+)\.\.\]\)\)", "int"),
        # the Contains shortcut `&pattern[1..pattern.len() - 1]`
        ("LIKE_CONTAINS_TRIM_START", "arrow-string/src/predicate.rs",
         r"Ok\(Self::contains\(&pattern\[(\d+)\.\.pattern\.len\(\)\s*-\s*\d+\]\)\)", "int"),
        ("LIKE_CONTAINS_TRIM_END", "arrow-string/src/predicate.rs",
         r"Ok\(Self::contains\(&pattern\[\d+\.\.pattern\.len\(\)\s*-\s*(\d+)\]\)\)", "int"),
        # `bit_length_impl`: bits per byte
        ("BIT_LENGTH_FACTOR", "arrow-string/src/length.rs",
         r"let bits = P::Native::usize_as\((\d+)\);", "int"),
        # `bit_length` of view arrays
        ("BIT_LENGTH_FACTOR_VIEW", "arrow-string/src/length.rs",
         r"DataType::Utf8View => \{.*?\(\*view as i32\)\.wrapping_mul\((\d+)\)", "int"),
    ],
}
FUNCTIONS = {}
