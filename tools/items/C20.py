"""C20 items the translator (tools/translate.py) extracts from /repo on every run.

CONSTANTS[group] = [(lean_name, file relative to /repo, regex with ONE group, kind)]
kind: "int" | "intlist" | "f64ratio"

Besides plain constants, several items pin the SHAPE of a guard: the regex spans the whole
condition (and the neighbouring branch, to pin the order) and captures one integer inside it,
so that any edit of the guard makes the item LOST (value 0) and the theorems that need the
concrete value (`ArrowModel.C20.source_shape_pins`, `like_correct`, `ilike_ascii_fast_path`) fail.
"""
P = "arrow-string/src/predicate.rs"
S = "arrow-string/src/substring.rs"
CONSTANTS = {
    "C20": [
        # `Predicate::like`: how many bytes are cut off the END of the pattern for the StartsWith shortcut
        ("LIKE_TRIM_END", P,
         r"Ok\(Self::StartsWith\(&pattern\[\.\.pattern\.len\(\)\s*-\s*(\d+)\]\)\)", "int"),
        # ... and off the START for the EndsWith shortcut
        ("LIKE_TRIM_START", P,
         r"Ok\(Self::EndsWith\(&pattern\[(\d+)\.\.\]\)\)", "int"),
        # the Contains shortcut `&pattern[1..pattern.len() - 1]`
        ("LIKE_CONTAINS_TRIM_START", P,
         r"Ok\(Self::contains\(&pattern\[(\d+)\.\.pattern\.len\(\)\s*-\s*\d+\]\)\)", "int"),
        ("LIKE_CONTAINS_TRIM_END", P,
         r"Ok\(Self::contains\(&pattern\[\d+\.\.pattern\.len\(\)\s*-\s*(\d+)\]\)\)", "int"),
        # guard shapes of `Predicate::like` (order: Eq, StartsWith, EndsWith, Contains, Regex)
        ("LIKE_GUARD_STARTSWITH", P,
         r"if !contains_like_pattern\(pattern\)\s*\{\s*Ok\(Self::Eq\(pattern\)\)\s*\}\s*else if pattern\.ends_with\('%'\)\s*&&\s*!contains_like_pattern\(&pattern\[\.\.pattern\.len\(\)\s*-\s*(\d+)\]\)\s*\{\s*Ok\(Self::StartsWith", "int"),
        ("LIKE_GUARD_ENDSWITH", P,
         r"Ok\(Self::StartsWith\([^\n]*\s*\}\s*else if pattern\.starts_with\('%'\)\s*&&\s*!contains_like_pattern\(&pattern\[(\d+)\.\.\]\)\s*\{\s*Ok\(Self::EndsWith", "int"),
        ("LIKE_GUARD_CONTAINS_START", P,
         r"Ok\(Self::EndsWith\([^\n]*\s*\}\s*else if pattern\.starts_with\('%'\)\s*&&\s*pattern\.ends_with\('%'\)\s*&&\s*!contains_like_pattern\(&pattern\[(\d+)\.\.pattern\.len\(\)\s*-\s*\d+\]\)\s*\{\s*Ok\(Self::contains", "int"),
        ("LIKE_GUARD_CONTAINS_END", P,
         r"else if pattern\.starts_with\('%'\)\s*&&\s*pattern\.ends_with\('%'\)\s*&&\s*!contains_like_pattern\(&pattern\[\d+\.\.pattern\.len\(\)\s*-\s*(\d+)\]\)\s*\{\s*Ok\(Self::contains\([^\n]*\s*\}\s*else\s*\{\s*Ok\(Self::Regex\(regex_like\(pattern, false\)\?\)\)", "int"),
        # `contains_like_pattern`: memchr3 over exactly `%`, `_`, `\`
        ("LIKE_SPECIAL_COUNT", P,
         r"fn contains_like_pattern\(pattern: &str\) -> bool \{\s*memchr(\d)\(b'%', b'_', b'\\\\', pattern\.as_bytes\(\)\)\.is_some\(\)\s*\}", "int"),
        # `Predicate::ilike`: the ASCII fast paths are taken only under `is_ascii && pattern.is_ascii()`
        ("ILIKE_TRIM_END", P,
         r"if is_ascii && pattern\.is_ascii\(\)\s*\{\s*if !contains_like_pattern\(pattern\)\s*\{\s*return Ok\(Self::IEqAscii\(pattern\)\);\s*\}\s*else if pattern\.ends_with\('%'\)\s*&&\s*!pattern\.ends_with\(\"\\\\%\"\)\s*&&\s*!contains_like_pattern\(&pattern\[\.\.pattern\.len\(\)\s*-\s*\d+\]\)\s*\{\s*return Ok\(Self::IStartsWithAscii\(&pattern\[\.\.pattern\.len\(\)\s*-\s*(\d+)\]\)\);", "int"),
        ("ILIKE_GUARD_STARTSWITH", P,
         r"else if pattern\.ends_with\('%'\)\s*&&\s*!pattern\.ends_with\(\"\\\\%\"\)\s*&&\s*!contains_like_pattern\(&pattern\[\.\.pattern\.len\(\)\s*-\s*(\d+)\]\)\s*\{\s*return Ok\(Self::IStartsWithAscii", "int"),
        ("ILIKE_TRIM_START", P,
         r"return Ok\(Self::IStartsWithAscii\([^\n]*\s*\}\s*else if pattern\.starts_with\('%'\)\s*&&\s*!contains_like_pattern\(&pattern\[\d+\.\.\]\)\s*\{\s*return Ok\(Self::IEndsWithAscii\(&pattern\[(\d+)\.\.\]\)\);\s*\}\s*\}\s*Ok\(Self::Regex\(regex_like\(pattern, true\)\?\)\)", "int"),
        ("ILIKE_GUARD_ENDSWITH", P,
         r"else if pattern\.starts_with\('%'\)\s*&&\s*!contains_like_pattern\(&pattern\[(\d+)\.\.\]\)\s*\{\s*return Ok\(Self::IEndsWithAscii", "int"),
        # `byte_substring`: which offset of the pair each bound is computed from / clamped to, and that
        # every computed bound goes through `check_char_boundary`
        ("SUBSTR_POS_BASE", S,
         r"Ordering::Greater => check_char_boundary\(\s*pair\[(\d+)\]\s*\.checked_add\(&start\)\s*\.map_or\(pair\[1\], \|o\| o\.min\(pair\[1\]\)\),\s*\)\?,", "int"),
        ("SUBSTR_POS_CLAMP", S,
         r"Ordering::Greater => check_char_boundary\(\s*pair\[0\]\s*\.checked_add\(&start\)\s*\.map_or\(pair\[1\], \|o\| o\.min\(pair\[(\d+)\]\)\),\s*\)\?,\s*Ordering::Equal => pair\[0\],", "int"),
        ("SUBSTR_NEG_BASE", S,
         r"Ordering::Less => check_char_boundary\(\(pair\[(\d+)\] \+ start\)\.max\(pair\[0\]\)\)\?,", "int"),
        ("SUBSTR_END_CLAMP", S,
         r"Some\(length\) => check_char_boundary\(\s*length\s*\.checked_add\(&new_start\)\s*\.map_or\(pair\[1\], \|o\| o\.min\(pair\[(\d+)\]\)\),\s*\)\?,\s*None => pair\[1\],", "int"),
        # start / length are saturated (not wrapped) into the offset type before `byte_substring`
        ("SUBSTR_SAT_I32", S,
         r"DataType::Utf8 => byte_substring\(\s*array\.as_string::<i32>\(\),\s*start\.clamp\(i32::MIN as i64, i32::MAX as i64\) as i32,\s*length\.map\(\|e\| e\.min\(i(\d+)::MAX as u64\) as i32\),", "int"),
        ("SUBSTR_SAT_I64", S,
         r"DataType::LargeUtf8 => byte_substring\(\s*array\.as_string::<i64>\(\),\s*start,\s*length\.map\(\|e\| e\.min\(i(\d+)::MAX as u64\) as i64\),", "int"),
        ("SUBSTR_SAT_VIEW", S,
         r"Some\(length\) => new_start\s*\.saturating_add\(i64::try_from\(length\)\.unwrap_or\(i(\d+)::MAX\)\)\s*\.min\(original_length\),", "int"),
        # null slots are skipped before any bound is computed (the slot index feeds the null test)
        ("SUBSTR_NULL_SKIP", S,
         r"\.enumerate\(\)\s*\.try_for_each\(\|\(idx, pair\)\| -> Result<\(\), ArrowError> \{.*?if nulls\.is_some_and\(\|n\| n\.is_null\(idx\)\) \{\s*new_starts_ends\.push\(\(pair\[0\], pair\[0\]\)\);\s*new_offsets\.push\(len_so_far\);\s*return Ok\(\(\)\);\s*\}\s*let new_start = match start\.cmp\(&zero\) \{\s*//[^\n]*\s*Ordering::Greater => check_char_boundary\(\s*pair\[0\]\s*\.checked_add\(&start\)\s*\.map_or\(pair\[(\d+)\]", "int"),
        # `utf8_bounds`: a negative start -k is the k-th character from the end
        ("SUBSTRC_NTH_BACK_ADJ", S,
         r"val\.char_indices\(\)\s*\.nth_back\(back - (\d+)\)\s*\.map_or\(0, \|\(offset, _\)\| offset\)", "int"),
        # `regexp_is_match` (array patterns): the per-call cache of compiled expressions is keyed by the
        # COMPLETE pattern `(?flags)pattern` (String), looked up and inserted under that key
        ("REGEXP_CACHE_KEY", "arrow-string/src/regexp.rs",
         r"pub fn regexp_is_match<'a, S1, S2, S(\d)>\((?:(?!\nmacro_rules|\npub fn |\nfn ).)*?let mut patterns: HashMap<String, Regex> = HashMap::new\(\);(?:(?!\nmacro_rules|\npub fn |\nfn ).)*?pattern\.map\(\|pattern\| match flags \{\s*Some\(flag\) => format!\(\"\(\?\{flag\}\)\{pattern\}\"\),\s*None => pattern\.to_string\(\),\s*\}\)(?:(?!\nmacro_rules|\npub fn |\nfn ).)*?\(Some\(value\), Some\(pattern\)\) => \{\s*let existing_pattern = patterns\.get\(&pattern\);(?:(?!\nmacro_rules|\npub fn |\nfn ).)*?let re = Regex::new\(pattern\.as_str\(\)\)(?:(?!\nmacro_rules|\npub fn |\nfn ).)*?patterns\.entry\(pattern\)\.or_insert\(re\)", "int"),
        # the same cache in `regexp_match` (macro process_regexp_array_match)
        ("REGEXP_MATCH_CACHE_KEY", "arrow-string/src/regexp.rs",
         r"macro_rules! process_regexp_array_match \{(?:(?!\nmacro_rules|\npub fn |\nfn ).)*?let mut patterns: HashMap<String, Regex> = HashMap::new\(\);(?:(?!\nmacro_rules|\npub fn |\nfn ).)*?Some\(value\) => format!\(\"\(\?\{value\}\)\{pattern\}\"\),\s*None => pattern\.to_string\(\),(?:(?!\nmacro_rules|\npub fn |\nfn ).)*?let existing_pattern = patterns\.get\(&pattern\);(?:(?!\nmacro_rules|\npub fn |\nfn ).)*?let re = Regex::new\(pattern\.as_str\(\)\)(?:(?!\nmacro_rules|\npub fn |\nfn ).)*?patterns\.entry\(pattern\)\.or_insert\(re\)(?:(?!\nmacro_rules|\npub fn |\nfn ).)*?if caps\.len\(\) > (\d+) \{", "int"),
        # `bit_length_impl`: bits per byte
        ("BIT_LENGTH_FACTOR", "arrow-string/src/length.rs",
         r"let bits = P::Native::usize_as\((\d+)\);", "int"),
        # `bit_length` of view arrays
        ("BIT_LENGTH_FACTOR_VIEW", "arrow-string/src/length.rs",
         r"DataType::Utf8View => \{.*?\(\*view as i32\)\.wrapping_mul\((\d+)\)", "int"),
    ],
}
FUNCTIONS = {}
