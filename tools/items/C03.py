"""C03 items the translator (tools/translate.py) extracts from /repo on every run.

CONSTANTS[group] = [(lean_name, file relative to /repo, regex with ONE group, kind)]
kind: "int" | "intlist" | "f64ratio"
"""
CONSTANTS = {
    "C03": [
        # slices-vs-indices heuristic of IterationStrategy::default_strategy (tuning knob: the
        # theorems quantify over every heuristic; the driver uses the value to pick the path)
        ("FILTER_SLICES_SELECTIVITY_THRESHOLD", "arrow-select/src/filter.rs",
         r"const\s+FILTER_SLICES_SELECTIVITY_THRESHOLD\s*:\s*f64\s*=\s*([0-9_]+(?:\.[0-9_]+)?)\s*;", "f64ratio"),
        # fused sparse-filter copy of the BatchCoalescer: selected_count <= filter_len / DENOM
        ("SPARSE_FILTER_COPY_MAX_SELECTIVITY_DENOMINATOR", "arrow-select/src/coalesce.rs",
         r"const\s+SPARSE_FILTER_COPY_MAX_SELECTIVITY_DENOMINATOR\s*:\s*usize\s*=\s*([^;]+);", "int"),
        # shape tie (no value): `masked_bytes` must hand a NULL value slot to the interner as `None`
        # (`array.is_valid(idx).then_some(array.value(idx).as_ref())`), never the bytes under it.
        # The group only captures whitespace, so the "list" is empty; if the expression changes the
        # pattern no longer matches and the item goes LOST (bridge lemma `masked_bytes_null_aware`).
        ("MASKED_BYTES_NULL_AWARE", "arrow-select/src/dictionary.rs",
         r"fn\s+masked_bytes[\s\S]*?out\.push\(\(\s*idx\s*,\s*array\.is_valid\(idx\)\.then_some\(array\.value\(idx\)\.as_ref\(\)\)(\s*),?\s*\)\)", "intlist"),
        # the same shape for primitive dictionary values
        ("MASKED_PRIMITIVES_NULL_AWARE", "arrow-select/src/dictionary.rs",
         r"fn\s+masked_primitives_to_bytes[\s\S]*?out\.push\(\(\s*idx\s*,\s*array\.is_valid\(idx\)\.then_some\(values\[idx\]\.to_byte_slice\(\)\)(\s*),?\s*\)\)", "intlist"),
    ],
}

# ---- shape ties (no value): the group only captures whitespace; if the guarded expression is edited the
# pattern stops matching, the item goes LOST and the bridge lemma `selection_shapes_intact` breaks.
def _shape(name, path, rx):
    return (name, path, rx, "intlist")

_CO = "arrow-select/src/coalesce.rs"
_FI = "arrow-select/src/filter.rs"
_TA = "arrow-select/src/take.rs"
SHAPES = [
    _shape("SH_COAL_LOOP_GUARD", _CO, r"while\s+num_rows\s*>\s*\(self\.target_batch_size\s*-\s*self\.buffered_rows\)(\s*)\{"),
    _shape("SH_COAL_LOOP_BODY", _CO, r"let\s+remaining_rows\s*=\s*self\.target_batch_size\s*-\s*self\.buffered_rows;[\s\S]*?self\.buffered_rows\s*\+=\s*remaining_rows;\s*offset\s*\+=\s*remaining_rows;\s*num_rows\s*-=\s*remaining_rows;(\s*)self\.finish_buffered_batch\(\)\?;"),
    _shape("SH_COAL_FINISH_GUARD", _CO, r"self\.buffered_rows\s*\+=\s*num_rows;[\s\S]*?if\s+self\.buffered_rows\s*>=\s*self\.target_batch_size(\s*)\{\s*self\.finish_buffered_batch\(\)\?;"),
    _shape("SH_COAL_EMPTY_SKIP", _CO, r"if\s+batch_size\s*==\s*0(\s*)\{\s*return\s+Ok\(\(\)\);"),
    _shape("SH_COAL_BYPASS", _CO, r"&&\s*batch_size\s*>\s*limit\s*\{[\s\S]*?if\s+self\.buffered_rows\s*==\s*0(\s*)\{\s*self\.completed\.push_back\(batch\);\s*return\s+Ok\(\(\)\);[\s\S]*?if\s+self\.buffered_rows\s*>\s*limit\s*\{\s*self\.finish_buffered_batch\(\)\?;\s*self\.completed\.push_back\(batch\);"),
    _shape("SH_COAL_FITS", _CO, r"let\s+does_not_fit_buffer\s*=\s*selected_count\s*>\s*self\.target_batch_size\s*-\s*self\.buffered_rows(\s*);"),
    _shape("SH_COAL_EXCEEDS", _CO, r"\.is_some_and\(\|limit\|\s*selected_count\s*>\s*limit\)(\s*);"),
    _shape("SH_COAL_SPARSE", _CO, r"selected_count\s*<=\s*filter_len\s*/\s*SPARSE_FILTER_COPY_MAX_SELECTIVITY_DENOMINATOR(\s*)\}"),
    _shape("SH_COAL_MATERIALIZE", _CO, r"let\s+should_materialize_filter\s*=\s*exceeds_coalesce_limit\s*\|\|\s*self\.has_non_specialized_filter_columns\s*\|\|\s*does_not_fit_buffer\s*\|\|\s*!should_use_sparse_filter_copy\(filter_len,\s*selected_count\)(\s*);"),
    _shape("SH_COAL_FILTER_SHORTCUTS", _CO, r"if\s+selected_count\s*==\s*0\s*\{\s*return\s+Ok\(\(\)\);\s*\}\s*if\s+selected_count\s*==\s*batch_num_rows\s*&&\s*filter_len\s*==\s*batch_num_rows(\s*)\{\s*return\s+self\.push_batch\(batch\);"),
    _shape("SH_COAL_SPARSE_TAIL", _CO, r"self\.buffered_rows\s*\+=\s*selected_count;\s*if\s+self\.buffered_rows\s*>=\s*self\.target_batch_size(\s*)\{\s*self\.finish_buffered_batch\(\)\?;"),
    _shape("SH_COAL_FINISH_FN", _CO, r"pub\s+fn\s+finish_buffered_batch[\s\S]*?if\s+self\.buffered_rows\s*==\s*0\s*\{\s*return\s+Ok\(\(\)\);\s*\}[\s\S]*?self\.buffered_rows\s*=\s*0;\s*self\.completed\.push_back\(batch\);(\s*)Ok\(\(\)\)"),
    _shape("SH_COAL_NEXT", _CO, r"pub\s+fn\s+next_completed_batch\(&mut\s+self\)\s*->\s*Option<RecordBatch>\s*\{\s*self\.completed\.pop_front\(\)(\s*)\}"),
    _shape("SH_FILTER_DEFAULT_STRATEGY", _FI, r"if\s+filter_length\s*==\s*0\s*\|\|\s*filter_count\s*==\s*0\s*\{\s*return\s+IterationStrategy::None;\s*\}\s*if\s+filter_count\s*==\s*filter_length(\s*)\{\s*return\s+IterationStrategy::All;"),
    _shape("SH_FILTER_ALL_NONE", _FI, r"IterationStrategy::None\s*=>\s*Ok\(new_empty_array\(values\.data_type\(\)\)\),\s*IterationStrategy::All\s*=>\s*Ok\(values\.slice\(0,\s*predicate\.count\)\)(\s*),"),
    _shape("SH_FILTER_LEN_GUARD", _FI, r"fn\s+filter_array[\s\S]*?if\s+predicate\.filter\.len\(\)\s*>\s*values\.len\(\)(\s*)\{\s*return\s+Err"),
    _shape("SH_FILTER_PREP_MASK", _FI, r"let\s+mask\s*=\s*filter\.values\(\)\s*&\s*nulls\.inner\(\)(\s*);"),
    _shape("SH_FILTER_NEW_WITH_COUNT", _FI, r"let\s+filter\s*=\s*match\s+filter\.null_count\(\)\s*\{\s*0\s*=>\s*filter\.clone\(\),\s*_\s*=>\s*prep_null_mask_filter\(filter\)(\s*),"),
    _shape("SH_FILTER_NULLS_COUNT", _FI, r"let\s+null_count\s*=\s*self\.count\s*-\s*nulls\.count_set_bits_offset\(0,\s*self\.count\)(\s*);\s*if\s+null_count\s*==\s*0\s*\{\s*return\s+None;"),
    _shape("SH_FILTER_BITS_OFFSETS", _FI, r"get_bit_raw\(buffer\.values\(\)\.as_ptr\(\),\s*src_idx\s*\+\s*offset\)[\s\S]*?get_bit_raw\(buffer\.values\(\)\.as_ptr\(\),\s*\*src_idx\s*\+\s*offset\)[\s\S]*?append_packed_range\(start\s*\+\s*offset\.\.end\s*\+\s*offset,\s*src\)[\s\S]*?append_packed_range\(\*start\s*\+\s*offset\.\.\*end\s*\+\s*offset,\s*src\)(\s*)\}"),
    _shape("SH_FILTER_BYTES_SLICES", _FI, r"let\s+value_start\s*=\s*self\.get_value_offset\(start\);\s*let\s+value_end\s*=\s*self\.get_value_offset\(end\);\s*self\.dst_values\s*\.extend_from_slice\(&self\.src_values\[value_start\.\.value_end\]\)(\s*);"),
    _shape("SH_FILTER_BYTES_IDX", _FI, r"let\s+start\s*=\s*self\.src_offsets\[idx\]\.as_usize\(\);\s*let\s+end\s*=\s*self\.src_offsets\[idx\s*\+\s*1\]\.as_usize\(\);\s*let\s+len\s*=\s*OffsetSize::from_usize\(end\s*-\s*start\)\.expect\(\"illegal offset range\"\);\s*self\.cur_offset\s*\+=\s*len;(\s*)self\.cur_offset"),
    _shape("SH_TAKE_NULLS", _TA, r"fn\s+take_nulls[\s\S]*?match\s+values\.filter\(\|n\|\s*n\.null_count\(\)\s*>\s*0\)\s*\{[\s\S]*?None\s*=>\s*indices\.nulls\(\)\.cloned\(\)(\s*),"),
    _shape("SH_TAKE_NATIVE_NULL", _TA, r"false\s*=>\s*T::default\(\),\s*true\s*=>\s*panic!\(\"Out-of-bounds index \{index:\?\}\"\)(\s*),"),
    _shape("SH_TAKE_CHECK_BOUNDS", _TA, r"in_bounds\s*&\s*\(i\s*>=\s*T::Native::ZERO\)\s*&\s*\(i\s*<\s*len\)(\s*)\}"),
    _shape("SH_TAKE_FSL_BOUND", _TA, r"if\s+index\s*>=\s*list\.len\(\)(\s*)\{\s*return\s+Err"),
    _shape("SH_NULLIF_EXPR", "arrow-select/src/nullif.rs", r"let\s+t\s*=\s*l\s*&\s*!r(\s*);"),
    _shape("SH_NULLIF_RIGHT", "arrow-select/src/nullif.rs", r"Some\(nulls\)\s*=>\s*right\.values\(\)\s*&\s*nulls\.inner\(\)(\s*),"),
    _shape("SH_SHIFT_GUARD", "arrow-select/src/window.rs", r"offset\s*==\s*i64::MIN\s*\|\|\s*abs\(offset\)\s*>=\s*value_len(\s*)\{"),
    _shape("SH_INTERNER_CMP", "arrow-select/src/dictionary.rs", r"if\s+\*current\s*!=\s*new(\s*)\{\s*\*v\s*=\s*f\(\)\?;\s*\*current\s*=\s*new;"),
    _shape("SH_CONCAT_LISTS_SLICES", "arrow-select/src/concat.rs", r"list_has_slices\s*\|=\s*l\.offsets\(\)\[0\]\s*>\s*OffsetSize::zero\(\)\s*\|\|\s*l\.offsets\(\)\.last\(\)\.unwrap\(\)\.as_usize\(\)\s*<\s*l\.values\(\)\.len\(\)(\s*);"),
    _shape("SH_CONCAT_MAPS_SLICES", "arrow-select/src/concat.rs", r"map_has_slices\s*\|=\s*m\.offsets\(\)\[0\]\s*>\s*0\s*\|\|\s*m\.offsets\(\)\.last\(\)\.unwrap\(\)\.as_usize\(\)\s*<\s*m\.entries\(\)\.len\(\)(\s*);"),
    _shape("SH_CONCAT_LISTS_RANGE", "arrow-select/src/concat.rs", r"let\s+start_offset\s*=\s*offsets\[0\]\.as_usize\(\);\s*let\s+end_offset\s*=\s*offsets\.last\(\)\.unwrap\(\)\.as_usize\(\);\s*sliced_values\.push\(l\.values\(\)\.slice\(start_offset,\s*end_offset\s*-\s*start_offset\)\)(\s*);"),
    _shape("SH_CONCAT_MAPS_RANGE", "arrow-select/src/concat.rs", r"let\s+start_offset\s*=\s*offsets\[0\]\.as_usize\(\);\s*let\s+end_offset\s*=\s*offsets\.last\(\)\.unwrap\(\)\.as_usize\(\);\s*let\s+entries_arr:\s*&dyn\s+Array\s*=\s*m\.entries\(\);\s*sliced_entries\.push\(entries_arr\.slice\(start_offset,\s*end_offset\s*-\s*start_offset\)\)(\s*);"),
    _shape("SH_CONCAT_LISTS_BRANCH", "arrow-select/src/concat.rs", r"let\s+values:\s*Vec<&dyn\s+Array>\s*=\s*if\s+list_has_slices(\s*)\{[\s\S]*?\}\s*else\s*\{\s*lists\.iter\(\)\.map\(\|x\|\s*x\.values\(\)\.as_ref\(\)\)\.collect\(\)"),
    _shape("SH_CONCAT_MAPS_BRANCH", "arrow-select/src/concat.rs", r"let\s+entries:\s*Vec<&dyn\s+Array>\s*=\s*if\s+map_has_slices(\s*)\{[\s\S]*?\}\s*else\s*\{\s*maps\.iter\(\)\.map\(\|m\|\s*m\.entries\(\)\s*as\s*&dyn\s+Array\)\.collect\(\)"),
    _shape("SH_CONCAT_LISTS_LENGTHS", "arrow-select/src/concat.rs", r"OffsetBuffer::<OffsetSize>::from_lengths\(lists\.iter\(\)\.flat_map\(\|x\|\s*x\.offsets\(\)\.lengths\(\)\)\)(\s*);"),
    _shape("SH_CONCAT_MAPS_LENGTHS", "arrow-select/src/concat.rs", r"OffsetBuffer::<i32>::from_lengths\(maps\.iter\(\)\.flat_map\(\|m\|\s*m\.offsets\(\)\.lengths\(\)\)\)(\s*);"),
    _shape("SH_CONCAT_BYTES_SHIFT", "arrow-array/src/builder/generic_bytes_builder.rs", r"let\s+shift:\s*T::Offset\s*=\s*self\.next_offset\(\)\s*-\s*offsets\[0\](\s*);"),
]
CONSTANTS["C03"].extend(SHAPES)
FUNCTIONS = {}
