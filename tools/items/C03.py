"""C03 items the translator (tools/translate.py) extracts from /repo on every run.

CONSTANTS[group] = [(lean_name, file relative to /repo, regex with ONE group, kind)]
kind: "int" | "intlist" | "f64ratio"
"""
CONSTANTS = {
    "C03": [
        # slices-vs-indices heuristic of IterationStrategy::default_strategy (tuning knob: the
        # theorems quantify over every heuristic; the driver uses the value to pick the path)
        ("FILTER_SLICES_SELECTIVITY_THRESHOLD", "arrow-select/src/filter.rs",
         r"const\s+FILTER_SLICES_SELECTIVITY_THRESHOLD\s*:\s*f64\s*=\s*([0-9_]+(?:\.[0-9_]+)?)\s*;", "f64ratio"),
        # fused sparse-filter copy of the BatchCoalescer: selected_count <= filter_len / DENOM
        ("SPARSE_FILTER_COPY_MAX_SELECTIVITY_DENOMINATOR", "arrow-select/src/coalesce.rs",
         r"const\s+SPARSE_FILTER_COPY_MAX_SELECTIVITY_DENOMINATOR\s*:\s*usize\s*=\s*([^;]+);", "int"),
    ],
}
FUNCTIONS = {}
