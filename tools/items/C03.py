"""C03 items the translator (tools/translate.py) extracts from /repo on every run.

CONSTANTS[group] = [(lean_name, file relative to /repo, regex with ONE group, kind)]
kind: "int" | "intlist" | "f64ratio"
"""
CONSTANTS = {
    "C03": [
        # slices-vs-indices heuristic of IterationStrategy::default_strategy (tuning knob: the
        # theorems quantify over every heuristic; the driver uses the value to pick the path)
        ("FILTER_SLICES_SELECTIVITY_THRESHOLD", "arrow-select/src/filter.rs",
         r"const\s+FILTER_SLICES_SELECTIVITY_THRESHOLD\s*:\s*f64\s*=\s*([0-9_]+(?:\.[0-9_]+)?)\s*;", "f64ratio"),
        # fused sparse-filter copy of the BatchCoalescer: selected_count <= filter_len / DENOM
        ("SPARSE_FILTER_COPY_MAX_SELECTIVITY_DENOMINATOR", "arrow-select/src/coalesce.rs",
         r"const\s+SPARSE_FILTER_COPY_MAX_SELECTIVITY_DENOMINATOR\s*:\s*usize\s*=\s*([^;]+);", "int"),
        # shape tie (no value): `masked_bytes` must hand a NULL value slot to the interner as `None`
        # (`array.is_valid(idx).then_some(array.value(idx).as_ref())`), never the bytes under it.
        # The group only captures whitespace, so the "list" is empty; if the expression changes the
        # pattern no longer matches and the item goes LOST (bridge lemma `masked_bytes_null_aware`).
        ("MASKED_BYTES_NULL_AWARE", "arrow-select/src/dictionary.rs",
         r"fn\s+masked_bytes[\s\S]*?out\.push\(\(\s*idx\s*,\s*array\.is_valid\(idx\)\.then_some\(array\.value\(idx\)\.as_ref\(\)\)(\s*),?\s*\)\)", "intlist"),
        # the same shape for primitive dictionary values
        ("MASKED_PRIMITIVES_NULL_AWARE", "arrow-select/src/dictionary.rs",
         r"fn\s+masked_primitives_to_bytes[\s\S]*?out\.push\(\(\s*idx\s*,\s*array\.is_valid\(idx\)\.then_some\(values\[idx\]\.to_byte_slice\(\)\)(\s*),?\s*\)\)", "intlist"),
    ],
}
FUNCTIONS = {}
