"""C18 items the translator (tools/translate.py) extracts from /repo on every run.

CONSTANTS[group] = [(lean_name, file relative to /repo, regex with ONE group, kind)]
kind: "int" | "intlist" | "f64ratio"

The translator only knows integers, so a magic such as `*b"PAR1"` is tied by a regex that
spells the letters literally and captures the trailing digit / the array length: any change of
the magic makes the pattern fail (`LOST`, value 0, `_lost = true`) and the theorems that use
the concrete value (`Generated.C18.*_lost = false`, digit, length) stop checking.
"""
_PF = "parquet/src/file/mod.rs"
_PT = "parquet/src/file/metadata/footer_tail.rs"
_PR = "parquet/src/file/metadata/reader.rs"
_IL = "arrow-ipc/src/lib.rs"
_IR = "arrow-ipc/src/reader.rs"
_IW = "arrow-ipc/src/writer.rs"
# "anything that contains no bare `.write(` call", lazily
_NW = r"(?:(?!\.write\().)*?"

CONSTANTS = {
    "C18": [
        # ---- Parquet footer tail
        ("FOOTER_SIZE", _PF, r"pub\s+const\s+FOOTER_SIZE\s*:\s*usize\s*=\s*(\d+)\s*;", "int"),
        # `const PARQUET_MAGIC: [u8; 4] = *b"PAR1";`
        ("PARQUET_MAGIC_LEN", _PF, r"const\s+PARQUET_MAGIC\s*:\s*\[u8;\s*(\d+)\]\s*=\s*\*b\"PAR\d\"\s*;", "int"),
        ("PARQUET_MAGIC_DIGIT", _PF, r"const\s+PARQUET_MAGIC\s*:\s*\[u8;\s*\d+\]\s*=\s*\*b\"PAR(\d)\"\s*;", "int"),
        # `const PARQUET_MAGIC_ENCR_FOOTER: [u8; 4] = *b"PARE";`
        ("PARQUET_MAGIC_ENCR_LEN", _PF, r"const\s+PARQUET_MAGIC_ENCR_FOOTER\s*:\s*\[u8;\s*(\d+)\]\s*=\s*\*b\"PARE\"\s*;", "int"),
        # FooterTail::try_new: magic = slice[4..], length = u32 LE of slice[..4]
        ("FOOTER_MAGIC_OFFSET", _PT, r"let\s+magic\s*=\s*&slice\[(\d+)\.\.\]\s*;", "int"),
        ("FOOTER_LEN_BYTES", _PT, r"let\s+metadata_len\s*=\s*u32::from_le_bytes\(slice\[\.\.(\d+)\]\.try_into\(\)\.unwrap\(\)\)\s*;", "int"),
        # parse_metadata: the two size checks around the footer-tail read, in order
        # (captures the `0_u8` of the buffer initialiser; what matters is `_lost = false`)
        ("PARSE_METADATA_CHECKS", _PR,
         r"fn\s+parse_metadata.{0,400}?if\s+file_size\s*<\s*\(FOOTER_SIZE\s+as\s+u64\)\s*\{\s*return\s+Err\(ParquetError::NeedMoreData\(FOOTER_SIZE\)\)\s*;\s*\}"
         r"\s*let\s+mut\s+footer\s*=\s*\[(0_u8);\s*FOOTER_SIZE\]\s*;.{0,400}?let\s+footer_metadata_len\s*=\s*FOOTER_SIZE\s*\+\s*metadata_len\s*;"
         r".{0,200}?if\s+footer_metadata_len\s+as\s+u64\s*>\s*file_size\s*\{\s*return\s+Err\(ParquetError::NeedMoreData\(footer_metadata_len\)\)\s*;\s*\}", "int"),
        # ---- source shape of the modelled write paths: every byte goes through `write_all`
        # (tempered patterns: no bare `.write(` may occur inside the matched function body; the
        # captured number is irrelevant -- the theorems use `*_lost = false` only)
        # FileWriter::finish: EOS, footer, footer length, magic, flush, then finished = true
        ("SHAPE_FILE_FINISH", _IW,
         r"Cannot write footer to file writer as it is closed" + _NW + r"self\.writer\.write_eos\(&self\.write_options\)\?;" + _NW +
         r"self\.writer\.write_all\(footer_data\)\?;\s*self\.writer\s*\.write_all\(&\(footer_data\.len\(\) as i(32)\)\.to_le_bytes\(\)\)\?;"
         r"\s*self\.writer\.write_all\(&super::ARROW_MAGIC\)\?;\s*self\.writer\.flush\(\)\?;\s*(?:self\.failed = false;\s*)?self\.finished = true;", "int"),
        # StreamWriter::finish: EOS, flush, then finished = true
        ("SHAPE_STREAM_FINISH", _IW,
         r"Cannot write footer to stream writer as it is closed" + _NW + r"self\.writer\.write_eos\(&self\.write_options\)\?;" + _NW +
         r"self\.writer\.flush\(\)\?;\s*(?:self\.failed = false;\s*)?self\.finished = true;.*?(\d+)", "int"),
        # FileWriter::try_new_with_options: leading magic + padding
        ("SHAPE_FILE_HEADER", _IW,
         r"writer\.write_all\(&super::ARROW_MAGIC\)\?;\s*writer\.write_all\(&PADDING\[\.\.pad_len\]\)\?;.*?(\d+)", "int"),
        # write_continuation: one write_slice of the 4/8 byte prefix
        ("SHAPE_WRITE_CONTINUATION", _IW,
         r"fn write_continuation\(" + _NW + r"self\.write_slice\(&buffer\[\.\.len\]\)\s*\}.*?(\d+)", "int"),
        # write_encoded_data (= write_message) and write_eos
        ("SHAPE_WRITE_ENCODED", _IW,
         r"fn write_encoded_data\(" + _NW + r"self\.write_continuation\(write_options, layout\.padded_metadata_len as i(32)\)\?;\s*self\.write_vec\(metadata\)\?;"
         r"\s*self\.write_padding\(layout\.metadata_padding\)\?;" + _NW + r"self\.write_body_data\(encoded\.arrow_data, write_options\.alignment\)\?" + _NW +
         r"fn write_eos\(" + _NW + r"self\.write_continuation\(write_options, 0\)\?;", "int"),
        # the `W: Write` sink: write_slice is write_all; write_record_batch writes with write_all only
        ("SHAPE_WRITE_SLICE", _IW,
         r"impl<W> IpcMessageSink for W\s*where\s*W: Write,\s*\{\s*fn write_slice\(&mut self, bytes: &\[u8\]\) -> Result<\(\), ArrowError> \{"
         r"\s*if !bytes\.is_empty\(\) \{\s*self\.write_all\(bytes\)\?;\s*\}\s*Ok\(\(\)\)\s*\}\s*\}.*?(\d+)", "int"),
        ("SHAPE_WRITE_RECORD_BATCH", _IW,
         r"impl<W> IpcRecordBatchSink for W\s*where\s*W: Write,\s*\{\s*fn write_record_batch\(" + _NW +
         r"self\.write_continuation\(write_options, layout\.padded_metadata_len as i(32)\)\?;\s*self\.write_all\(&metadata\)\?;" + _NW +
         r"self\.write_all\(&PADDING\[\.\.tail_pad\]\)\?;\s*Ok\(", "int"),
        # Parquet: footer length + magic, and the leading magic
        ("SHAPE_PARQUET_FOOTER", "parquet/src/file/metadata/writer.rs",
         r"let metadata_len = \(end_pos - start_pos\) as u(32);\s*self\.buf\.write_all\(&metadata_len\.to_le_bytes\(\)\)\?;"
         r"\s*self\.buf\.write_all\(self\.object_writer\.get_file_magic\(\)\)\?;", "int"),
        ("SHAPE_PARQUET_HEADER", "parquet/src/file/writer.rs",
         r"fn start_file\(_properties: &WriterPropertiesPtr, buf: &mut TrackedWrite<W>\) -> Result<\(\)> \{\s*buf\.write_all\(get_file_magic\(\)\)\?;.*?(\d+)", "int"),
        # TrackedWrite::write_all delegates to the inner write_all and counts the whole buffer
        ("SHAPE_TRACKED_WRITE_ALL", "parquet/src/file/writer.rs",
         r"fn write_all\(&mut self, buf: &\[u8\]\) -> std::io::Result<\(\)> \{\s*self\.inner\.write_all\(buf\)\?;\s*self\.bytes_written \+= buf\.len\(\);.*?(\d+)", "int"),
        # ---- SerializedFileWriter keeps track of an unfinished row group (sticky failure)
        # on_close: bloom filters are written BEFORE the row group is counted
        ("SHAPE_ON_CLOSE_ORDER", "parquet/src/file/writer.rs",
         r"let on_close = move \|buf,\s*mut metadata,(?:(?!row_groups\.push).)*?BloomFilterPosition::AfterRowGroup => \{\s*write_bloom_filters\(buf, row_bloom_filters, &mut metadata\)\?\s*\}"
         r"(?:(?!row_groups\.push).)*?\}\s*row_groups\.push\(metadata\);\s*Ok\(\(\)\)\s*\};.*?(\d+)", "int"),
        ("SHAPE_ASSERT_PREV_CLOSED", "parquet/src/file/writer.rs",
         r"fn assert_previous_writer_closed\(&self\) -> Result<\(\)> \{\s*if self\.finished \{\s*return Err\(general_err!\(\"SerializedFileWriter already finished\"\)\);\s*\}"
         r"\s*if self\.row_group_index != self\.row_groups\.len\(\) \{\s*Err\(general_err!\(\"Previous row group writer was not closed\"\)\)\s*\} else \{\s*Ok\(\(\)\)\s*\}\s*\}.*?(\d+)", "int"),
        ("SHAPE_FINISH_ASSERTS", "parquet/src/file/writer.rs",
         r"pub fn finish\(&mut self\) -> Result<ParquetMetaData> \{\s*self\.assert_previous_writer_closed\(\)\?;\s*let metadata = self\.write_metadata\(\)\?;\s*self\.buf\.flush\(\)\?;\s*Ok\(metadata\)\s*\}.*?(\d+)", "int"),
        ("SHAPE_NEXT_RG_ASSERTS", "parquet/src/file/writer.rs",
         r"pub fn next_row_group\(&mut self\) -> Result<SerializedRowGroupWriter<'_, W>> \{\s*self\.assert_previous_writer_closed\(\)\?;.*?(\d+)", "int"),
        ("SHAPE_WRITE_METADATA_FINISHED", "parquet/src/file/writer.rs",
         r"fn write_metadata\(&mut self\) -> Result<ParquetMetaData> \{\s*self\.finished = true;.*?(\d+)", "int"),
        # ---- guards of the modelled readers (shape items: `_lost = false` is what the theorem uses)
        ("SHAPE_READ_META_LEN_EOF", _IR,
         r"pub fn read_meta_len\(&mut self\).{0,200}?let mut filled = (0);\s*while filled < meta_len\.len\(\) \{\s*match self\.reader\.read\(&mut meta_len\[filled\.\.\]\) \{"
         r"(?:\s*//[^\n]*)*\s*Ok\(0\) if filled == 0 => return Ok\(None\),(?:\s*//[^\n]*)*\s*Ok\(0\) => \{\s*return Err\(ArrowError::from\(std::io::Error::from\(\s*std::io::ErrorKind::UnexpectedEof,?\s*\)\)\);\s*\}"
         r"\s*Ok\(n\) => filled \+= n,\s*Err\(e\) if e\.kind\(\) == std::io::ErrorKind::Interrupted => \{\}\s*Err\(e\) => return Err\(ArrowError::from\(e\)\),", "int"),
        ("SHAPE_READ_META_LEN_MARKER", _IR,
         r"if meta_len == CONTINUATION_MARKER \{\s*self\.reader\.read_exact\(&mut meta_len\)\?;\s*\}\s*i(32)::from_le_bytes\(meta_len\)\s*\};\s*if meta_len == 0 \{\s*return Ok\(None\);\s*\}"
         r"\s*let meta_len = usize::try_from\(meta_len\)\s*\.map_err\(", "int"),
        ("SHAPE_MAYBE_NEXT_CHECKS", _IR,
         r"\.take\(meta_len as u(64)\)\s*\.read_to_end\(&mut self\.buf\)\?;\s*if read != meta_len \{\s*return Err\(ArrowError::ParseError\(.{0,400}?let body_len = usize::try_from\(message\.bodyLength\(\)\)\.map_err\("
         r".{0,300}?let buf = read_body_bounded\(&mut self\.reader, body_len\)\?;", "int"),
        ("SHAPE_READ_BODY_EXACT", _IR,
         r"while filled < len \{\s*let target = buf\.len\(\);\s*reader\.read_exact\(&mut buf\.as_slice_mut\(\)\[filled\.\.target\]\)\?;.*?(\d+)", "int"),
        ("SHAPE_READ_FOOTER_LENGTH", _IR,
         r"pub fn read_footer_length\(buf: \[u8; (10)\]\) -> Result<usize, ArrowError> \{\s*if buf\[4\.\.\] != super::ARROW_MAGIC \{\s*return Err\(.{0,200}?let footer_len = i32::from_le_bytes\(buf\[\.\.4\]\.try_into\(\)\.unwrap\(\)\);"
         r"\s*footer_len\s*\.try_into\(\)\s*\.map_err\(", "int"),
        ("SHAPE_FILE_READER_SEEKS", _IR,
         r"let footer_len = read_footer_length\(buffer\)\?;\s*if footer_len as u64 > trailer_start \{\s*return Err\(.{0,300}?reader\.seek\(SeekFrom::End\(-(10) - footer_len as i64\)\)\?;\s*reader\.read_exact\(&mut footer_data\)\?;", "int"),
        ("SHAPE_FOOTER_TAIL_MAGIC", _PT,
         r"let encrypted_footer = if magic == PARQUET_MAGIC_ENCR_FOOTER \{\s*true\s*\} else if magic == PARQUET_MAGIC \{\s*false\s*\} else \{\s*return Err\(.*?(\d+)", "int"),
        ("SHAPE_STREAM_DECODER_FINISH", "arrow-ipc/src/reader/stream.rs",
         r"pub fn finish\(&mut self\) -> Result<\(\), ArrowError> \{\s*match self\.state \{\s*DecoderState::Finished\s*\| DecoderState::Header \{\s*read: (0),\s*continuation: false,\s*\.\.\s*\} => Ok\(\(\)\),"
         r"\s*_ => Err\(", "int"),
        ("SHAPE_STREAM_DECODER_LOOP", "arrow-ipc/src/reader/stream.rs",
         r"pub fn decode\(&mut self, buffer: &mut Buffer\).{0,300}?while !buffer\.is_empty\(\) \|\| self\.has_pending_empty_body\(\) \{.{0,1200}?if !\*continuation && buf == &CONTINUATION_MARKER \{.{0,200}?let size = u(32)::from_le_bytes\(\*buf\);"
         r"\s*if size == 0 \{\s*self\.state = DecoderState::Finished;.{0,12000}?DecoderState::Finished => \{\s*return Err\(.{0,3000}?fn has_pending_empty_body\(&self\) -> bool \{\s*match &self\.state \{\s*DecoderState::Body \{ message \} => \{"
         r"\s*self\.buf\.is_empty\(\) && message\.as_ref\(\)\.bodyLength\(\) == 0\s*\}\s*_ => false,", "int"),
        ("SHAPE_JSON_FLUSH", "arrow-json/src/reader/mod.rs",
         r"pub fn flush\(&mut self\) -> Result<Option<RecordBatch>, ArrowError> \{\s*let tape = self\.tape_decoder\.finish\(\)\?;\s*if tape\.num_rows\(\) == (0) \{\s*return Ok\(None\);", "int"),
        ("SHAPE_JSON_TAPE_FINISH", "arrow-json/src/reader/tape.rs",
         r"pub fn finish\(&self\) -> Result<Tape<'_>, ArrowError> \{\s*match self\.stack\.last\(\) \{\s*None => \{\}\s*Some\(DecoderState::TopLevelList\) => \{\}\s*Some\(state\) => \{\s*return Err\(ArrowError::JsonError\(format!\(\s*\"Truncated record whilst reading.*?(\d+)", "int"),
        ("SHAPE_AVRO_READ_EOF", "arrow-avro/src/reader/mod.rs",
         r"let buf = self\.reader\.fill_buf\(\)\?;\s*if buf\.is_empty\(\) \{\s*self\.finished = true;\s*break 'outer;\s*\}.{0,200}?let consumed = self\.block_decoder\.decode\(buf\)\?;.*?(\d+)", "int"),
        # ---- failure state of the writers ("after a failed write no later finish reports success")
        ("SHAPE_IPC_FILE_FAILED_GUARDS", _IW,
         r"Cannot write record batch to file writer as it is closed" + _NW + r"self\.check_not_failed\(\)\?;.{0,400}?"
         r"\.inspect_err\(\|e\| self\.failed = matches!\(e, ArrowError::IoError\(_, _\)\)\)\?;.{0,2500}?Cannot write footer to file writer as it is closed" + _NW +
         r"self\.check_not_failed\(\)\?;(?:\s*//[^\n]*)*\s*self\.failed = true;" + _NW + r"self\.writer\.write_eos.{0,3000}?"
         r"fn check_not_failed\(&self\) -> Result<\(\), ArrowError> \{\s*if self\.failed \{\s*return Err\(ArrowError::IpcError\(\s*\"Cannot write to file writer as an earlier write failed.*?(\d+)", "int"),
        ("SHAPE_IPC_STREAM_FAILED_GUARDS", _IW,
         r"Cannot write record batch to stream writer as it is closed" + _NW + r"self\.check_not_failed\(\)\?;.{0,400}?"
         r"\.inspect_err\(\|e\| self\.failed = matches!\(e, ArrowError::IoError\(_, _\)\)\)\?;.{0,1500}?Cannot write footer to stream writer as it is closed" + _NW +
         r"self\.check_not_failed\(\)\?;(?:\s*//[^\n]*)*\s*self\.failed = true;" + _NW + r"self\.writer\.write_eos.{0,1500}?"
         r"fn check_not_failed\(&self\) -> Result<\(\), ArrowError> \{\s*if self\.failed \{\s*return Err\(ArrowError::IpcError\(\s*\"Cannot write to stream writer as an earlier write failed.*?(\d+)", "int"),
        ("SHAPE_JSON_FAILED_GUARDS", "arrow-json/src/writer/mod.rs",
         r"self\.writer\s*\.write_all\(&buffer\)\s*\.inspect_err\(\|_\| self\.failed = true\)\?;\s*buffer\.clear\(\);.{0,400}?self\.writer\s*\.write_all\(&buffer\)\s*\.inspect_err\(\|_\| self\.failed = true\)\?;"
         r".{0,900}?pub fn finish\(&mut self\) -> Result<\(\), ArrowError> \{\s*if self\.failed \{\s*return Err\(ArrowError::JsonError\(.*?(\d+)", "int"),
        ("SHAPE_AVRO_FAILED_GUARDS", "arrow-avro/src/writer/mod.rs",
         r"pub fn write\(&mut self, batch: &RecordBatch\) -> Result<\(\), AvroError> \{.{0,400}?self\.check_not_failed\(\)\?;\s*let res = match self\.format\.sync_marker\(\) \{.{0,200}?\};"
         r"\s*res\.inspect_err\(\|e\| \{(?:\s*//[^\n]*)*\s*self\.failed = match e \{\s*AvroError::IoError\(_, _\) => true,\s*AvroError::External\(inner\) => inner\.is::<std::io::Error>\(\),\s*_ => false,\s*\}\s*\}\).{0,900}?pub fn finish\(&mut self\) -> Result<\(\), AvroError> \{\s*self\.check_not_failed\(\)\?;"
         r".{0,900}?fn check_not_failed\(&self\) -> Result<\(\), AvroError> \{\s*if self\.failed \{\s*return Err\(.*?(\d+)", "int"),
        ("SHAPE_ASYNC_FAILED_GUARDS", "parquet/src/arrow/async_writer/mod.rs",
         r"pub async fn finish\(&mut self\) -> Result<ParquetMetaData> \{\s*let metadata = self\.sync_writer\.finish\(\)\?;(?:\s*//[^\n]*)*\s*self\.do_write\(\)\.await\?;\s*self\.async_writer\.complete\(\)\.await\?;"
         r".{0,1500}?async fn do_write\(&mut self\) -> Result<\(\)> \{\s*if self\.failed \{\s*return Err\(.{0,200}?let buffer = mem::take\(self\.sync_writer\.inner_mut\(\)\);"
         r"\s*if let Err\(e\) = self\.async_writer\.write\(Bytes::from\(buffer\)\)\.await \{\s*self\.failed = true;\s*return Err\(.*?(\d+)", "int"),
        # ---- IPC
        ("CONTINUATION_BYTE", _IL,
         r"const\s+CONTINUATION_MARKER\s*:\s*\[u8;\s*4\]\s*=\s*\[\s*(0x[0-9a-fA-F]+|\d+)\s*;\s*4\s*\]\s*;", "int"),
        ("CONTINUATION_LEN", _IL, r"const\s+CONTINUATION_MARKER\s*:\s*\[u8;\s*(\d+)\]\s*=", "int"),
        ("ARROW_MAGIC_LEN", _IL, r"const\s+ARROW_MAGIC\s*:\s*\[u8;\s*(\d+)\]\s*=\s*\*b\"ARROW\d\"\s*;", "int"),
        ("ARROW_MAGIC_DIGIT", _IL, r"const\s+ARROW_MAGIC\s*:\s*\[u8;\s*\d+\]\s*=\s*\*b\"ARROW(\d)\"\s*;", "int"),
        # FileReaderBuilder::build: `let mut buffer = [0; 10]; reader.seek(SeekFrom::End(-10))`
        ("IPC_TRAILER_SIZE", _IR, r"let\s+mut\s+buffer\s*=\s*\[0;\s*(\d+)\]\s*;\s*let\s+trailer_start\s*=\s*reader\.seek\(SeekFrom::End\(-\d+\)\)\?\s*;", "int"),
        ("IPC_TRAILER_SEEK", _IR, r"let\s+mut\s+buffer\s*=\s*\[0;\s*\d+\]\s*;\s*let\s+trailer_start\s*=\s*reader\.seek\(SeekFrom::End\(-(\d+)\)\)\?\s*;", "int"),
        # read_footer_length: magic = buf[4..], length = i32 LE of buf[..4]
        ("IPC_TRAILER_MAGIC_OFFSET", _IR, r"pub\s+fn\s+read_footer_length\(buf:\s*\[u8;\s*10\]\).{0,80}?if\s+buf\[(\d+)\.\.\]\s*!=\s*super::ARROW_MAGIC", "int"),
        ("IPC_TRAILER_LEN_BYTES", _IR, r"let\s+footer_len\s*=\s*i32::from_le_bytes\(buf\[\.\.(\d+)\]\.try_into\(\)\.unwrap\(\)\)\s*;", "int"),
        # MetadataLayout::new: prefix size 4 (legacy) / 8 (continuation marker + length)
        ("PREFIX_LEGACY", _IW,
         r"let\s+prefix_size\s*=\s*if\s+write_options\.write_legacy_ipc_format\s*\{\s*(\d+)\s*\}\s*else\s*\{\s*\d+\s*\}\s*;", "int"),
        ("PREFIX_MARKER", _IW,
         r"let\s+prefix_size\s*=\s*if\s+write_options\.write_legacy_ipc_format\s*\{\s*\d+\s*\}\s*else\s*\{\s*(\d+)\s*\}\s*;", "int"),
        ("PADDING_BYTE", _IW, r"const\s+PADDING\s*:\s*\[u8;\s*64\]\s*=\s*\[\s*(\d+)\s*;\s*64\s*\]\s*;", "int"),
        # read_meta_len: width of the length word
        ("META_LEN_BYTES", _IR, r"pub\s+fn\s+read_meta_len.{0,120}?let\s+mut\s+meta_len\s*:\s*\[u8;\s*(\d+)\]\s*=\s*\[0;\s*\d+\]\s*;", "int"),
    ],
}
FUNCTIONS = {}
