"""C18 items the translator (tools/translate.py) extracts from /repo on every run.

CONSTANTS[group] = [(lean_name, file relative to /repo, regex with ONE group, kind)]
kind: "int" | "intlist" | "f64ratio"

The translator only knows integers, so a magic such as `*b"PAR1"` is tied by a regex that
spells the letters literally and captures the trailing digit / the array length: any change of
the magic makes the pattern fail (`LOST`, value 0, `_lost = true`) and the theorems that use
the concrete value (`Generated.C18.*_lost = false`, digit, length) stop checking.
"""
_PF = "parquet/src/file/mod.rs"
_PT = "parquet/src/file/metadata/footer_tail.rs"
_PR = "parquet/src/file/metadata/reader.rs"
_IL = "arrow-ipc/src/lib.rs"
_IR = "arrow-ipc/src/reader.rs"
_IW = "arrow-ipc/src/writer.rs"

CONSTANTS = {
    "C18": [
        # ---- Parquet footer tail
        ("FOOTER_SIZE", _PF, r"pub\s+const\s+FOOTER_SIZE\s*:\s*usize\s*=\s*(\d+)\s*;", "int"),
        # `const PARQUET_MAGIC: [u8; 4] = *b"PAR1";`
        ("PARQUET_MAGIC_LEN", _PF, r"const\s+PARQUET_MAGIC\s*:\s*\[u8;\s*(\d+)\]\s*=\s*\*b\"PAR\d\"\s*;", "int"),
        ("PARQUET_MAGIC_DIGIT", _PF, r"const\s+PARQUET_MAGIC\s*:\s*\[u8;\s*\d+\]\s*=\s*\*b\"PAR(\d)\"\s*;", "int"),
        # `const PARQUET_MAGIC_ENCR_FOOTER: [u8; 4] = *b"PARE";`
        ("PARQUET_MAGIC_ENCR_LEN", _PF, r"const\s+PARQUET_MAGIC_ENCR_FOOTER\s*:\s*\[u8;\s*(\d+)\]\s*=\s*\*b\"PARE\"\s*;", "int"),
        # FooterTail::try_new: magic = slice[4..], length = u32 LE of slice[..4]
        ("FOOTER_MAGIC_OFFSET", _PT, r"let\s+magic\s*=\s*&slice\[(\d+)\.\.\]\s*;", "int"),
        ("FOOTER_LEN_BYTES", _PT, r"let\s+metadata_len\s*=\s*u32::from_le_bytes\(slice\[\.\.(\d+)\]\.try_into\(\)\.unwrap\(\)\)\s*;", "int"),
        # parse_metadata: the two size checks around the footer-tail read, in order
        # (captures the `0_u8` of the buffer initialiser; what matters is `_lost = false`)
        ("PARSE_METADATA_CHECKS", _PR,
         r"fn\s+parse_metadata.{0,400}?if\s+file_size\s*<\s*\(FOOTER_SIZE\s+as\s+u64\)\s*\{\s*return\s+Err\(ParquetError::NeedMoreData\(FOOTER_SIZE\)\)\s*;\s*\}"
         r"\s*let\s+mut\s+footer\s*=\s*\[(0_u8);\s*FOOTER_SIZE\]\s*;.{0,400}?let\s+footer_metadata_len\s*=\s*FOOTER_SIZE\s*\+\s*metadata_len\s*;"
         r".{0,200}?if\s+footer_metadata_len\s+as\s+u64\s*>\s*file_size\s*\{\s*return\s+Err\(ParquetError::NeedMoreData\(footer_metadata_len\)\)\s*;\s*\}", "int"),
        # ---- IPC
        ("CONTINUATION_BYTE", _IL,
         r"const\s+CONTINUATION_MARKER\s*:\s*\[u8;\s*4\]\s*=\s*\[\s*(0x[0-9a-fA-F]+|\d+)\s*;\s*4\s*\]\s*;", "int"),
        ("CONTINUATION_LEN", _IL, r"const\s+CONTINUATION_MARKER\s*:\s*\[u8;\s*(\d+)\]\s*=", "int"),
        ("ARROW_MAGIC_LEN", _IL, r"const\s+ARROW_MAGIC\s*:\s*\[u8;\s*(\d+)\]\s*=\s*\*b\"ARROW\d\"\s*;", "int"),
        ("ARROW_MAGIC_DIGIT", _IL, r"const\s+ARROW_MAGIC\s*:\s*\[u8;\s*\d+\]\s*=\s*\*b\"ARROW(\d)\"\s*;", "int"),
        # FileReaderBuilder::build: `let mut buffer = [0; 10]; reader.seek(SeekFrom::End(-10))`
        ("IPC_TRAILER_SIZE", _IR, r"let\s+mut\s+buffer\s*=\s*\[0;\s*(\d+)\]\s*;\s*reader\.seek\(SeekFrom::End\(-\d+\)\)\?\s*;", "int"),
        ("IPC_TRAILER_SEEK", _IR, r"let\s+mut\s+buffer\s*=\s*\[0;\s*\d+\]\s*;\s*reader\.seek\(SeekFrom::End\(-(\d+)\)\)\?\s*;", "int"),
        # read_footer_length: magic = buf[4..], length = i32 LE of buf[..4]
        ("IPC_TRAILER_MAGIC_OFFSET", _IR, r"pub\s+fn\s+read_footer_length\(buf:\s*\[u8;\s*10\]\).{0,80}?if\s+buf\[(\d+)\.\.\]\s*!=\s*super::ARROW_MAGIC", "int"),
        ("IPC_TRAILER_LEN_BYTES", _IR, r"let\s+footer_len\s*=\s*i32::from_le_bytes\(buf\[\.\.(\d+)\]\.try_into\(\)\.unwrap\(\)\)\s*;", "int"),
        # MetadataLayout::new: prefix size 4 (legacy) / 8 (continuation marker + length)
        ("PREFIX_LEGACY", _IW,
         r"let\s+prefix_size\s*=\s*if\s+write_options\.write_legacy_ipc_format\s*\{\s*(\d+)\s*\}\s*else\s*\{\s*\d+\s*\}\s*;", "int"),
        ("PREFIX_MARKER", _IW,
         r"let\s+prefix_size\s*=\s*if\s+write_options\.write_legacy_ipc_format\s*\{\s*\d+\s*\}\s*else\s*\{\s*(\d+)\s*\}\s*;", "int"),
        ("PADDING_BYTE", _IW, r"const\s+PADDING\s*:\s*\[u8;\s*64\]\s*=\s*\[\s*(\d+)\s*;\s*64\s*\]\s*;", "int"),
        # read_meta_len: width of the length word
        ("META_LEN_BYTES", _IR, r"pub\s+fn\s+read_meta_len.{0,120}?let\s+mut\s+meta_len\s*:\s*\[u8;\s*(\d+)\]\s*=\s*\[0;\s*\d+\]\s*;", "int"),
    ],
}
FUNCTIONS = {}
