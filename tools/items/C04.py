"""C04 items the translator (tools/translate.py) extracts from /repo on every run.

CONSTANTS[group] = [(lean_name, file relative to /repo, regex with ONE group, kind)]
kind: "int" | "intlist" | "f64ratio"
"""
CONSTANTS = {
    "C04": [
        # `const CONTINUATION_MARKER: [u8; 4] = [0xff; 4];` — the byte and the repeat count
        ("CONTINUATION_BYTE", "arrow-ipc/src/lib.rs",
         r"const\s+CONTINUATION_MARKER\s*:\s*\[u8;\s*4\]\s*=\s*\[\s*(0x[0-9a-fA-F]+|\d+)\s*;\s*4\s*\]\s*;", "int"),
        ("CONTINUATION_LEN", "arrow-ipc/src/lib.rs",
         r"const\s+CONTINUATION_MARKER\s*:\s*\[u8;\s*(\d+)\]\s*=", "int"),
        # `const ARROW_MAGIC: [u8; 6] = *b"ARROW1";` — length and the version digit
        ("ARROW_MAGIC_LEN", "arrow-ipc/src/lib.rs",
         r"const\s+ARROW_MAGIC\s*:\s*\[u8;\s*(\d+)\]\s*=\s*\*b\"ARROW\d\"\s*;", "int"),
        ("ARROW_MAGIC_DIGIT", "arrow-ipc/src/lib.rs",
         r"const\s+ARROW_MAGIC\s*:\s*\[u8;\s*\d+\]\s*=\s*\*b\"ARROW(\d)\"\s*;", "int"),
        # `const PADDING: [u8; 64] = [0; 64];`
        ("PADDING_BYTE", "arrow-ipc/src/writer.rs",
         r"const\s+PADDING\s*:\s*\[u8;\s*64\]\s*=\s*\[\s*(\d+)\s*;\s*64\s*\]\s*;", "int"),
        ("PADDING_LEN", "arrow-ipc/src/writer.rs",
         r"const\s+PADDING\s*:\s*\[u8;\s*(\d+)\]\s*=", "int"),
        # MetadataLayout::new: prefix size 4 (legacy) / 8 (continuation marker + length)
        ("PREFIX_LEGACY", "arrow-ipc/src/writer.rs",
         r"let\s+prefix_size\s*=\s*if\s+write_options\.write_legacy_ipc_format\s*\{\s*(\d+)\s*\}\s*else\s*\{\s*\d+\s*\}\s*;", "int"),
        ("PREFIX_MARKER", "arrow-ipc/src/writer.rs",
         r"let\s+prefix_size\s*=\s*if\s+write_options\.write_legacy_ipc_format\s*\{\s*\d+\s*\}\s*else\s*\{\s*(\d+)\s*\}\s*;", "int"),
        # IpcWriteOptions::default alignment
        ("DEFAULT_ALIGNMENT", "arrow-ipc/src/writer.rs",
         r"impl\s+Default\s+for\s+IpcWriteOptions\s*\{\s*fn\s+default\(\)\s*->\s*Self\s*\{\s*Self\s*\{\s*alignment:\s*(\d+)\s*,", "int"),
        # accepted alignments of IpcWriteOptions::try_new
        ("ALIGN_0", "arrow-ipc/src/writer.rs",
         r"alignment\s*==\s*(\d+)\s*\|\|\s*alignment\s*==\s*\d+\s*\|\|\s*alignment\s*==\s*\d+\s*\|\|\s*alignment\s*==\s*\d+\s*;", "int"),
        ("ALIGN_1", "arrow-ipc/src/writer.rs",
         r"alignment\s*==\s*\d+\s*\|\|\s*alignment\s*==\s*(\d+)\s*\|\|\s*alignment\s*==\s*\d+\s*\|\|\s*alignment\s*==\s*\d+\s*;", "int"),
        ("ALIGN_2", "arrow-ipc/src/writer.rs",
         r"alignment\s*==\s*\d+\s*\|\|\s*alignment\s*==\s*\d+\s*\|\|\s*alignment\s*==\s*(\d+)\s*\|\|\s*alignment\s*==\s*\d+\s*;", "int"),
        ("ALIGN_3", "arrow-ipc/src/writer.rs",
         r"alignment\s*==\s*\d+\s*\|\|\s*alignment\s*==\s*\d+\s*\|\|\s*alignment\s*==\s*\d+\s*\|\|\s*alignment\s*==\s*(\d+)\s*;", "int"),
        # --- validity-bitmap accounting per metadata version (writer, reader, projection skip) ---
        # writer `has_validity_bitmap`: below this version Null and RunEndEncoded have no bitmap; from it on also Union
        ("HAS_VALIDITY_SPLIT_VERSION", "arrow-ipc/src/writer.rs",
         r"fn\s+has_validity_bitmap\(data_type:\s*&DataType,\s*write_options:\s*&IpcWriteOptions\)\s*->\s*bool\s*\{\s*if\s+write_options\.metadata_version\s*<\s*crate::MetadataVersion::V(\d)\s*\{\s*!matches!\(data_type,\s*DataType::Null\s*\|\s*DataType::RunEndEncoded\(_,\s*_\)\)\s*\}\s*else\s*\{\s*!matches!\(\s*data_type,\s*DataType::Null\s*\|\s*DataType::Union\(_,\s*_\)\s*\|\s*DataType::RunEndEncoded\(_,\s*_\)\s*\)\s*\}\s*\}", "int"),
        # reader `create_array`, Union arm: the validity buffer is consumed below this version
        ("READ_UNION_VALIDITY_BELOW", "arrow-ipc/src/reader.rs",
         r"Union\(fields,\s*mode\)\s*=>\s*\{\s*let\s+union_node\s*=\s*self\.next_node\(field\)\?;\s*let\s+len\s*=\s*union_node\.length\(\)\s*as\s+usize;\s*(?://[^\n]*\n\s*)*if\s+self\.version\s*<\s*MetadataVersion::V(\d)\s*\{\s*self\.next_buffer\(\)\?;\s*\}", "int"),
        # reader `skip_field`, Union arm — the whole arm: validity below this version, type ids, offsets iff dense, then every child
        ("SKIP_UNION_VALIDITY_BELOW", "arrow-ipc/src/reader.rs",
         r"Union\(fields,\s*mode\)\s*=>\s*\{\s*if\s+self\.version\s*<\s*MetadataVersion::V(\d)\s*\{\s*self\.skip_buffer\(\);[^\n]*\n\s*\}\s*self\.skip_buffer\(\);[^\n]*\n\s*match\s+mode\s*\{\s*UnionMode::Dense\s*=>\s*self\.skip_buffer\(\),[^\n]*\n\s*UnionMode::Sparse\s*=>\s*\{\}\s*\}\s*for\s*\(_,\s*field\)\s*in\s+fields\.iter\(\)\s*\{\s*self\.skip_field\(field,\s*variadic_count\)\?\s*\}\s*\}", "int"),
        # Flight default target message size (tuning knob; theorems quantify over every value)
        ("GRPC_TARGET_MAX_FLIGHT_SIZE_BYTES", "arrow-flight/src/encode.rs",
         r"pub\s+const\s+GRPC_TARGET_MAX_FLIGHT_SIZE_BYTES\s*:\s*usize\s*=\s*([^;]+);", "int"),
    ],
}

# ---------------------------------------------------------------------------------------------
# SHAPE ties: the exact token sequence of the critical expressions the model mirrors (whitespace
# insensitive).  kind "intlist" with an empty capture group: the constant is `[]` while the source
# still has this shape and goes LOST (and breaks `ArrowModel.C04.shapes_tied`) as soon as an
# operand, guard, or statement order is edited.
import re as _re

def _shape(src):
    return r"\s*".join(_re.escape(tok) for tok in src.split()) + r"()"

_W = "arrow-ipc/src/writer.rs"
_R = "arrow-ipc/src/reader.rs"
_SHAPES = [
    ("SHAPE_REENCODE_WINDOW", _W, "let offset_slice = &offsets_slice[data.offset()..data.offset() + data.len() + 1];"),
    ("SHAPE_REENCODE_MATCH", _W, """let offsets = match start_offset.as_usize() {
            0 => {
                let size = size_of::<O>();
                offsets.slice_with_length(data.offset() * size, (data.len() + 1) * size)
            }
            _ => offset_slice.iter().map(|x| *x - *start_offset).collect(),
        };"""),
    ("SHAPE_REENCODE_RESULT", _W, "(offsets, start_offset, end_offset - start_offset)"),
    ("SHAPE_BYTE_ARRAY_WINDOW", _W, """let (offsets, original_start_offset, len) = reencode_offsets::<O>(&data.buffers()[0], data);
    let values = data.buffers()[1].slice_with_length(original_start_offset, len);
    [offsets, values]"""),
    ("SHAPE_LIST_CHILD_WINDOW", _W, """let (offsets, original_start_offset, len) = reencode_offsets::<O>(&data.buffers()[0], data);
    let child_data = data.child_data()[0].slice(original_start_offset, len);
    (offsets, child_data)"""),
    ("SHAPE_NEED_TRUNCATE", _W, "spec != &BufferSpec::AlwaysNull && (array_offset != 0 || min_length < buffer.len())"),
    ("SHAPE_TRUNCATE", _W, """let min_length = array_data.len() * byte_width;
    if buffer_need_truncate(array_data.offset(), buffer, spec, min_length) {
        let byte_offset = array_data.offset() * byte_width;
        let buffer_length = min(min_length, buffer.len() - byte_offset);
        buffer.slice_with_length(byte_offset, buffer_length)
    } else {
        buffer.clone()
    }"""),
    ("SHAPE_VALIDITY_SLICED", _W, "Some(buffer) => buffer.inner().sliced(),"),
    ("SHAPE_VALIDITY_SYNTH", _W, """let num_bytes = bit_util::ceil(num_rows, 8);
                let buffer = MutableBuffer::new(num_bytes);
                let buffer = buffer.with_bitset(num_bytes, true);"""),
    ("SHAPE_BOOL_BIT_SLICE", _W, "let buffer = buffer.bit_slice(array_data.offset(), array_data.len());"),
    ("SHAPE_FSL_CHILD", _W, """let child_offset = array_data.offset() * fixed_size;
        let child_length = array_data.len() * fixed_size;
        let child_data = array_data.child_data()[0].slice(child_offset, child_length);"""),
    ("SHAPE_PAD", _W, """let a = usize::from(alignment - 1);
    ((len + a) & !a) - len"""),
    ("SHAPE_LAYOUT", _W, """let alignment_mask = usize::from(write_options.alignment - 1);
        let padded_header_len = (metadata_len + prefix_size + alignment_mask) & !alignment_mask;
        let padded_metadata_len = padded_header_len - prefix_size;
        let metadata_padding = padded_metadata_len - metadata_len;"""),
    ("SHAPE_ENCODED_DATA", _W, """self.write_continuation(write_options, layout.padded_metadata_len as i32)?;
        self.write_vec(metadata)?;
        self.write_padding(layout.metadata_padding)?;

        let body_len = if arrow_data_len > 0 {
            self.write_body_data(encoded.arrow_data, write_options.alignment)?
        } else {
            0
        };

        Ok((layout.padded_header_len, body_len))"""),
    ("SHAPE_ALIGN_CHECK", _W, "if !arrow_data_len.is_multiple_of(usize::from(write_options.alignment)) {"),
    ("SHAPE_CONT_V5", _W, """crate::MetadataVersion::V5 => {
                buffer[..4].copy_from_slice(&CONTINUATION_MARKER);
                buffer[4..].copy_from_slice(&metadata_len.to_le_bytes());
                8
            }"""),
    ("SHAPE_SINK_BUFFER", _W, """let pad_len = pad_to_alignment(alignment, len as usize);
    sink.write(pad_len, encoded);
    ipc_meta_data.buffers.push(crate::Buffer::new(offset, len));
    Ok(offset + len + pad_len as i64)"""),
    ("SHAPE_TAIL_PAD", _W, """let tail_pad = pad_to_alignment(alignment, offset as usize);
        let body_len = offset as usize + tail_pad;"""),
    ("SHAPE_COMPARE_DICT", _W, """let existing_len = old.len();
    let new_len = new.len();
    if existing_len == new_len {
        if *old == *new {
            return DictionaryComparison::Equal;
        } else {
            return DictionaryComparison::NotEqual;
        }
    }"""),
    ("SHAPE_COMPARE_DICT_TAIL", _W, """if new_len < existing_len {
        return DictionaryComparison::NotEqual;
    }"""),
    ("SHAPE_COMPARE_DICT_DELTA", _W, """if new.slice(0, existing_len) == *old {
        return DictionaryComparison::Delta;
    }

    DictionaryComparison::NotEqual"""),
    ("SHAPE_INSERT_NEW", _W, """let Some(old) = self.written.get(&dict_id) else {
            self.written.insert(dict_id, new_data);
            return Ok(DictionaryUpdate::New);
        };"""),
    ("SHAPE_INSERT_EQUAL", _W, """let comparison = compare_dictionaries(old_values, new_values);
        if matches!(comparison, DictionaryComparison::Equal) {
            return Ok(DictionaryUpdate::None);
        }"""),
    ("SHAPE_INSERT_REPLACED", _W, """self.written.insert(dict_id, new_data);
                Ok(DictionaryUpdate::Replaced)
            }
            DictionaryComparison::Delta => match dict_handling {
                DictionaryHandling::Resend => {
                    if self.error_on_replacement {"""),
    ("SHAPE_INSERT_DELTA", _W, """DictionaryHandling::Delta => {
                    let delta =
                        new_values.slice(old_values.len(), new_values.len() - old_values.len());
                    self.written.insert(dict_id, new_data);
                    Ok(DictionaryUpdate::Delta(delta))
                }"""),
    ("SHAPE_ENCODE_DICT_UPDATE", _W, """DictionaryUpdate::None => {}
                    DictionaryUpdate::New | DictionaryUpdate::Replaced => {
                        encoded_dictionaries.push(self.dictionary_batch_to_bytes(
                            dict_id,
                            dict_values,
                            write_options,
                            false,
                            ipc_write_context,
                        )?);
                    }
                    DictionaryUpdate::Delta(data) => {
                        encoded_dictionaries.push(self.dictionary_batch_to_bytes(
                            dict_id,
                            &data,
                            write_options,
                            true,
                            ipc_write_context,
                        )?);
                    }"""),
    ("SHAPE_READ_BUFFER", _R, """let (offset, length) = (buf.offset(), buf.length());
    let in_bounds = offset >= 0
        && length >= 0
        && (offset as u64).saturating_add(length as u64) <= a_data.len() as u64;
    if !in_bounds {"""),
    ("SHAPE_READ_BUFFER_SLICE", _R, "let buf_data = a_data.slice_with_length(offset as usize, length as usize);"),
    ("SHAPE_READ_UNION_TYPE_IDS", _R, """let type_ids = self.next_buffer()?;
                if type_ids.len() < len {"""),
    ("SHAPE_READ_UNION_OFFSETS", _R, """let offsets = self.next_buffer()?;
                        if offsets.len() / 4 < len {"""),
    ("SHAPE_READ_UNION_ALIGN", _R, """let offsets = offsets.slice_with_length(0, len * 4);
                        // the offsets must be aligned for `i32`: copy them unless alignment is required
                        let offsets = if offsets.as_ptr().align_offset(std::mem::align_of::<i32>()) == 0 {
                            offsets
                        } else if self.require_alignment {"""),
    ("SHAPE_READ_UNION_COPY", _R, """} else {
                            Buffer::from(offsets.as_slice())
                        };
                        let offsets: ScalarBuffer<i32> = offsets.into();"""),
    ("SHAPE_UPDATE_DICT", _R, """if !is_delta {
        // We don't currently record the isOrdered field. This could be general
        // attributes of arrays.
        // Add (possibly multiple) array refs to the dictionaries array.
        dictionaries_by_id.insert(dict_id, dict_values.clone());
        return Ok(());
    }"""),
    ("SHAPE_UPDATE_DICT_CONCAT", _R, "let combined = concat::concat(&[existing, &dict_values])"),
    ("SHAPE_READ_META_PREFIX", _R, """Ok(0) if filled == 0 => return Ok(None),
                // The stream ends part way through a length prefix: it is truncated
                Ok(0) => {
                    return Err(ArrowError::from(std::io::Error::from(
                        std::io::ErrorKind::UnexpectedEof,
                    )));
                }
                Ok(n) => filled += n,"""),
    ("SHAPE_WRITE_UNION", _W, """let (union_offset, union_len) = (array_data.offset(), array_data.len());
        let type_ids = array_data.buffers()[0].slice_with_length(union_offset, union_len);"""),
    ("SHAPE_WRITE_UNION_DENSE", _W, "let offsets = array_data.buffers()[1].slice_with_length(union_offset * 4, union_len * 4);"),
    ("SHAPE_WRITE_UNION_CHILDREN", _W, """let child = match mode {
                UnionMode::Sparse => child.slice(union_offset, union_len),
                UnionMode::Dense => child.clone(),
            };"""),
    ("SHAPE_REE_EMPTY", _W, """if run_array.len() == 0 {
        let run_ends = PrimitiveArray::<R>::from_iter_values(std::iter::empty::<R::Native>());
        return RunArray::try_new(&run_ends, &run_array.values().slice(0, 0));
    }"""),
    ("SHAPE_READ_META_LEN", _R, """if meta_len == CONTINUATION_MARKER {
                self.reader.read_exact(&mut meta_len)?;
            }

            i32::from_le_bytes(meta_len)
        };

        if meta_len == 0 {
            return Ok(None);
        }"""),
    ("SHAPE_FILE_DICTS_FIRST", _R, """if let Some(dictionaries) = footer.dictionaries() {
            for block in dictionaries {
                let buf = read_block(&mut reader, block)?;
                decoder.read_dictionary(block, &buf)?;
            }
        }"""),
    ("SHAPE_BIT_SLICE_ALIGNED", "arrow-buffer/src/buffer/immutable.rs", """if offset.is_multiple_of(8) {
            return self.slice_with_length(offset / 8, bit_util::ceil(len, 8));
        }"""),
    ("SHAPE_FLIGHT_SPLIT", "arrow-flight/src/encode.rs", """let n_batches =
        (size / max_flight_data_size + usize::from(size % max_flight_data_size != 0)).max(1);
    let num_rows = batch.num_rows();
    let rows_per_batch = (num_rows / n_batches).max(1);
    let mut offset = 0;
    let mut batches = Vec::with_capacity(n_batches);

    while offset < num_rows {
        let length = rows_per_batch.min(num_rows - offset);
        batches.push(batch.slice(offset, length));
        offset += length;
    }"""),
]
CONSTANTS["C04"] += [(name, path, _shape(src), "intlist") for (name, path, src) in _SHAPES]
SHAPE_NAMES = [n for (n, _, _) in _SHAPES]

FUNCTIONS = {}
