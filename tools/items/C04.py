"""C04 items the translator (tools/translate.py) extracts from /repo on every run.

CONSTANTS[group] = [(lean_name, file relative to /repo, regex with ONE group, kind)]
kind: "int" | "intlist" | "f64ratio"
"""
CONSTANTS = {
    "C04": [
        # `const CONTINUATION_MARKER: [u8; 4] = [0xff; 4];` — the byte and the repeat count
        ("CONTINUATION_BYTE", "arrow-ipc/src/lib.rs",
         r"const\s+CONTINUATION_MARKER\s*:\s*\[u8;\s*4\]\s*=\s*\[\s*(0x[0-9a-fA-F]+|\d+)\s*;\s*4\s*\]\s*;", "int"),
        ("CONTINUATION_LEN", "arrow-ipc/src/lib.rs",
         r"const\s+CONTINUATION_MARKER\s*:\s*\[u8;\s*(\d+)\]\s*=", "int"),
        # `const ARROW_MAGIC: [u8; 6] = *b"ARROW1";` — length and the version digit
        ("ARROW_MAGIC_LEN", "arrow-ipc/src/lib.rs",
         r"const\s+ARROW_MAGIC\s*:\s*\[u8;\s*(\d+)\]\s*=\s*\*b\"ARROW\d\"\s*;", "int"),
        ("ARROW_MAGIC_DIGIT", "arrow-ipc/src/lib.rs",
         r"const\s+ARROW_MAGIC\s*:\s*\[u8;\s*\d+\]\s*=\s*\*b\"ARROW(\d)\"\s*;", "int"),
        # `const PADDING: [u8; 64] = [0; 64];`
        ("PADDING_BYTE", "arrow-ipc/src/writer.rs",
         r"const\s+PADDING\s*:\s*\[u8;\s*64\]\s*=\s*\[\s*(\d+)\s*;\s*64\s*\]\s*;", "int"),
        ("PADDING_LEN", "arrow-ipc/src/writer.rs",
         r"const\s+PADDING\s*:\s*\[u8;\s*(\d+)\]\s*=", "int"),
        # MetadataLayout::new: prefix size 4 (legacy) / 8 (continuation marker + length)
        ("PREFIX_LEGACY", "arrow-ipc/src/writer.rs",
         r"let\s+prefix_size\s*=\s*if\s+write_options\.write_legacy_ipc_format\s*\{\s*(\d+)\s*\}\s*else\s*\{\s*\d+\s*\}\s*;", "int"),
        ("PREFIX_MARKER", "arrow-ipc/src/writer.rs",
         r"let\s+prefix_size\s*=\s*if\s+write_options\.write_legacy_ipc_format\s*\{\s*\d+\s*\}\s*else\s*\{\s*(\d+)\s*\}\s*;", "int"),
        # IpcWriteOptions::default alignment
        ("DEFAULT_ALIGNMENT", "arrow-ipc/src/writer.rs",
         r"impl\s+Default\s+for\s+IpcWriteOptions\s*\{\s*fn\s+default\(\)\s*->\s*Self\s*\{\s*Self\s*\{\s*alignment:\s*(\d+)\s*,", "int"),
        # accepted alignments of IpcWriteOptions::try_new
        ("ALIGN_0", "arrow-ipc/src/writer.rs",
         r"alignment\s*==\s*(\d+)\s*\|\|\s*alignment\s*==\s*\d+\s*\|\|\s*alignment\s*==\s*\d+\s*\|\|\s*alignment\s*==\s*\d+\s*;", "int"),
        ("ALIGN_1", "arrow-ipc/src/writer.rs",
         r"alignment\s*==\s*\d+\s*\|\|\s*alignment\s*==\s*(\d+)\s*\|\|\s*alignment\s*==\s*\d+\s*\|\|\s*alignment\s*==\s*\d+\s*;", "int"),
        ("ALIGN_2", "arrow-ipc/src/writer.rs",
         r"alignment\s*==\s*\d+\s*\|\|\s*alignment\s*==\s*\d+\s*\|\|\s*alignment\s*==\s*(\d+)\s*\|\|\s*alignment\s*==\s*\d+\s*;", "int"),
        ("ALIGN_3", "arrow-ipc/src/writer.rs",
         r"alignment\s*==\s*\d+\s*\|\|\s*alignment\s*==\s*\d+\s*\|\|\s*alignment\s*==\s*\d+\s*\|\|\s*alignment\s*==\s*(\d+)\s*;", "int"),
        # --- validity-bitmap accounting per metadata version (writer, reader, projection skip) ---
        # writer `has_validity_bitmap`: below this version only Null has no bitmap; from it on also Union and RunEndEncoded
        ("HAS_VALIDITY_SPLIT_VERSION", "arrow-ipc/src/writer.rs",
         r"fn\s+has_validity_bitmap\(data_type:\s*&DataType,\s*write_options:\s*&IpcWriteOptions\)\s*->\s*bool\s*\{\s*if\s+write_options\.metadata_version\s*<\s*crate::MetadataVersion::V(\d)\s*\{\s*!matches!\(data_type,\s*DataType::Null\)\s*\}\s*else\s*\{\s*!matches!\(\s*data_type,\s*DataType::Null\s*\|\s*DataType::Union\(_,\s*_\)\s*\|\s*DataType::RunEndEncoded\(_,\s*_\)\s*\)\s*\}\s*\}", "int"),
        # reader `create_array`, Union arm: the validity buffer is consumed below this version
        ("READ_UNION_VALIDITY_BELOW", "arrow-ipc/src/reader.rs",
         r"Union\(fields,\s*mode\)\s*=>\s*\{\s*let\s+union_node\s*=\s*self\.next_node\(field\)\?;\s*let\s+len\s*=\s*union_node\.length\(\)\s*as\s+usize;\s*(?://[^\n]*\n\s*)*if\s+self\.version\s*<\s*MetadataVersion::V(\d)\s*\{\s*self\.next_buffer\(\)\?;\s*\}", "int"),
        # reader `skip_field`, Union arm — the whole arm: validity below this version, type ids, offsets iff dense, then every child
        ("SKIP_UNION_VALIDITY_BELOW", "arrow-ipc/src/reader.rs",
         r"Union\(fields,\s*mode\)\s*=>\s*\{\s*if\s+self\.version\s*<\s*MetadataVersion::V(\d)\s*\{\s*self\.skip_buffer\(\);[^\n]*\n\s*\}\s*self\.skip_buffer\(\);[^\n]*\n\s*match\s+mode\s*\{\s*UnionMode::Dense\s*=>\s*self\.skip_buffer\(\),[^\n]*\n\s*UnionMode::Sparse\s*=>\s*\{\}\s*\}\s*for\s*\(_,\s*field\)\s*in\s+fields\.iter\(\)\s*\{\s*self\.skip_field\(field,\s*variadic_count\)\?\s*\}\s*\}", "int"),
        # Flight default target message size (tuning knob; theorems quantify over every value)
        ("GRPC_TARGET_MAX_FLIGHT_SIZE_BYTES", "arrow-flight/src/encode.rs",
         r"pub\s+const\s+GRPC_TARGET_MAX_FLIGHT_SIZE_BYTES\s*:\s*usize\s*=\s*([^;]+);", "int"),
    ],
}
FUNCTIONS = {}
