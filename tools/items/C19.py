"""C19 items the translator (tools/translate.py) extracts from /repo on every run.

CONSTANTS[group] = [(lean_name, file relative to /repo, regex with ONE group, kind)]
kind: "int" | "intlist" | "f64ratio"
"""
CONSTANTS = {
    "C19": [
        # the 56-bit mask used by `set_upto_64bits` when only read shifting is necessary
        ("SET_BITS_56_MASK", "arrow-buffer/src/util/bit_mask.rs", r"\(chunk >> read_shift\) & (0x[0-9A-Fa-f_]+);", "int"),
        ("SET_BITS_56_LEN", "arrow-buffer/src/util/bit_mask.rs", r"let len = (64 - 8); // 56 bits", "int"),
    ],
}
FUNCTIONS = {}

# ---- shape items: each regex pins (whitespace-insensitively) a critical expression, guard or
# statement order that the Lean model in lean/ArrowModel/C19 mirrors; the single group captures
# a literal inside it.  Editing the pinned text makes the item LOST (`<name>_lost = true`), which
# breaks the obligation `ArrowModel.C19.source_shape_ties`.
_BCI = "arrow-buffer/src/util/bit_chunk_iterator.rs"
_BM = "arrow-buffer/src/util/bit_mask.rs"
_NB = "arrow-buffer/src/buffer/null.rs"
CONSTANTS["C19"] += [
    # BitChunks::new: byte/bit offset split and chunk/remainder split
    ("SHAPE_BITCHUNKS_NEW", _BCI,
     r"let byte_offset = offset / 8;\s*let bit_offset = offset % 8;\s*// number of complete u64 chunks\s*let chunk_len = len / (64);\s*// number of remaining bits\s*let remainder_len = len % 64;\s*BitChunks::<'a> \{\s*buffer: &buffer\[byte_offset\.\.\],", "int"),
    # BitChunkIterator::next: the combined word from the current word and one more byte
    ("SHAPE_BITCHUNKS_NEXT", _BCI,
     r"let combined = if bit_offset == 0 \{\s*current\s*\} else \{[\s\S]*?let next =\s*unsafe \{ std::ptr::read_unaligned\(raw_data\.add\(index \+ 1\)\.cast::<u8>\(\)\) as u64 \};\s*\(current >> bit_offset\) \| \(next << \((64) - bit_offset\)\)\s*\};\s*self\.index = index \+ 1;", "int"),
    # BitChunks::remainder_bits: byte count, byte-wise assembly, final mask
    ("SHAPE_REMAINDER_BITS", _BCI,
     r"let byte_len = ceil\(bit_len \+ bit_offset, (8)\);[\s\S]*?\.add\(self\.chunk_len \* std::mem::size_of::<u64>\(\)\)\s*\};\s*let mut bits = unsafe \{ std::ptr::read\(base\) \} as u64 >> bit_offset;\s*for i in 1\.\.byte_len \{\s*let byte = unsafe \{ std::ptr::read\(base\.add\(i\)\) \};\s*bits \|= \(byte as u64\) << \(i \* 8 - bit_offset\);\s*\}\s*bits & \(\(1 << bit_len\) - 1\)", "int"),
    # set_bits: the accumulation loop
    ("SHAPE_SET_BITS_LOOP", _BM,
     r"let mut null_count = (0);\s*let mut acc = 0;\s*while len > acc \{[\s\S]*?set_upto_64bits\(\s*write_data,\s*data,\s*offset_write \+ acc,\s*offset_read \+ acc,\s*len - acc,\s*\)\s*\};\s*null_count \+= n;\s*acc \+= len_set;\s*\}\s*null_count", "int"),
    # set_upto_64bits: offset decomposition and the branch structure for len >= 64
    ("SHAPE_SET_UPTO_64_SPLIT", _BM,
     r"let read_byte = offset_read / 8;\s*let read_shift = offset_read % 8;\s*let write_byte = offset_write / 8;\s*let write_shift = offset_write % 8;\s*if len >= (64) \{\s*let chunk = unsafe \{ data\.as_ptr\(\)\.add\(read_byte\)\.cast::<u64>\(\)\.read_unaligned\(\) \};\s*if read_shift == 0 \{\s*if write_shift == 0 \{", "int"),
    ("SHAPE_SET_UPTO_64_WRITE_SHIFT", _BM,
     r"// only write shifting necessary\s*let len = (64) - write_shift;\s*let chunk = chunk << write_shift;\s*let null_count = len - chunk\.count_ones\(\) as usize;\s*unsafe \{ or_write_u64_bytes\(write_data, write_byte, chunk\) \};", "int"),
    ("SHAPE_SET_UPTO_64_BOTH_SHIFT", _BM,
     r"\} else \{\s*let len = (64) - std::cmp::max\(read_shift, write_shift\);\s*let chunk = \(chunk >> read_shift\) << write_shift;\s*let null_count = len - chunk\.count_ones\(\) as usize;\s*unsafe \{ or_write_u64_bytes\(write_data, write_byte, chunk\) \};", "int"),
    ("SHAPE_SET_UPTO_64_ONE_BIT", _BM,
     r"\} else if len == (1) \{\s*let byte_chunk = \(unsafe \{ data\.get_unchecked\(read_byte\) \} >> read_shift\) & 1;\s*unsafe \{ \*write_data\.get_unchecked_mut\(write_byte\) \|= byte_chunk << write_shift \};\s*\(\(byte_chunk \^ 1\) as usize, 1\)", "int"),
    ("SHAPE_SET_UPTO_64_SHORT", _BM,
     r"let len = std::cmp::min\(len, (64) - std::cmp::max\(read_shift, write_shift\)\);\s*let bytes = ceil\(len \+ read_shift, 8\);[\s\S]*?let mask = u64::MAX >> \(64 - len\);\s*let chunk = \(chunk >> read_shift\) & mask;[^\n]*\n\s*let chunk = chunk << write_shift;[^\n]*\n\s*let null_count = len - chunk\.count_ones\(\) as usize;\s*let bytes = ceil\(len \+ write_shift, 8\);", "int"),
    # or_write_u64_bytes ORs only the first byte of the destination into the chunk before the store
    ("SHAPE_OR_WRITE", _BM,
     r"let ptr = unsafe \{ data\.as_mut_ptr\(\)\.add\(offset\) \};\s*let chunk = chunk \| \(unsafe \{ \*ptr \}\) as u(64);\s*unsafe \{ ptr\.cast::<u64>\(\)\.write_unaligned\(chunk\) \};", "int"),
]
_BU = "arrow-buffer/src/util/bit_util.rs"
CONSTANTS["C19"] += [
    # NullBuffer::expand: every valid bit i becomes bits i*count .. i*count+count; null count scales
    ("SHAPE_NULL_EXPAND", _NB,
     r"let capacity = self\.buffer\.len\(\)\.checked_mul\(count\)\.unwrap\(\);\s*let mut buffer = MutableBuffer::new_null\(capacity\);[\s\S]*?for i in (0)\.\.self\.buffer\.len\(\) \{\s*if self\.is_null\(i\) \{\s*continue;\s*\}\s*for j in 0\.\.count \{\s*crate::bit_util::set_bit\(buffer\.as_mut\(\), i \* count \+ j\)\s*\}\s*\}\s*Self \{\s*buffer: BooleanBuffer::new\(buffer\.into\(\), 0, capacity\),\s*null_count: self\.null_count \* count,", "int"),
    # apply_bitwise_binary_op: align the left side to a byte first, then the byte-aligned helper
    ("SHAPE_APPLY_BINARY_ALIGN", _BU,
     r"let bit_offset = left_offset_in_bits % 8;\s*let is_mutable_buffer_byte_aligned = bit_offset == (0);[\s\S]*?let bits_to_next_byte = \(8 - bit_offset\)[\s\S]*?\.min\(len_in_bits\);[\s\S]*?let right_byte_offset = right_offset_in_bits / 8;[\s\S]*?&right\.as_ref\(\)\[right_byte_offset\.\.\],\s*bits_to_next_byte,\s*// Right bit offset\s*right_offset_in_bits % 8,\s*\);[\s\S]*?let offset_in_bits = left_offset_in_bits \+ bits_to_next_byte;\s*let right_offset_in_bits = right_offset_in_bits \+ bits_to_next_byte;\s*let len_in_bits = len_in_bits\.saturating_sub\(bits_to_next_byte\);", "int"),
]
