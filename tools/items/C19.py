"""C19 items the translator (tools/translate.py) extracts from /repo on every run.

CONSTANTS[group] = [(lean_name, file relative to /repo, regex with ONE group, kind)]
kind: "int" | "intlist" | "f64ratio"
"""
CONSTANTS = {
    "C19": [
        # the 56-bit mask used by `set_upto_64bits` when only read shifting is necessary
        ("SET_BITS_56_MASK", "arrow-buffer/src/util/bit_mask.rs", r"\(chunk >> read_shift\) & (0x[0-9A-Fa-f_]+);", "int"),
        ("SET_BITS_56_LEN", "arrow-buffer/src/util/bit_mask.rs", r"let len = (64 - 8); // 56 bits", "int"),
    ],
}
FUNCTIONS = {}
