"""C11 items the translator (tools/translate.py) extracts from /repo on every run.

Every constant the row-format theorems depend on: block sizes, the continuation byte, the
empty / non-empty / null-value sentinels, both values of `null_sentinel`, the validity byte
of fixed-width fields and the sign-bit mask.  The theorems use the concrete values where
correctness depends on them (sentinel ordering, length bytes < continuation byte), so a
changed constant breaks a proof.
"""
CONSTANTS = {
    "C11": [
        ("BLOCK_SIZE", "arrow-row/src/variable.rs", r"pub const BLOCK_SIZE: usize = ([0-9_xA-Fa-f]+);", "int"),
        ("MINI_BLOCK_COUNT", "arrow-row/src/variable.rs", r"pub const MINI_BLOCK_COUNT: usize = ([0-9_xA-Fa-f]+);", "int"),
        # MINI_BLOCK_SIZE is defined as BLOCK_SIZE / MINI_BLOCK_COUNT: the pattern insists on that shape
        # and captures the divisor; the Lean model computes MINI_BLOCK_SIZE = BLOCK_SIZE / MINI_BLOCK_SIZE_DIVISOR
        ("MINI_BLOCK_SIZE_DIVISOR", "arrow-row/src/variable.rs", r"pub const MINI_BLOCK_COUNT: usize = ([0-9_xA-Fa-f]+);.*?pub const MINI_BLOCK_SIZE: usize = BLOCK_SIZE / MINI_BLOCK_COUNT;", "int"),
        ("BLOCK_CONTINUATION", "arrow-row/src/variable.rs", r"pub const BLOCK_CONTINUATION: u8 = ([0-9_xA-Fa-f]+);", "int"),
        ("EMPTY_SENTINEL", "arrow-row/src/variable.rs", r"pub const EMPTY_SENTINEL: u8 = ([0-9_xA-Fa-f]+);", "int"),
        ("NON_EMPTY_SENTINEL", "arrow-row/src/variable.rs", r"pub const NON_EMPTY_SENTINEL: u8 = ([0-9_xA-Fa-f]+);", "int"),
        ("NULL_VALUE_SENTINEL", "arrow-row/src/variable.rs", r"pub const NULL_VALUE_SENTINEL: u8 = ([0-9_xA-Fa-f]+);", "int"),
        # fn null_sentinel(options) { match options.nulls_first { true => 0, false => 0xFF } }
        ("NULL_SENTINEL_FIRST", "arrow-row/src/lib.rs", r"fn null_sentinel\(options: SortOptions\) -> u8 \{\s*match options\.nulls_first \{\s*true => ([0-9_xA-Fa-f]+),", "int"),
        ("NULL_SENTINEL_LAST", "arrow-row/src/lib.rs", r"fn null_sentinel\(options: SortOptions\) -> u8 \{\s*match options\.nulls_first \{\s*true => [0-9_xA-Fa-f]+,\s*false => ([0-9_xA-Fa-f]+),", "int"),
        # validity byte written by fixed::encode / encode_not_null (`to_write[0] = 1;`)
        ("VALID_BYTE", "arrow-row/src/fixed.rs", r"pub fn encode<T: FixedLengthEncoding>\(.*?if is_valid \{\s*let to_write = &mut data\[\*offset\.\.end_offset\];\s*to_write\[0\] = ([0-9_xA-Fa-f]+);", "int"),
        # sign-bit toggle of encode_signed!
        ("SIGN_MASK", "arrow-row/src/fixed.rs", r"macro_rules! encode_signed \{.*?fn encode\(self\) -> \[u8; \$n\] \{\s*let mut b = self\.to_be_bytes\(\);\s*(?://[^\n]*\n\s*)*b\[0\] \^= ([0-9_xA-Fa-f]+);", "int"),
        # struct / fixed-size-list validity byte
        ("STRUCT_VALID_BYTE", "arrow-row/src/lib.rs", r"rows\.row\(idx\)\s*\},\s*([0-9_xA-Fa-f]+),\s*\),\s*false => \(\*null, null_sentinel\)", "int"),
        ("FSL_VALID_BYTE", "arrow-row/src/list.rs", r"match array\.is_valid\(idx\) \{\s*true => \{\s*data\[\*offset\] = ([0-9_xA-Fa-f]+);", "int"),
        # float transforms: shift amounts of `s ^ (((s >> 31) as u32) >> 1) as i32`
        ("F16_SHIFT", "arrow-row/src/fixed.rs", r"let s = self\.to_bits\(\) as i16;\s*let val = s \^ \(\(\(s >> ([0-9]+)\) as u16\) >> 1\) as i16;", "int"),
        ("F32_SHIFT", "arrow-row/src/fixed.rs", r"let s = self\.to_bits\(\) as i32;\s*let val = s \^ \(\(\(s >> ([0-9]+)\) as u32\) >> 1\) as i32;", "int"),
        ("F64_SHIFT", "arrow-row/src/fixed.rs", r"let s = self\.to_bits\(\) as i64;\s*let val = s \^ \(\(\(s >> ([0-9]+)\) as u64\) >> 1\) as i64;", "int"),
        ("F32_SHIFT2", "arrow-row/src/fixed.rs", r"let s = self\.to_bits\(\) as i32;\s*let val = s \^ \(\(\(s >> [0-9]+\) as u32\) >> ([0-9]+)\) as i32;", "int"),
        ("F64_SHIFT2", "arrow-row/src/fixed.rs", r"let s = self\.to_bits\(\) as i64;\s*let val = s \^ \(\(\(s >> [0-9]+\) as u64\) >> ([0-9]+)\) as i64;", "int"),
        ("F16_SHIFT2", "arrow-row/src/fixed.rs", r"let s = self\.to_bits\(\) as i16;\s*let val = s \^ \(\(\(s >> [0-9]+\) as u16\) >> ([0-9]+)\) as i16;", "int"),
        # interval encodings: every component is copied from its own signed `encode()`;
        # the patterns insist on that shape (an edit such as `to_be_bytes()` loses the item)
        ("IVDT_LEN", "arrow-row/src/fixed.rs", r"impl FixedLengthEncoding for IntervalDayTime \{\s*type Encoded = \[u8; (\d+)\];", "int"),
        ("IVDT_DAYS_END", "arrow-row/src/fixed.rs", r"impl FixedLengthEncoding for IntervalDayTime \{\s*type Encoded = \[u8; 8\];\s*fn encode\(self\) -> Self::Encoded \{\s*let mut out = \[0_u8; 8\];\s*out\[\.\.(\d+)\]\.copy_from_slice\(&self\.days\.encode\(\)\);\s*out\[\d+\.\.\]\.copy_from_slice\(&self\.milliseconds\.encode\(\)\);\s*out\s*\}", "int"),
        ("IVDT_MS_START", "arrow-row/src/fixed.rs", r"impl FixedLengthEncoding for IntervalDayTime \{\s*type Encoded = \[u8; 8\];\s*fn encode\(self\) -> Self::Encoded \{\s*let mut out = \[0_u8; 8\];\s*out\[\.\.\d+\]\.copy_from_slice\(&self\.days\.encode\(\)\);\s*out\[(\d+)\.\.\]\.copy_from_slice\(&self\.milliseconds\.encode\(\)\);\s*out\s*\}", "int"),
        ("IVDT_DEC_DAYS_END", "arrow-row/src/fixed.rs", r"impl FixedLengthEncoding for IntervalDayTime \{.*?fn decode\(encoded: Self::Encoded\) -> Self \{\s*Self \{\s*days: i32::decode\(encoded\[\.\.(\d+)\]\.try_into\(\)\.unwrap\(\)\),\s*milliseconds: i32::decode\(encoded\[\d+\.\.\]\.try_into\(\)\.unwrap\(\)\),\s*\}\s*\}", "int"),
        ("IVMDN_LEN", "arrow-row/src/fixed.rs", r"impl FixedLengthEncoding for IntervalMonthDayNano \{\s*type Encoded = \[u8; (\d+)\];", "int"),
        ("IVMDN_MONTHS_END", "arrow-row/src/fixed.rs", r"impl FixedLengthEncoding for IntervalMonthDayNano \{\s*type Encoded = \[u8; 16\];\s*fn encode\(self\) -> Self::Encoded \{\s*let mut out = \[0_u8; 16\];\s*out\[\.\.(\d+)\]\.copy_from_slice\(&self\.months\.encode\(\)\);\s*out\[\d+\.\.\d+\]\.copy_from_slice\(&self\.days\.encode\(\)\);\s*out\[\d+\.\.\]\.copy_from_slice\(&self\.nanoseconds\.encode\(\)\);\s*out\s*\}", "int"),
        ("IVMDN_DAYS_START", "arrow-row/src/fixed.rs", r"impl FixedLengthEncoding for IntervalMonthDayNano \{\s*type Encoded = \[u8; 16\];\s*fn encode\(self\) -> Self::Encoded \{\s*let mut out = \[0_u8; 16\];\s*out\[\.\.\d+\]\.copy_from_slice\(&self\.months\.encode\(\)\);\s*out\[(\d+)\.\.\d+\]\.copy_from_slice\(&self\.days\.encode\(\)\);\s*out\[\d+\.\.\]\.copy_from_slice\(&self\.nanoseconds\.encode\(\)\);\s*out\s*\}", "int"),
        ("IVMDN_DAYS_END", "arrow-row/src/fixed.rs", r"impl FixedLengthEncoding for IntervalMonthDayNano \{\s*type Encoded = \[u8; 16\];\s*fn encode\(self\) -> Self::Encoded \{\s*let mut out = \[0_u8; 16\];\s*out\[\.\.\d+\]\.copy_from_slice\(&self\.months\.encode\(\)\);\s*out\[\d+\.\.(\d+)\]\.copy_from_slice\(&self\.days\.encode\(\)\);\s*out\[\d+\.\.\]\.copy_from_slice\(&self\.nanoseconds\.encode\(\)\);\s*out\s*\}", "int"),
        ("IVMDN_NANOS_START", "arrow-row/src/fixed.rs", r"impl FixedLengthEncoding for IntervalMonthDayNano \{\s*type Encoded = \[u8; 16\];\s*fn encode\(self\) -> Self::Encoded \{\s*let mut out = \[0_u8; 16\];\s*out\[\.\.\d+\]\.copy_from_slice\(&self\.months\.encode\(\)\);\s*out\[\d+\.\.\d+\]\.copy_from_slice\(&self\.days\.encode\(\)\);\s*out\[(\d+)\.\.\]\.copy_from_slice\(&self\.nanoseconds\.encode\(\)\);\s*out\s*\}", "int"),
        # the signed macro itself: `to_be_bytes` then the sign-bit toggle, for exactly these widths
        ("SIGNED_WIDTHS", "arrow-row/src/fixed.rs", r"encode_signed!\((1), i8\);\s*encode_signed!\(2, i16\);\s*encode_signed!\(4, i32\);\s*encode_signed!\(8, i64\);\s*encode_signed!\(16, i128\);\s*encode_signed!\(32, i256\);", "int"),
    ],
}
FUNCTIONS = {}
