"""C11 items the translator (tools/translate.py) extracts from /repo on every run.

Every constant the row-format theorems depend on: block sizes, the continuation byte, the
empty / non-empty / null-value sentinels, both values of `null_sentinel`, the validity byte
of fixed-width fields and the sign-bit mask.  The theorems use the concrete values where
correctness depends on them (sentinel ordering, length bytes < continuation byte), so a
changed constant breaks a proof.
"""
CONSTANTS = {
    "C11": [
        ("BLOCK_SIZE", "arrow-row/src/variable.rs", r"pub const BLOCK_SIZE: usize = ([0-9_xA-Fa-f]+);", "int"),
        ("MINI_BLOCK_COUNT", "arrow-row/src/variable.rs", r"pub const MINI_BLOCK_COUNT: usize = ([0-9_xA-Fa-f]+);", "int"),
        # MINI_BLOCK_SIZE is defined as BLOCK_SIZE / MINI_BLOCK_COUNT: the pattern insists on that shape
        # and captures the divisor; the Lean model computes MINI_BLOCK_SIZE = BLOCK_SIZE / MINI_BLOCK_SIZE_DIVISOR
        ("MINI_BLOCK_SIZE_DIVISOR", "arrow-row/src/variable.rs", r"pub const MINI_BLOCK_COUNT: usize = ([0-9_xA-Fa-f]+);.*?pub const MINI_BLOCK_SIZE: usize = BLOCK_SIZE / MINI_BLOCK_COUNT;", "int"),
        ("BLOCK_CONTINUATION", "arrow-row/src/variable.rs", r"pub const BLOCK_CONTINUATION: u8 = ([0-9_xA-Fa-f]+);", "int"),
        ("EMPTY_SENTINEL", "arrow-row/src/variable.rs", r"pub const EMPTY_SENTINEL: u8 = ([0-9_xA-Fa-f]+);", "int"),
        ("NON_EMPTY_SENTINEL", "arrow-row/src/variable.rs", r"pub const NON_EMPTY_SENTINEL: u8 = ([0-9_xA-Fa-f]+);", "int"),
        ("NULL_VALUE_SENTINEL", "arrow-row/src/variable.rs", r"pub const NULL_VALUE_SENTINEL: u8 = ([0-9_xA-Fa-f]+);", "int"),
        # fn null_sentinel(options) { match options.nulls_first { true => 0, false => 0xFF } }
        ("NULL_SENTINEL_FIRST", "arrow-row/src/lib.rs", r"fn null_sentinel\(options: SortOptions\) -> u8 \{\s*match options\.nulls_first \{\s*true => ([0-9_xA-Fa-f]+),", "int"),
        ("NULL_SENTINEL_LAST", "arrow-row/src/lib.rs", r"fn null_sentinel\(options: SortOptions\) -> u8 \{\s*match options\.nulls_first \{\s*true => [0-9_xA-Fa-f]+,\s*false => ([0-9_xA-Fa-f]+),", "int"),
        # validity byte written by fixed::encode / encode_not_null (`to_write[0] = 1;`)
        ("VALID_BYTE", "arrow-row/src/fixed.rs", r"pub fn encode<T: FixedLengthEncoding>\(.*?if is_valid \{\s*let to_write = &mut data\[\*offset\.\.end_offset\];\s*to_write\[0\] = ([0-9_xA-Fa-f]+);", "int"),
        # sign-bit toggle of encode_signed!
        ("SIGN_MASK", "arrow-row/src/fixed.rs", r"macro_rules! encode_signed \{.*?fn encode\(self\) -> \[u8; \$n\] \{\s*let mut b = self\.to_be_bytes\(\);\s*(?://[^\n]*\n\s*)*b\[0\] \^= ([0-9_xA-Fa-f]+);", "int"),
        # struct / fixed-size-list validity byte
        ("STRUCT_VALID_BYTE", "arrow-row/src/lib.rs", r"rows\.row\(idx\)\s*\},\s*([0-9_xA-Fa-f]+),\s*\),\s*false => \(\*null, null_sentinel\)", "int"),
        ("FSL_VALID_BYTE", "arrow-row/src/list.rs", r"match array\.is_valid\(idx\) \{\s*true => \{\s*data\[\*offset\] = ([0-9_xA-Fa-f]+);", "int"),
        # float transforms: shift amounts of `s ^ (((s >> 31) as u32) >> 1) as i32`
        ("F16_SHIFT", "arrow-row/src/fixed.rs", r"let s = self\.to_bits\(\) as i16;\s*let val = s \^ \(\(\(s >> ([0-9]+)\) as u16\) >> 1\) as i16;", "int"),
        ("F32_SHIFT", "arrow-row/src/fixed.rs", r"let s = self\.to_bits\(\) as i32;\s*let val = s \^ \(\(\(s >> ([0-9]+)\) as u32\) >> 1\) as i32;", "int"),
        ("F64_SHIFT", "arrow-row/src/fixed.rs", r"let s = self\.to_bits\(\) as i64;\s*let val = s \^ \(\(\(s >> ([0-9]+)\) as u64\) >> 1\) as i64;", "int"),
        ("F32_SHIFT2", "arrow-row/src/fixed.rs", r"let s = self\.to_bits\(\) as i32;\s*let val = s \^ \(\(\(s >> [0-9]+\) as u32\) >> ([0-9]+)\) as i32;", "int"),
        ("F64_SHIFT2", "arrow-row/src/fixed.rs", r"let s = self\.to_bits\(\) as i64;\s*let val = s \^ \(\(\(s >> [0-9]+\) as u64\) >> ([0-9]+)\) as i64;", "int"),
        ("F16_SHIFT2", "arrow-row/src/fixed.rs", r"let s = self\.to_bits\(\) as i16;\s*let val = s \^ \(\(\(s >> [0-9]+\) as u16\) >> ([0-9]+)\) as i16;", "int"),
        # interval encodings: every component is copied from its own signed `encode()`;
        # the patterns insist on that shape (an edit such as `to_be_bytes()` loses the item)
        ("IVDT_LEN", "arrow-row/src/fixed.rs", r"impl FixedLengthEncoding for IntervalDayTime \{\s*type Encoded = \[u8; (\d+)\];", "int"),
        ("IVDT_DAYS_END", "arrow-row/src/fixed.rs", r"impl FixedLengthEncoding for IntervalDayTime \{\s*type Encoded = \[u8; 8\];\s*fn encode\(self\) -> Self::Encoded \{\s*let mut out = \[0_u8; 8\];\s*out\[\.\.(\d+)\]\.copy_from_slice\(&self\.days\.encode\(\)\);\s*out\[\d+\.\.\]\.copy_from_slice\(&self\.milliseconds\.encode\(\)\);\s*out\s*\}", "int"),
        ("IVDT_MS_START", "arrow-row/src/fixed.rs", r"impl FixedLengthEncoding for IntervalDayTime \{\s*type Encoded = \[u8; 8\];\s*fn encode\(self\) -> Self::Encoded \{\s*let mut out = \[0_u8; 8\];\s*out\[\.\.\d+\]\.copy_from_slice\(&self\.days\.encode\(\)\);\s*out\[(\d+)\.\.\]\.copy_from_slice\(&self\.milliseconds\.encode\(\)\);\s*out\s*\}", "int"),
        ("IVDT_DEC_DAYS_END", "arrow-row/src/fixed.rs", r"impl FixedLengthEncoding for IntervalDayTime \{.*?fn decode\(encoded: Self::Encoded\) -> Self \{\s*Self \{\s*days: i32::decode\(encoded\[\.\.(\d+)\]\.try_into\(\)\.unwrap\(\)\),\s*milliseconds: i32::decode\(encoded\[\d+\.\.\]\.try_into\(\)\.unwrap\(\)\),\s*\}\s*\}", "int"),
        ("IVMDN_LEN", "arrow-row/src/fixed.rs", r"impl FixedLengthEncoding for IntervalMonthDayNano \{\s*type Encoded = \[u8; (\d+)\];", "int"),
        ("IVMDN_MONTHS_END", "arrow-row/src/fixed.rs", r"impl FixedLengthEncoding for IntervalMonthDayNano \{\s*type Encoded = \[u8; 16\];\s*fn encode\(self\) -> Self::Encoded \{\s*let mut out = \[0_u8; 16\];\s*out\[\.\.(\d+)\]\.copy_from_slice\(&self\.months\.encode\(\)\);\s*out\[\d+\.\.\d+\]\.copy_from_slice\(&self\.days\.encode\(\)\);\s*out\[\d+\.\.\]\.copy_from_slice\(&self\.nanoseconds\.encode\(\)\);\s*out\s*\}", "int"),
        ("IVMDN_DAYS_START", "arrow-row/src/fixed.rs", r"impl FixedLengthEncoding for IntervalMonthDayNano \{\s*type Encoded = \[u8; 16\];\s*fn encode\(self\) -> Self::Encoded \{\s*let mut out = \[0_u8; 16\];\s*out\[\.\.\d+\]\.copy_from_slice\(&self\.months\.encode\(\)\);\s*out\[(\d+)\.\.\d+\]\.copy_from_slice\(&self\.days\.encode\(\)\);\s*out\[\d+\.\.\]\.copy_from_slice\(&self\.nanoseconds\.encode\(\)\);\s*out\s*\}", "int"),
        ("IVMDN_DAYS_END", "arrow-row/src/fixed.rs", r"impl FixedLengthEncoding for IntervalMonthDayNano \{\s*type Encoded = \[u8; 16\];\s*fn encode\(self\) -> Self::Encoded \{\s*let mut out = \[0_u8; 16\];\s*out\[\.\.\d+\]\.copy_from_slice\(&self\.months\.encode\(\)\);\s*out\[\d+\.\.(\d+)\]\.copy_from_slice\(&self\.days\.encode\(\)\);\s*out\[\d+\.\.\]\.copy_from_slice\(&self\.nanoseconds\.encode\(\)\);\s*out\s*\}", "int"),
        ("IVMDN_NANOS_START", "arrow-row/src/fixed.rs", r"impl FixedLengthEncoding for IntervalMonthDayNano \{\s*type Encoded = \[u8; 16\];\s*fn encode\(self\) -> Self::Encoded \{\s*let mut out = \[0_u8; 16\];\s*out\[\.\.\d+\]\.copy_from_slice\(&self\.months\.encode\(\)\);\s*out\[\d+\.\.\d+\]\.copy_from_slice\(&self\.days\.encode\(\)\);\s*out\[(\d+)\.\.\]\.copy_from_slice\(&self\.nanoseconds\.encode\(\)\);\s*out\s*\}", "int"),
        # SHAPE items: guards, statement order and operand sources the model/theorems rely on; the
        # captured literal is incidental, an edit of the surrounding expression loses the item
        ("SHAPE_ENC_ONE", "arrow-row/src/variable.rs", r"let len = if val\.len\(\) <= BLOCK_SIZE \{\s*(1) \+ encode_blocks::<MINI_BLOCK_SIZE>\(&mut out\[1\.\.\], val\)\s*\} else \{\s*let \(initial, rem\) = val\.split_at\(BLOCK_SIZE\);\s*let offset = encode_blocks::<MINI_BLOCK_SIZE>\(&mut out\[1\.\.\], initial\);\s*out\[offset\] = BLOCK_CONTINUATION;\s*1 \+ offset \+ encode_blocks::<BLOCK_SIZE>\(&mut out\[1 \+ offset\.\.\], rem\)\s*\};", "int"),
        ("SHAPE_ENC_ONE_DESC", "arrow-row/src/variable.rs", r"out\[0\] = NON_EMPTY_SENTINEL;.*?if opts\.descending \{(?:\s*//[^\n]*\n)*\s*out\[\.\.len\]\.iter_mut\(\)\.for_each\(\|v\| \*v = !\*v\)\s*\}\s*len\s*\}\s*\}\s*\}.*?fn encode_blocks<const SIZE: usize>\(out: &mut \[u8\], val: &\[u8\]\) -> usize \{\s*let block_count = ceil\(val\.len\(\), SIZE\);\s*let end_offset = block_count \* \(SIZE \+ (1)\);", "int"),
        ("SHAPE_ENC_BLOCKS_TAIL", "arrow-row/src/variable.rs", r"output\[SIZE\] = BLOCK_CONTINUATION;\s*\}\s*if !remainder\.is_empty\(\) \{\s*let start_offset = \(block_count - (1)\) \* \(SIZE \+ 1\);\s*to_write\[start_offset\.\.start_offset \+ remainder\.len\(\)\]\.copy_from_slice\(remainder\);\s*\*to_write\.last_mut\(\)\.unwrap\(\) = remainder\.len\(\) as u8;\s*\} else \{(?:\s*//[^\n]*\n)*\s*\*to_write\.last_mut\(\)\.unwrap\(\) = SIZE as u8;", "int"),
        ("SHAPE_PADDED_LEN", "arrow-row/src/variable.rs", r"fn non_null_padded_length\(len: usize\) -> usize \{\s*if len <= BLOCK_SIZE \{\s*(1) \+ ceil\(len, MINI_BLOCK_SIZE\) \* \(MINI_BLOCK_SIZE \+ 1\)\s*\} else \{(?:\s*//[^\n]*\n)*\s*MINI_BLOCK_COUNT \+ ceil\(len, BLOCK_SIZE\) \* \(BLOCK_SIZE \+ 1\)", "int"),
        ("SHAPE_ENC_EMPTY", "arrow-row/src/variable.rs", r"pub fn encode_empty\(out: &mut \[u8\], opts: SortOptions\) -> usize \{\s*out\[0\] = match opts\.descending \{\s*true => !EMPTY_SENTINEL,\s*false => EMPTY_SENTINEL,\s*\};\s*(1)\s*\}", "int"),
        ("SHAPE_DECODE_GUARD", "arrow-row/src/variable.rs", r"true => \(!NON_EMPTY_SENTINEL, !BLOCK_CONTINUATION\),\s*false => \(NON_EMPTY_SENTINEL, BLOCK_CONTINUATION\),\s*\};\s*if row\[0\] != non_empty_sentinel \{(?:\s*//[^\n]*\n)*\s*return (1);", "int"),
        ("SHAPE_FIXED_DESC", "arrow-row/src/fixed.rs", r"to_write\[0\] = 1;\s*let mut encoded = values\[value_idx\]\.encode\(\);\s*if opts\.descending \{(?:\s*//[^\n]*\n)*\s*encoded\.as_mut\(\)\.iter_mut\(\)\.for_each\(\|v\| \*v = !\*v\)\s*\}\s*to_write\[(1)\.\.\]\.copy_from_slice\(encoded\.as_ref\(\)\)", "int"),
        ("SHAPE_FIXED_NOT_NULL_DESC", "arrow-row/src/fixed.rs", r"to_write\[0\] = 1;\s*let mut encoded = val\.encode\(\);\s*if opts\.descending \{(?:\s*//[^\n]*\n)*\s*encoded\.as_mut\(\)\.iter_mut\(\)\.for_each\(\|v\| \*v = !\*v\)\s*\}\s*to_write\[(1)\.\.\]\.copy_from_slice\(encoded\.as_ref\(\)\);", "int"),
        ("SHAPE_UNSIGNED", "arrow-row/src/fixed.rs", r"macro_rules! encode_unsigned \{.*?fn encode\(self\) -> \[u8; \$n\] \{\s*self\.to_be_bytes\(\)\s*\}.*?encode_unsigned!\((1), u8\);\s*encode_unsigned!\(2, u16\);\s*encode_unsigned!\(4, u32\);\s*encode_unsigned!\(8, u64\);", "int"),
        ("SHAPE_CHILD_OPTS_LIST", "arrow-row/src/lib.rs", r"\| DataType::LargeListView\(f\) => \{(?:\s*//[^\n]*\n)*\s*let options = SortOptions \{\s*descending: false,\s*nulls_first: sort_field\.options\.nulls_first != sort_field\.options\.descending,\s*\};.*?assert_eq!\(fields\.len\(\), (2)\);", "int"),
        ("SHAPE_CHILD_OPTS_REE", "arrow-row/src/lib.rs", r"DataType::RunEndEncoded\(_, values\) => \{(?:\s*//[^\n]*\n)*\s*let options = SortOptions \{\s*descending: false,\s*nulls_first: sort_field\.options\.nulls_first != sort_field\.options\.descending,\s*\};.*?assert_eq!\(fields\.len\(\), (2)\);", "int"),
        ("SHAPE_CHILD_OPTS_MAP", "arrow-row/src/lib.rs", r"DataType::Map\(f, _\) => \{(?:\s*//[^\n]*\n)*\s*let options = SortOptions \{\s*descending: false,\s*nulls_first: sort_field\.options\.nulls_first != sort_field\.options\.descending,\s*\};.*?assert_eq!\(fields\.len\(\), (2)\);", "int"),
        ("SHAPE_CHILD_OPTS_STRUCT", "arrow-row/src/lib.rs", r"DataType::Struct\(f\) => \{\s*let sort_fields = f\s*\.iter\(\)\s*\.map\(\|x\| SortField::new_with_options\(x\.data_type\(\)\.clone\(\), sort_field\.options\)\)\s*\.collect\(\);.*?new_null_array\(x\.data_type\(\), (1)\)", "int"),
        ("SHAPE_CHILD_OPTS_FSL", "arrow-row/src/lib.rs", r"DataType::FixedSizeList\(f, _\) => \{\s*let field = SortField::new_with_options\(f\.data_type\(\)\.clone\(\), sort_field\.options\);\s*let converter = RowConverter::new\(vec!\[field\]\)\?;\s*Ok\(Self::List\(converter\)\)\s*\}.*?new_null_array\(x\.data_type\(\), (1)\)", "int"),
        ("SHAPE_CHILD_OPTS_DICT", "arrow-row/src/lib.rs", r"DataType::Dictionary\(_, values\) => \{\s*let sort_field =\s*SortField::new_with_options\(values\.as_ref\(\)\.clone\(\), sort_field\.options\);\s*let converter = RowConverter::new\(vec!\[sort_field\]\)\?;\s*let null_array = new_null_array\(values\.as_ref\(\), (1)\);", "int"),
        ("SHAPE_LIST_ENCODE_ONE", "arrow-row/src/list.rs", r"None => super::variable::encode_null\(out, opts\),\s*Some\(range\) if range\.start == range\.end => super::variable::encode_empty\(out, opts\),\s*Some\(range\) => \{\s*let mut offset = (0);\s*for i in range \{\s*let row = rows\.row\(i\);\s*offset \+= super::variable::encode_one\(&mut out\[offset\.\.\], Some\(row\.data\), opts\);\s*\}\s*offset \+= super::variable::encode_empty\(&mut out\[offset\.\.\], opts\);\s*offset", "int"),
        ("SHAPE_STRUCT_ENCODE", "arrow-row/src/lib.rs", r"false => \(\*null, null_sentinel\),\s*\};\s*let end_offset = \*offset \+ (1) \+ row\.as_ref\(\)\.len\(\);\s*data\[\*offset\] = sentinel;\s*data\[\*offset \+ 1\.\.end_offset\]\.copy_from_slice\(row\.as_ref\(\)\);", "int"),
        ("SHAPE_REE_ENCODE", "arrow-row/src/run.rs", r"let bytes_written = variable::encode_one\(out, Some\(rows\.row\(physical_idx\)\.data\), opts\);\s*offsets\[offset_idx\] \+= bytes_written;(?:\s*//[^\n]*\n)*\s*for i in (1)\.\.iteration_count \{", "int"),
        ("SHAPE_ROWS_PUSH", "arrow-row/src/lib.rs", r"pub fn push\(&mut self, row: Row<'_>\) \{.*?self\.buffer\.extend_from_slice\(row\.data\);\s*self\.offsets\.push\(self\.buffer\.len\(\)\)\s*\}.*?self\.offsets\.truncate\((1)\);\s*self\.buffer\.clear\(\);", "int"),
        ("SHAPE_UNION_ENCODE", "arrow-row/src/lib.rs", r"data\[\*offset\] = type_id_byte;\s*let child_start = \*offset \+ (1);\s*let child_end = child_start \+ child_bytes\.len\(\);\s*data\[child_start\.\.child_end\]\.copy_from_slice\(child_bytes\);\s*if opts\.descending \{(?:\s*//[^\n]*\n)*\s*data\[child_start\.\.child_end\]\s*\.iter_mut\(\)\s*\.for_each\(\|v\| \*v = !\*v\);\s*\}\s*\*offset = child_end;", "int"),
        ("SHAPE_FROM_BINARY", "arrow-row/src/lib.rs", r"let mut buffer = values\.into_vec\(\)\.unwrap_or_else\(\|values\| values\.to_vec\(\)\);(?:\s*//[^\n]*\n)*\s*buffer\.truncate\(offsets\[offsets\.len\(\) - (1)\]\);", "int"),
        # the signed macro itself: `to_be_bytes` then the sign-bit toggle, for exactly these widths
        ("SIGNED_WIDTHS", "arrow-row/src/fixed.rs", r"encode_signed!\((1), i8\);\s*encode_signed!\(2, i16\);\s*encode_signed!\(4, i32\);\s*encode_signed!\(8, i64\);\s*encode_signed!\(16, i128\);\s*encode_signed!\(32, i256\);", "int"),
    ],
}
FUNCTIONS = {}
