"""C08 items the translator (tools/translate.py) extracts from /repo on every run.

CONSTANTS[group] = [(lean_name, file relative to /repo, regex with ONE group, kind)]
kind: "int" | "intlist" | "f64ratio"
"""
_T = "parquet/src/parquet_thrift.rs"
_V = "arrow-avro/src/reader/vlq.rs"
_B = "parquet/src/util/bit_util.rs"

CONSTANTS = {
    "C08": [
        # ---- thrift compact protocol: read_vlq
        ("THRIFT_VLQ_CONT", _T, r"fn read_vlq\(&mut self\).*?if byte & (0x80) == 0 \{\s*return Ok\(byte as u64\);", "int"),
        ("THRIFT_VLQ_PAYLOAD", _T, r"fn read_vlq\(&mut self\).*?in_progress \|= \(\(byte & (0x7F)\) as u64\)\.wrapping_shl\(shift\);", "int"),
        ("THRIFT_VLQ_SHIFT0", _T, r"fn read_vlq\(&mut self\).*?let mut shift = (7);", "int"),
        ("THRIFT_VLQ_SHIFT_STEP", _T, r"fn read_vlq\(&mut self\).*?shift \+= (7);", "int"),
        # ---- thrift list header
        ("THRIFT_LIST_TYPE_MASK", _T, r"ElementType::try_from\(header & (0x0f)\)\?", "int"),
        ("THRIFT_LIST_SIZE_SHIFT", _T, r"let possible_element_count = \(header & 0xF0\) >> (4);", "int"),
        ("THRIFT_LIST_SIZE_MASK", _T, r"let possible_element_count = \(header & (0xF0)\) >> 4;", "int"),
        ("THRIFT_LIST_LONG_FORM", _T, r"if possible_element_count != (15) \{", "int"),
        # element type ids (enum ElementType) and the accepted range of TryFrom<u8>
        ("THRIFT_ELEM_BOOL", _T, r"enum ElementType \{\s*Bool = (2),", "int"),
        ("THRIFT_ELEM_BYTE", _T, r"enum ElementType \{[^}]*?Byte = (3),", "int"),
        ("THRIFT_ELEM_STRUCT", _T, r"enum ElementType \{[^}]*?Struct = (12),", "int"),
        ("THRIFT_ELEM_UUID", _T, r"enum ElementType \{[^}]*?Uuid = (13),", "int"),
        ("THRIFT_ELEM_BOOL_ALT", _T, r"impl TryFrom<u8> for ElementType \{.*?(1) \| 2 => Ok\(Self::Bool\),", "int"),
        ("THRIFT_FIELD_UUID", _T, r"enum FieldType \{[^}]*?Uuid = (13),", "int"),
        ("THRIFT_FIELD_STOP", _T, r"enum FieldType \{\s*Stop = (0),", "int"),
        ("THRIFT_SKIP_DEPTH", _T, r"const DEFAULT_SKIP_DEPTH: i8 = (64);", "int"),
        # marker: read_thrift_vec still reserves `list_ident.size` elements before reading any
        ("THRIFT_VEC_RESERVES_SIZE_FROM_INPUT", _T,
         r"let mut res = Vec::with_capacity\(list_ident\.size as usize\);\s*for _ in (0)\.\.list_ident\.size \{", "int"),
        # ---- Avro varints
        ("AVRO_FAST_LEN", _V, r"if let Some\(array\) = buf\.get\(\.\.(10)\) \{\s*return read_varint_array", "int"),
        ("AVRO_FAST_LOOP", _V, r"for \(idx, b\) in buf\.into_iter\(\)\.take\((9)\)\.enumerate\(\)", "int"),
        ("AVRO_FAST_LAST_LIMIT", _V, r"\(b < (0x02)\)\.then_some\(\(in_progress, 10\)\)", "int"),
        ("AVRO_FAST_SUB", _V, r"in_progress -= (0x80) << \(7 \* idx\);", "int"),
        ("AVRO_SLOW_MAX", _V, r"for \(count, _byte\) in buf\.iter\(\)\.take\((10)\)\.enumerate\(\)", "int"),
        ("AVRO_SLOW_LAST_IDX", _V, r"return \(count != (9) \|\| byte < 2\)\.then_some", "int"),
        ("AVRO_SLOW_LAST_LIMIT", _V, r"return \(count != 9 \|\| byte < (2)\)\.then_some", "int"),
        ("AVRO_STREAM_LAST_SHIFT", _V, r"if self\.shift == (63) && byte >= 0x02 \{", "int"),
        ("AVRO_STREAM_LAST_LIMIT", _V, r"if self\.shift == 63 && byte >= (0x02) \{", "int"),
        ("AVRO_STREAM_SHIFT_STEP", _V, r"self\.shift \+= (7);", "int"),
        # ---- parquet BitReader::get_vlq_int
        ("MAX_VLQ_BYTE_LEN", _B, r"pub const MAX_VLQ_BYTE_LEN: usize = (\d+);", "int"),
        ("BITREADER_VLQ_STEP", _B, r"pub fn get_vlq_int\(&mut self\).*?shift \+= (7);\s*assert!\(\s*shift <= MAX_VLQ_BYTE_LEN \* 7,", "int"),
        # ---- IPC
        ("IPC_MAX_PREALLOC_BYTES", "arrow-ipc/src/reader.rs", r"const MAX_PREALLOC_BYTES: usize = ([^;]+);", "int"),
    ],
}
FUNCTIONS = {}
