"""C08 items the translator (tools/translate.py) extracts from /repo on every run.

CONSTANTS[group] = [(lean_name, file relative to /repo, regex with ONE group, kind)]
kind: "int" | "intlist" | "f64ratio"
"""
_T = "parquet/src/parquet_thrift.rs"
_V = "arrow-avro/src/reader/vlq.rs"
_B = "parquet/src/util/bit_util.rs"

CONSTANTS = {
    "C08": [
        # ---- thrift compact protocol: read_vlq
        ("THRIFT_VLQ_CONT", _T, r"fn read_vlq\(&mut self\).*?if byte & (0x80) == 0 \{\s*return Ok\(byte as u64\);", "int"),
        ("THRIFT_VLQ_PAYLOAD", _T, r"fn read_vlq\(&mut self\).*?in_progress \|= \(\(byte & (0x7F)\) as u64\)\.wrapping_shl\(shift\);", "int"),
        ("THRIFT_VLQ_SHIFT0", _T, r"fn read_vlq\(&mut self\).*?let mut shift = (7);", "int"),
        ("THRIFT_VLQ_SHIFT_STEP", _T, r"fn read_vlq\(&mut self\).*?shift \+= (7);", "int"),
        # ---- thrift list header
        ("THRIFT_LIST_TYPE_MASK", _T, r"ElementType::try_from\(header & (0x0f)\)\?", "int"),
        ("THRIFT_LIST_SIZE_SHIFT", _T, r"let possible_element_count = \(header & 0xF0\) >> (4);", "int"),
        ("THRIFT_LIST_SIZE_MASK", _T, r"let possible_element_count = \(header & (0xF0)\) >> 4;", "int"),
        ("THRIFT_LIST_LONG_FORM", _T, r"if possible_element_count != (15) \{", "int"),
        # element type ids (enum ElementType) and the accepted range of TryFrom<u8>
        ("THRIFT_ELEM_BOOL", _T, r"enum ElementType \{\s*Bool = (2),", "int"),
        ("THRIFT_ELEM_BYTE", _T, r"enum ElementType \{[^}]*?Byte = (3),", "int"),
        ("THRIFT_ELEM_STRUCT", _T, r"enum ElementType \{[^}]*?Struct = (12),", "int"),
        ("THRIFT_ELEM_UUID", _T, r"enum ElementType \{[^}]*?Uuid = (13),", "int"),
        ("THRIFT_ELEM_BOOL_ALT", _T, r"impl TryFrom<u8> for ElementType \{.*?(1) \| 2 => Ok\(Self::Bool\),", "int"),
        ("THRIFT_FIELD_UUID", _T, r"enum FieldType \{[^}]*?Uuid = (13),", "int"),
        ("THRIFT_FIELD_STOP", _T, r"enum FieldType \{\s*Stop = (0),", "int"),
        ("THRIFT_SKIP_DEPTH", _T, r"const DEFAULT_SKIP_DEPTH: i8 = (64);", "int"),
        # read_thrift_vec reserves at most MAX_LIST_PREALLOC elements before reading any
        ("THRIFT_LIST_PREALLOC_MAX", _T, r"const MAX_LIST_PREALLOC: usize = (\d+);", "int"),
        ("SHAPE_THRIFT_VEC_PREALLOC", _T,
         r"let mut res = Vec::with_capacity\(list_prealloc\(&list_ident\)\);()\s*for _ in 0\.\.list_ident\.size \{", "intlist"),
        ("SHAPE_THRIFT_LIST_PREALLOC", _T, r"\(list_ident\.size\.max\(0\) as usize\)\.min\(MAX_LIST_PREALLOC\)()", "intlist"),
        # ---- Avro varints
        ("AVRO_FAST_LEN", _V, r"if let Some\(array\) = buf\.get\(\.\.(10)\) \{\s*return read_varint_array", "int"),
        ("AVRO_FAST_LOOP", _V, r"for \(idx, b\) in buf\.into_iter\(\)\.take\((9)\)\.enumerate\(\)", "int"),
        ("AVRO_FAST_LAST_LIMIT", _V, r"\(b < (0x02)\)\.then_some\(\(in_progress, 10\)\)", "int"),
        ("AVRO_FAST_SUB", _V, r"in_progress -= (0x80) << \(7 \* idx\);", "int"),
        ("AVRO_SLOW_MAX", _V, r"for \(count, _byte\) in buf\.iter\(\)\.take\((10)\)\.enumerate\(\)", "int"),
        ("AVRO_SLOW_LAST_IDX", _V, r"return \(count != (9) \|\| byte < 2\)\.then_some", "int"),
        ("AVRO_SLOW_LAST_LIMIT", _V, r"return \(count != 9 \|\| byte < (2)\)\.then_some", "int"),
        ("AVRO_STREAM_LAST_SHIFT", _V, r"if self\.shift == (63) && byte >= 0x02 \{", "int"),
        ("AVRO_STREAM_LAST_LIMIT", _V, r"if self\.shift == 63 && byte >= (0x02) \{", "int"),
        ("AVRO_STREAM_SHIFT_STEP", _V, r"self\.shift \+= (7);", "int"),
        # ---- parquet BitReader::get_vlq_int
        ("MAX_VLQ_BYTE_LEN", _B, r"pub const MAX_VLQ_BYTE_LEN: usize = (\d+);", "int"),
        ("BITREADER_VLQ_STEP", _B, r"pub fn get_vlq_int\(&mut self\).*?if shift >= MAX_VLQ_BYTE_LEN \* 7 \{\s*return None;\s*\}\s*v \|= \(\(byte & 0x7F\) as i64\) << shift;\s*shift \+= (7);", "int"),
        # ---- SHAPE items: the guard / operand structure the theorems rely on.  An `intlist` item with an
        # empty group only records that the expression still has this shape (LOST otherwise).
        ("SHAPE_BUFFER_SLICE_ASSERT", "arrow-buffer/src/buffer/immutable.rs",
         r"pub fn slice_with_length\(&self, offset: usize, length: usize\) -> Self \{\s*assert!\(\s*offset\.saturating_add\(length\) <= self\.length,()", "intlist"),
        ("SHAPE_IPC_READ_BUFFER", "arrow-ipc/src/reader.rs",
         r"let in_bounds = offset >= 0\s*&& length >= 0\s*&& \(offset as u64\)\.saturating_add\(length as u64\) <= a_data\.len\(\) as u64;\s*if !in_bounds \{\s*return Err\(()", "intlist"),
        ("SHAPE_AVRO_BLOCK_RESERVE", "arrow-avro/src/reader/block.rs",
         r"self\.in_progress\s*\.data\s*\.reserve\(self\.bytes_remaining\.min\(buf\.len\(\)\)\);()", "intlist"),
        ("SHAPE_AVRO_BLOCK_COUNT_SIGN", "arrow-avro/src/reader/block.rs",
         r"self\.in_progress\.count = c\.try_into\(\)\.map_err\(()", "intlist"),
        ("SHAPE_AVRO_BLOCK_SIZE_SIGN", "arrow-avro/src/reader/block.rs",
         r"self\.bytes_remaining = c\.try_into\(\)\.map_err\(()", "intlist"),
        ("SHAPE_AVRO_GET_BYTES_BOUND", "arrow-avro/src/reader/cursor.rs",
         r"if self\.buf\.len\(\) < len \{\s*return Err\(AvroError::EOF\(\"Unexpected EOF reading bytes\"()", "intlist"),
        ("SHAPE_AVRO_FAST_DISPATCH", _V, r"if first < (0x80) \{\s*return Some\(\(first as u64, 1\)\);", "int"),
        ("SHAPE_AVRO_STREAM_ERR_BEFORE_CONSUME", _V,
         r"\"Malformed Avro varint: too many continuation bytes\"\.to_string\(\),\s*\)\);\s*\}\s*\*buf = &buf\[(1)\.\.\];", "int"),
        ("SHAPE_TRY_PUSH_CHAR_BOUNDARY", "parquet/src/arrow/buffer/offset_buffer.rs", r"if \(b as i8\) < -(0x40) \{", "int"),
        ("SHAPE_THRIFT_SKIP_BOOL_NO_DATA", _T, r"FieldType::BooleanFalse \| FieldType::BooleanTrue => Ok\(\(\)\),()", "intlist"),
        ("SHAPE_THRIFT_SKIP_BOOL_LIST_BYTES", _T,
         r"let list_ident = self\.read_list_begin\(\)\?;\s*if list_ident\.element_type == ElementType::Bool \{\s*(?://[^\n]*\n\s*)*return self\.skip_bytes\(list_ident\.size as usize\);()", "intlist"),
        ("SHAPE_THRIFT_DELTA_CHECKED_ADD", _T, r"last_field_id\.checked_add\(field_delta as i16\)\.ok_or\(()", "intlist"),
        ("SHAPE_THRIFT_LIST_SIZE_I32", _T, r"i32::try_from\(self\.read_vlq\(\)\?\)\?()\s*\};\s*Ok\(ListIdentifier \{", "intlist"),
        ("SHAPE_THRIFT_LIST_EMPTY_HEADER", _T, r"if header == (0) \{\s*return Ok\(ListIdentifier \{\s*element_type: ElementType::Byte,\s*size: 0,", "int"),
        ("SHAPE_THRIFT_STOP_IGNORES_DELTA", _T, r"if field_type & 0xf == (0) \{\s*return Ok\(FieldIdentifier \{\s*field_type: FieldType::Stop,", "int"),
        ("SHAPE_ZIGZAG_THRIFT", _T, r"Ok\(\(val >> (1)\) as i64 \^ -\(\(val & 1\) as i64\)\)", "int"),
        ("SHAPE_ZIGZAG_AVRO_CURSOR", "arrow-avro/src/reader/cursor.rs", r"let val = self\.read_vlq\(\)\?;\s*Ok\(\(val >> (1)\) as i64 \^ -\(\(val & 1\) as i64\)\)", "int"),
        ("SHAPE_ZIGZAG_AVRO_STREAM", _V, r"return Ok\(Some\(\(val >> (1)\) as i64 \^ -\(\(val & 1\) as i64\)\)\);", "int"),
        ("SHAPE_ZIGZAG_BITREADER", _B, r"\(u >> (1)\) as i64 \^ -\(\(u & 1\) as i64\)", "int"),
        ("SHAPE_DELTA_BLOCK_MULTIPLE", "parquet/src/encodings/decoding.rs", r"if !self\.block_size\.is_multiple_of\((128)\) \{", "int"),
        ("SHAPE_DELTA_MINIBLOCK_MULTIPLE", "parquet/src/encodings/decoding.rs", r"if !self\.values_per_mini_block\.is_multiple_of\((32)\) \{", "int"),
        # ---- IPC
        ("IPC_MAX_PREALLOC_BYTES", "arrow-ipc/src/reader.rs", r"const MAX_PREALLOC_BYTES: usize = ([^;]+);", "int"),
    ],
}
FUNCTIONS = {}
