"""C13 items the translator (tools/translate.py) extracts from /repo on every run.

CONSTANTS[group] = [(lean_name, file relative to /repo, regex with ONE group, kind)]
"""
_D = "arrow-data/src/decimal.rs"
_S = "arrow-schema/src/datatype.rs"
_T = "arrow-array/src/temporal_conversions.rs"
_CD = "arrow-cast/src/cast/decimal.rs"
_CM = "arrow-cast/src/cast/mod.rs"
_PA = "arrow-array/src/array/primitive_array.rs"
CONSTANTS = {
    "C13": [
        # `MAX_FOR_EACH_PRECISION[k] + 1` is the power of ten used by make_upscaler / make_downscaler /
        # decimal_pow; `[p]` and `MIN[p]` are the bounds of is_valid_decimal_precision
        ("MAX_DECIMAL32", _D, r"pub const MAX_DECIMAL32_FOR_EACH_PRECISION: \[i32; 10\] = \[(.*?)\];", "intlist"),
        ("MIN_DECIMAL32", _D, r"pub const MIN_DECIMAL32_FOR_EACH_PRECISION: \[i32; 10\] = \[(.*?)\];", "intlist"),
        ("MAX_DECIMAL64", _D, r"pub const MAX_DECIMAL64_FOR_EACH_PRECISION: \[i64; 19\] = \[(.*?)\];", "intlist"),
        ("MIN_DECIMAL64", _D, r"pub const MIN_DECIMAL64_FOR_EACH_PRECISION: \[i64; 19\] = \[(.*?)\];", "intlist"),
        ("MAX_DECIMAL128", _D, r"pub const MAX_DECIMAL128_FOR_EACH_PRECISION: \[i128; 39\] = \[(.*?)\];", "intlist"),
        ("MIN_DECIMAL128", _D, r"pub const MIN_DECIMAL128_FOR_EACH_PRECISION: \[i128; 39\] = \[(.*?)\];", "intlist"),
        ("DECIMAL256_TABLE_LEN", _D, r"pub const MAX_DECIMAL256_FOR_EACH_PRECISION: \[i256; (\d+)\] =", "int"),
        ("DECIMAL32_MAX_PRECISION", _S, r"pub const DECIMAL32_MAX_PRECISION: u8 = (\d+);", "int"),
        ("DECIMAL64_MAX_PRECISION", _S, r"pub const DECIMAL64_MAX_PRECISION: u8 = (\d+);", "int"),
        ("DECIMAL128_MAX_PRECISION", _S, r"pub const DECIMAL128_MAX_PRECISION: u8 = (\d+);", "int"),
        ("DECIMAL256_MAX_PRECISION", _S, r"pub const DECIMAL256_MAX_PRECISION: u8 = (\d+);", "int"),
        ("DECIMAL32_MAX_SCALE", _S, r"pub const DECIMAL32_MAX_SCALE: i8 = (\d+);", "int"),
        ("DECIMAL64_MAX_SCALE", _S, r"pub const DECIMAL64_MAX_SCALE: i8 = (\d+);", "int"),
        ("DECIMAL128_MAX_SCALE", _S, r"pub const DECIMAL128_MAX_SCALE: i8 = (\d+);", "int"),
        ("DECIMAL256_MAX_SCALE", _S, r"pub const DECIMAL256_MAX_SCALE: i8 = (\d+);", "int"),
        # the chunk size of parse_string_to_decimal_native
        ("MAX_CHUNK_DIGITS", "arrow-cast/src/cast/decimal.rs", r"const MAX_CHUNK_DIGITS: usize = (\d+);", "int"),
        # unit multiples used by the temporal casts
        ("MILLISECONDS", _T, r"pub const MILLISECONDS: i64 = ([^;]+);", "int"),
        ("MICROSECONDS", _T, r"pub const MICROSECONDS: i64 = ([^;]+);", "int"),
        ("NANOSECONDS", _T, r"pub const NANOSECONDS: i64 = ([^;]+);", "int"),
        ("SECONDS_IN_DAY", _T, r"pub const SECONDS_IN_DAY: i64 = ([^;]+);", "int"),
        # ---- SHAPE items: the exact text of the guard / rounding / check expressions the theorems
        # are about.  Each regex spells the expression out and then captures the next number in the
        # file (the value is irrelevant); any edit of the expression makes the item LOST, which
        # breaks the obligation `source_shapes_present`.
        ("SHAPE_UPSCALE_INFALLIBLE", _CD, r"let is_infallible_cast = std::mem::size_of::<I::Native>\(\) <= std::mem::size_of::<O::Native>\(\)\s*&& \(input_precision as i16\) \+ \(delta_scale as i16\) <= \(output_precision as i16\);\s*let f_infallible = is_infallible_cast\s*\.then_some\(move \|x\| O::Native::from_decimal\(x\)\.unwrap\(\)\.mul_wrapping\(mul\)\);[\s\S]*?(\d+)", "int"),
        ("SHAPE_UPSCALE_FALLIBLE", _CD, r"let f_fallible = move \|x\| O::Native::from_decimal\(x\)\?\.mul_checked\(mul\)\.ok\(\);[\s\S]*?(\d+)", "int"),
        ("SHAPE_DOWNSCALE_ROUND", _CD, r"let d = x\.div_wrapping\(div\);\s*let r = x\.mod_wrapping\(div\);\s*// Round result\s*let adjusted = match x >= I::Native::ZERO \{\s*true if r >= half => d\.add_wrapping\(I::Native::ONE\),\s*false if r <= half_neg => d\.sub_wrapping\(I::Native::ONE\),\s*_ => d,\s*\};\s*O::Native::from_decimal\(adjusted\)[\s\S]*?(\d+)", "int"),
        ("SHAPE_DOWNSCALE_INFALLIBLE", _CD, r"let is_infallible_cast = std::mem::size_of::<I::Native>\(\) <= std::mem::size_of::<O::Native>\(\)\s*&& \(input_precision as i16\) - \(delta_scale as i16\) < \(output_precision as i16\);\s*let f_infallible = is_infallible_cast\.then_some\(move \|x\| f_fallible\(x\)\.unwrap\(\)\);[\s\S]*?(\d+)", "int"),
        ("SHAPE_DOWNSCALE_HALF", _CD, r"let div = max\.add_wrapping\(I::Native::ONE\);\s*let half = div\.div_wrapping\(I::Native::ONE\.add_wrapping\(I::Native::ONE\)\);\s*let half_neg = half\.neg_wrapping\(\);[\s\S]*?(\d+)", "int"),
        ("SHAPE_APPLY_DECIMAL_CAST", _CD, r"let array = if let Some\(f_infallible\) = f_infallible \{\s*array\.unary\(f_infallible\)\s*\} else if cast_options\.safe \{\s*array\.unary_opt\(\|x\| \{\s*f_fallible\(x\)\.filter\(\|v\| O::is_valid_decimal_precision\(\*v, output_precision\)\)\s*\}\)\s*\} else \{[\s\S]*?array\.try_unary\(\|x\| \{\s*let v = f_fallible\(x\)\.ok_or_else\(\|\| error\(x\)\)\?;\s*O::validate_decimal_precision\(v, output_precision, output_scale\)\.map\(\|\(\)\| v\)[\s\S]*?(\d+)", "int"),
        ("SHAPE_SAME_TYPE_SHORTCUT", _CD, r"if input_scale == output_scale && input_precision <= output_precision \{\s*array\.clone\(\)\s*\} else if input_scale <= output_scale \{[\s\S]*?(\d+)", "int"),
        ("SHAPE_FLOAT_TO_DECIMAL", _CD, r"D::Native::from_f64\(\(mul \* input\)\.round\(\)\)\s*\}[\s\S]*?(\d+)", "int"),
        ("SHAPE_FLOAT_MUL", _CD, r"let mul = 10_f64\.powi\(scale as i32\);[\s\S]*?(\d+)", "int"),
        ("SHAPE_DEC_TO_INT_DIV", _CD, r"let v = array\s*\.value\(i\)\s*\.div_checked\(div\)\s*\.ok\(\)\s*\.and_then\(<T::Native as NumCast>::from::<D::Native>\);[\s\S]*?(\d+)", "int"),
        ("SHAPE_INT_TO_DEC_SAFE", _CM, r"true => array\.unary_opt::<_, D>\(\|v\| \{\s*let v = integer_to_decimal_native::<_, M>\(v\)\s*\.and_then\(\|v\| v\.mul_checked\(scale_factor\)\.ok\(\)\)\?;\s*\(D::is_valid_decimal_precision\(v, precision\)\)\.then_some\(v\)\s*\}\),[\s\S]*?(\d+)", "int"),
        ("SHAPE_INT_TO_DEC_STRICT", _CM, r"false => array\.try_unary::<_, D, _>\(\|v\| \{\s*let v = integer_to_decimal_native::<_, M>\(v\)\s*\.ok_or_else\(\|\| overflow\(v\)\)\s*\.and_then\(\|v\| v\.mul_checked\(scale_factor\)\)\?;\s*D::validate_decimal_precision\(v, precision, scale\)\.map\(\|\(\)\| v\)\s*\}\)\?,\s*\}\s*\};[\s\S]*?(\d+)", "int"),
        ("SHAPE_INT_TO_DEC_DISPATCH", _CM, r"\}\)\?;\s*match cast_options\.safe \{\s*true => array\.unary_opt::<_, D>\(\|v\| \{\s*let v = integer_to_decimal_native[\s\S]*?(\d+)", "int"),
        ("SHAPE_NUMERIC_CAST", _CM, r"if cast_options\.safe \{\s*// If the value can't be casted to the `TO::Native`, return null\s*Ok\(Arc::new\(numeric_cast::<FROM, TO>\(\s*from\.as_primitive::<FROM>\(\),\s*\)\)\)\s*\} else \{\s*// If the value can't be casted to the `TO::Native`, return error\s*Ok\(Arc::new\(try_numeric_cast::<FROM, TO>\([\s\S]*?(\d+)", "int"),
        ("SHAPE_NUM_CAST", _CM, r"num_traits::cast::cast::<I, O>\(value\)[\s\S]*?(\d+)", "int"),
        ("SHAPE_NUMERIC_UNARY_OPT", _CM, r"from\.unary_opt::<_, R>\(num_cast::<T::Native, R::Native>\)[\s\S]*?(\d+)", "int"),
        ("SHAPE_TS_UNIT_CHANGE", _CM, r"Ordering::Greater => \{\s*let divisor = from_size / to_size;\s*time_array\.unary::<_, Int64Type>\(\|o\| o / divisor\)\s*\}\s*Ordering::Equal => time_array\.clone\(\),\s*Ordering::Less => \{\s*let mul = to_size / from_size;\s*if cast_options\.safe \{\s*time_array\.unary_opt::<_, Int64Type>\(\|o\| o\.checked_mul\(mul\)\)\s*\} else \{\s*time_array\.try_unary::<_, Int64Type, _>\(\|o\| o\.mul_checked\(mul\)\)\?[\s\S]*?(\d+)", "int"),
        ("SHAPE_DATE64_TS_CHECKED", _CM, r"date_array\.unary_opt::<_, TimestampMicrosecondType>\(\|x\| \{\s*x\.checked_mul\(MICROSECONDS / MILLISECONDS\)[\s\S]*?(\d+)", "int"),
        ("SHAPE_UNARY_OPT", _PA, r"match op\(unsafe \{ self\.value_unchecked\(idx\) \}\) \{\s*Some\(v\) => unsafe \{ \*slice\.get_unchecked_mut\(idx\) = v \},\s*None => \{\s*out_null_count \+= 1;\s*null_builder\.set_bit\(idx, false\);[\s\S]*?(\d+)", "int"),
        ("SHAPE_TRY_UNARY", _PA, r"unsafe \{ \*slice\.get_unchecked_mut\(idx\) = op\(self\.value_unchecked\(idx\)\)\? \};\s*Ok::<_, E>\(\(\)\)\s*\};\s*match &nulls \{\s*Some\(nulls\) => nulls\.try_for_each_valid_idx\(f\)\?,\s*None => \(0\.\.len\)\.try_for_each\(f\)\?,[\s\S]*?(\d+)", "int"),
        ("SHAPE_PARSER_PRIMITIVE", "arrow-cast/src/parse.rs", r"match atoi::FromRadix10SignedChecked::from_radix_10_signed_checked\(raw_bytes\) \{\s*\(Some\(n\), x\) if x == raw_bytes\.len\(\) => Some\(n\),[\s\S]*?(\d+)", "int"),
        # run-end "expand" arm: take the logical window FIRST, then cast the taken rows
        ("SHAPE_REE_TAKE_THEN_CAST", "arrow-cast/src/cast/run_array.rs", r"_ => \{\s*let values = run_array\.values\(\);\s*let len = run_array\.len\(\);\s*let offset = run_array\.offset\(\);[\s\S]*?let taken = take\(&values, &Int32Array::from_iter_values\(indices\), None\)\?;\s*if taken\.data_type\(\) != to_type \{\s*cast_with_options\(taken\.as_ref\(\), to_type, cast_options\)\s*\} else \{\s*Ok\(taken\)[\s\S]*?(\d+)", "int"),
        ("SHAPE_VALID_PRECISION", _D, r"precision <= DECIMAL128_MAX_PRECISION\s*&& value >= MIN_DECIMAL128_FOR_EACH_PRECISION\[precision as usize\]\s*&& value <= MAX_DECIMAL128_FOR_EACH_PRECISION\[precision as usize\][\s\S]*?(\d+)", "int"),
    ],
}
FUNCTIONS = {}
