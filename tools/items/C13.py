"""C13 items the translator (tools/translate.py) extracts from /repo on every run.

CONSTANTS[group] = [(lean_name, file relative to /repo, regex with ONE group, kind)]
"""
_D = "arrow-data/src/decimal.rs"
_S = "arrow-schema/src/datatype.rs"
_T = "arrow-array/src/temporal_conversions.rs"
CONSTANTS = {
    "C13": [
        # `MAX_FOR_EACH_PRECISION[k] + 1` is the power of ten used by make_upscaler / make_downscaler /
        # decimal_pow; `[p]` and `MIN[p]` are the bounds of is_valid_decimal_precision
        ("MAX_DECIMAL32", _D, r"pub const MAX_DECIMAL32_FOR_EACH_PRECISION: \[i32; 10\] = \[(.*?)\];", "intlist"),
        ("MIN_DECIMAL32", _D, r"pub const MIN_DECIMAL32_FOR_EACH_PRECISION: \[i32; 10\] = \[(.*?)\];", "intlist"),
        ("MAX_DECIMAL64", _D, r"pub const MAX_DECIMAL64_FOR_EACH_PRECISION: \[i64; 19\] = \[(.*?)\];", "intlist"),
        ("MIN_DECIMAL64", _D, r"pub const MIN_DECIMAL64_FOR_EACH_PRECISION: \[i64; 19\] = \[(.*?)\];", "intlist"),
        ("MAX_DECIMAL128", _D, r"pub const MAX_DECIMAL128_FOR_EACH_PRECISION: \[i128; 39\] = \[(.*?)\];", "intlist"),
        ("MIN_DECIMAL128", _D, r"pub const MIN_DECIMAL128_FOR_EACH_PRECISION: \[i128; 39\] = \[(.*?)\];", "intlist"),
        ("DECIMAL256_TABLE_LEN", _D, r"pub const MAX_DECIMAL256_FOR_EACH_PRECISION: \[i256; (\d+)\] =", "int"),
        ("DECIMAL32_MAX_PRECISION", _S, r"pub const DECIMAL32_MAX_PRECISION: u8 = (\d+);", "int"),
        ("DECIMAL64_MAX_PRECISION", _S, r"pub const DECIMAL64_MAX_PRECISION: u8 = (\d+);", "int"),
        ("DECIMAL128_MAX_PRECISION", _S, r"pub const DECIMAL128_MAX_PRECISION: u8 = (\d+);", "int"),
        ("DECIMAL256_MAX_PRECISION", _S, r"pub const DECIMAL256_MAX_PRECISION: u8 = (\d+);", "int"),
        ("DECIMAL32_MAX_SCALE", _S, r"pub const DECIMAL32_MAX_SCALE: i8 = (\d+);", "int"),
        ("DECIMAL64_MAX_SCALE", _S, r"pub const DECIMAL64_MAX_SCALE: i8 = (\d+);", "int"),
        ("DECIMAL128_MAX_SCALE", _S, r"pub const DECIMAL128_MAX_SCALE: i8 = (\d+);", "int"),
        ("DECIMAL256_MAX_SCALE", _S, r"pub const DECIMAL256_MAX_SCALE: i8 = (\d+);", "int"),
        # the chunk size of parse_string_to_decimal_native
        ("MAX_CHUNK_DIGITS", "arrow-cast/src/cast/decimal.rs", r"const MAX_CHUNK_DIGITS: usize = (\d+);", "int"),
        # unit multiples used by the temporal casts
        ("MILLISECONDS", _T, r"pub const MILLISECONDS: i64 = ([^;]+);", "int"),
        ("MICROSECONDS", _T, r"pub const MICROSECONDS: i64 = ([^;]+);", "int"),
        ("NANOSECONDS", _T, r"pub const NANOSECONDS: i64 = ([^;]+);", "int"),
        ("SECONDS_IN_DAY", _T, r"pub const SECONDS_IN_DAY: i64 = ([^;]+);", "int"),
    ],
}
FUNCTIONS = {}
