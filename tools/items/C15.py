"""C15 items the translator (tools/translate.py) extracts from /repo on every run.

CONSTANTS[group] = [(lean_name, file relative to /repo, regex with ONE group, kind)]
The push decoder's I/O state machine has no numeric constants; the offset/limit budget that
is threaded through it has three, and `rowBudget_distributes` / `budgetedRows_sum` depend on
their values.
"""
_RB = "parquet/src/arrow/push_decoder/reader_builder/mod.rs"
_DATA = "parquet/src/arrow/push_decoder/reader_builder/data.rs"
_PD = "parquet/src/arrow/push_decoder/mod.rs"
_PB = "parquet/src/util/push_buffers.rs"
_AS = "parquet/src/arrow/async_reader/mod.rs"
CONSTANTS = {
    "C15": [
        # `RowBudget::is_exhausted`: `matches!(self.limit, Some(0))`
        ("BUDGET_EXHAUSTED_LIMIT", _RB, r"fn is_exhausted\(self\) -> bool \{\s*matches!\(self\.limit, Some\((\d+)\)\)", "int"),
        # `RowBudget::rows_after`: `rows_before_budget.saturating_sub(self.offset.unwrap_or(0))`
        ("BUDGET_DEFAULT_OFFSET", _RB, r"rows_before_budget\.saturating_sub\(self\.offset\.unwrap_or\((\d+)\)\)", "int"),
        # `RowBudget::advance`: the limit is only reduced `if rows_after_budget != 0`
        ("BUDGET_ADVANCE_SKIP_WHEN", _RB, r"if rows_after_budget != (\d+)\s*&& let Some\(limit\) = &mut self\.limit", "int"),
        # `RowBudget::selected_row_limit`: `limit.saturating_add(self.offset.unwrap_or(0))`
        ("BUDGET_SELECTED_DEFAULT_OFFSET", _RB, r"limit\.saturating_add\(self\.offset\.unwrap_or\((\d+)\)\)", "int"),
        # ---- expression shapes (the captured number is irrelevant; `<NAME>_lost` is what
        # `source_shapes_unchanged` depends on: the pattern stops matching when the shape is edited)
        ("HAS_RANGE_SHAPE", _PB, r"fn has_range\(&self, range: &Range<u(64)>\) -> bool \{\s*self\.ranges\s*\.iter\(\)\s*\.any\(\|r\| r\.start <= range\.start && r\.end >= range\.end\)\s*\}", "int"),
        ("GET_BYTES_SHAPE", _PB, r"fn get_bytes\(&self, start: u(64), length: usize\) -> Result<Bytes, ParquetError> \{[^}]*?for \(range, data\) in self\.iter\(\) \{\s*if range\.start <= start && range\.end >= start \+ length as u64 \{[^}]*?let start_offset = \(start - range\.start\) as usize;\s*return Ok\(data\.slice\(start_offset\.\.start_offset \+ length\)\);", "int"),
        ("READ_SHAPE", _PB, r"if range\.start <= self\.offset && range\.end >= self\.offset \+ buf\.len\(\) as u(64) \{[^}]*?let start_offset = \(self\.offset - range\.start\) as usize;\s*let end_offset = start_offset \+ buf\.len\(\);", "int"),
        ("CLEAR_RANGES_SHAPE", _PB, r"fn clear_ranges\(&mut self, ranges_to_clear: &\[Range<u(64)>\]\) \{.*?if !ranges_to_clear\s*\.iter\(\)\s*\.any\(\|r\| r\.start == range\.start && r\.end == range\.end\)\s*\{\s*new_ranges\.push", "int"),
        ("PUSH_RANGE_SHAPE", _PB, r"fn push_range\(&mut self, range: Range<u(64)>, buffer: Bytes\) -> Result<\(\), ParquetError> \{\s*let expected = range\.end\.saturating_sub\(range\.start\);\s*if expected != buffer\.len\(\) as u64 \{\s*return Err", "int"),
        ("NEEDED_RANGES_SHAPE", _DATA, r"fn needed_ranges\(&self, buffers: &PushBuffers\) -> Vec<Range<u(64)>> \{\s*self\.ranges\s*\.iter\(\)\s*\.filter\(\|&range\| !buffers\.has_range\(range\)\)\s*\.cloned\(\)\s*\.collect\(\)", "int"),
        ("GET_CHUNKS_CLEAR_SHAPE", _DATA, r"ranges: Vec<Range<u(64)>>,.*?buffers\.get_bytes\(range\.start, length\).*?let chunks = self\.get_chunks\(buffers\)\?;.*?fill_column_chunks\(projection, page_start_offsets, chunks\);.*?buffers\.clear_ranges\(&ranges\);", "int"),
        ("WAITING_ARMS_SHAPE", _RB, r"let needed_ranges = data_request\.needed_ranges\(&self\.buffers\);\s*if !needed_ranges\.is_empty\(\) \{.*?RowGroupDecoderState::WaitingOnFilterData \{.*?RowGroupBuildResult::NeedsData\(needed_ranges\).*?let needed_ranges = data_request\.needed_ranges\(&self\.buffers\);\s*if !needed_ranges\.is_empty\(\) \{.*?RowGroupDecoderState::WaitingOnData \{.*?RowGroupBuildResult::NeedsData\(needed_ranges\).*?size_of::<RowGroupDecoderState>\(\), (\d+)\)", "int"),
        ("FILTER_PUT_BACK_SHAPE", _RB, r"if !plan_builder\.selects_any\(\) \{.*?self\.filter = Some\(filter_info\.into_filter\(\)\);\s*return Ok\(NextState::result\(\s*RowGroupDecoderState::Finished,.*?AdvanceResult::Done\(filter, cache_info\) => \{.*?assert!\(self\.filter\.is_none\(\)\);\s*self\.filter = Some\(filter\);.*?size_of::<RowGroupDecoderState>\(\), (\d+)\)", "int"),
        ("PUSH_DATA_STATE_SHAPE", _PD, r"ranges: Vec<Range<u(64)>>,\s*data: Vec<Bytes>,\s*\) -> Result<\(\), ParquetError> \{\s*let current_state = std::mem::replace\(&mut self\.state, ParquetDecoderState::Finished\);\s*self\.state = current_state\.push_data\(ranges, data\)\?;", "int"),
        ("ASYNC_POLL_PUSH_SHAPE", _AS, r"fn begin_request\(mut input: T, ranges: Vec<Range<u(64)>>\).*?RequestState::Outstanding \{ ranges, mut future \} => match future\.poll_unpin\(cx\) \{.*?Poll::Ready\(result\) => \{\s*let \(input, data\) = result\?;\s*(?://[^\n]*\s*)*self\.decoder\.push_ranges\(ranges, data\)\?;\s*self\.request_state = RequestState::None \{ input \};.*?Poll::Pending => \{\s*self\.request_state = RequestState::Outstanding \{ ranges, future \};\s*return Ok\(Poll::Pending\);", "int"),
        ("ASYNC_NEXT_RG_PUSH_SHAPE", _AS, r"fn begin_request\(mut input: T, ranges: Vec<Range<u(64)>>\).*?RequestState::Outstanding \{ ranges, future \} => \{\s*let \(input, data\) = future\.await\?;\s*(?://[^\n]*\s*)*self\.decoder\.push_ranges\(ranges, data\)\?;\s*self\.request_state = RequestState::None \{ input \};", "int"),
    ],
}
FUNCTIONS = {}
