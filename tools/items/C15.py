"""C15 items the translator (tools/translate.py) extracts from /repo on every run.

CONSTANTS[group] = [(lean_name, file relative to /repo, regex with ONE group, kind)]
The push decoder's I/O state machine has no numeric constants; the offset/limit budget that
is threaded through it has three, and `rowBudget_distributes` / `budgetedRows_sum` depend on
their values.
"""
_RB = "parquet/src/arrow/push_decoder/reader_builder/mod.rs"
CONSTANTS = {
    "C15": [
        # `RowBudget::is_exhausted`: `matches!(self.limit, Some(0))`
        ("BUDGET_EXHAUSTED_LIMIT", _RB, r"fn is_exhausted\(self\) -> bool \{\s*matches!\(self\.limit, Some\((\d+)\)\)", "int"),
        # `RowBudget::rows_after`: `rows_before_budget.saturating_sub(self.offset.unwrap_or(0))`
        ("BUDGET_DEFAULT_OFFSET", _RB, r"rows_before_budget\.saturating_sub\(self\.offset\.unwrap_or\((\d+)\)\)", "int"),
        # `RowBudget::advance`: the limit is only reduced `if rows_after_budget != 0`
        ("BUDGET_ADVANCE_SKIP_WHEN", _RB, r"if rows_after_budget != (\d+)\s*&& let Some\(limit\) = &mut self\.limit", "int"),
        # `RowBudget::selected_row_limit`: `limit.saturating_add(self.offset.unwrap_or(0))`
        ("BUDGET_SELECTED_DEFAULT_OFFSET", _RB, r"limit\.saturating_add\(self\.offset\.unwrap_or\((\d+)\)\)", "int"),
    ],
}
FUNCTIONS = {}
