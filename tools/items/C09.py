"""C09 items the translator (tools/translate.py) extracts from /repo on every run.

Besides the one real constant, the entries below tie the SHAPE of the critical expressions the
C09 model mirrors (and of the gaps its counterexample theorems rely on): each regex spells out the
expression and captures a nearby integer literal, so rewriting the expression makes the item LOST
(`<name>_lost = true`), which breaks `ArrowModel.C09.source_shape_ties`.
"""
D = "arrow-data/src/data.rs"
CONSTANTS = {
    "C09": [
        ("MAX_INLINE_VIEW_LEN", "arrow-data/src/byte_view.rs", r"pub const MAX_INLINE_VIEW_LEN: u32 = (\d+);", "int"),
        # try_new pre-check and validate(): bitmap needs ceil((len+offset)/8) bytes
        ("NULL_BITMAP_CEIL_DIV", D, r"let needed_len = bit_util::ceil\(len_plus_offset, (8)\);\s*if null_bit_buffer\.len\(\) < needed_len", "int"),
        # typed_offsets: len + 1 offsets
        ("TYPED_OFFSETS_PLUS", D, r"let len = checked_len_plus_offset\(&self\.data_type, self\.len, (1)\)\?;\s*self\.typed_buffer\(0, len\)", "int"),
        # GAP (struct): child length compared with `self.len`, not offset + len
        ("STRUCT_CHILD_LEN_USES_LEN", D, r"// Ensure child field has sufficient size\s*if field_data\.len < self\.len \{.*?DataType::RunEndEncoded\(run_ends_field, values_field\) => \{\s*self\.validate_num_child_data\((2)\)\?;", "int"),
        # GAP (fixed-size list): expected child length is `self.len * list_size`
        ("FSL_CHILD_LEN_USES_LEN", D, r"let expected_values_len = self\.len\s*\.checked_mul\(list_size\)\s*\.expect\([^)]*\);\s*if values_data\.len < expected_values_len \{.*?validate_num_child_data\((2)\)", "int"),
        # sparse union: child length compared with len_plus_offset (this one is right)
        ("SPARSE_UNION_USES_LEN_PLUS_OFFSET", D, r"if mode == &UnionMode::Sparse \{\s*let len_plus_offset =\s*checked_len_plus_offset\(&self\.data_type, self\.len, self\.offset\)\?;\s*if field_data\.len < len_plus_offset \{.*?Sparse union child array #\{\} has length smaller than expected for union array \(\{\} < \{\}\).*?dictionary_length - (1);", "int"),
        # union: validate_values checks type ids and dense offsets
        ("UNION_VALUES_UNCHECKED", D, r"let child = fields\s*\.iter\(\)\s*\.position\(\|\(id, _\)\| id == \*type_id\).*?if offset < (0) \|\| offset as usize >= self\.child_data\[child\]\.len \{", "int"),
        # run-end encoded: check_run_ends gets the PARENT's offset + len
        ("REE_CHECK_RUN_ENDS_ON_CHILD", D, r"let len_plus_offset =\s*checked_len_plus_offset\(&self\.data_type, self\.len, self\.offset\)\?;\s*match run_ends\.data_type\(\) \{\s*DataType::Int16 => run_ends_data\.check_run_ends::<i(16)>\(len_plus_offset\),", "int"),
        # validate_utf8 fast path: BOTH ends of every string are tested
        ("UTF8_BOUNDARY_BOTH_ENDS", D, r"if !values_str\.is_char_boundary\(range\.start\)\s*\|\| !values_str\.is_char_boundary\(range\.end\)\s*\{.*?if dict_index < (0) \|\| dict_index > max_value", "int"),
        # validate_each_offset: limit, monotone scan from 0, skip(1)
        ("EACH_OFFSET_SHAPE", D, r"Ok\(n\) if n <= offset_limit => Ok\(\(i, n\)\),.*?\.scan\(0_usize, \|start, end\| \{.*?Ok\(\(i, end\)\) if \*start <= end => \{.*?\.skip\((1)\) // the first element is meaningless", "int"),
        # check_bounds: null slots skipped, 0 <= key <= max
        ("CHECK_BOUNDS_SHAPE", D, r"if self\.is_null\(i\) \{\s*return Ok\(\(\)\);\s*\}.*?if dict_index < (0) \|\| dict_index > max_value \{", "int"),
        # check_bounds: NO early return between the size assert and the scan over every key
        ("CHECK_BOUNDS_NO_EARLY_RETURN", D, r"assert!\(buffer\.len\(\) / mem::size_of::<T>\(\) >= required_len\);\s*// Justification: buffer size was validated above\s*let indexes: &\[T\] = &buffer\.typed_data::<T>\(\)\[self\.offset\.\.required_len\];\s*indexes\.iter\(\)\.enumerate\(\)\.try_for_each\(\|\(i, &dict_index\)\| \{\s*// Do not check the value is null \(value can be arbitrary\)\s*if self\.is_null\(i\) \{\s*return Ok\(\(\)\);\s*\}\s*let dict_index: i64 = dict_index\.try_into\(\).*?if dict_index < (0) \|\| dict_index > max_value \{", "int"),
        # validate_values: max_value = dictionary length - 1, passed to check_bounds for all 8 key types
        ("CHECK_BOUNDS_MAX_VALUE", D, r"let dictionary_length: i64 = self\.child_data\[0\]\.len\.try_into\(\)\.unwrap\(\);\s*let max_value = dictionary_length - (1);\s*match key_type\.as_ref\(\) \{\s*DataType::UInt8 => self\.check_bounds::<u8>\(max_value\),\s*DataType::UInt16 => self\.check_bounds::<u16>\(max_value\),\s*DataType::UInt32 => self\.check_bounds::<u32>\(max_value\),\s*DataType::UInt64 => self\.check_bounds::<u64>\(max_value\),\s*DataType::Int8 => self\.check_bounds::<i8>\(max_value\),\s*DataType::Int16 => self\.check_bounds::<i16>\(max_value\),\s*DataType::Int32 => self\.check_bounds::<i32>\(max_value\),\s*DataType::Int64 => self\.check_bounds::<i64>\(max_value\),", "int"),
        # DictionaryArray::try_new: every valid key k must satisfy 0 <= k < values.len(), unless all keys are null
        ("DICT_TRY_NEW_SHAPE", "arrow-array/src/array/dictionary_array.rs", r"let all_null = keys\.null_count\(\) == keys\.len\(\);\s*if !all_null \{\s*let zero = K::Native::usize_as\((0)\);\s*let values_len = values\.len\(\);\s*if let Some\(\(idx, v\)\) = keys\.values\(\)\.iter\(\)\.enumerate\(\)\.find\(\|\(idx, v\)\| \{\s*\(v\.is_lt\(zero\) \|\| v\.as_usize\(\) >= values_len\) && keys\.is_valid\(\*idx\)", "int"),
        # check_run_ends: positive, strictly increasing
        ("RUN_ENDS_SHAPE", D, r"if value <= 0_i64 \{.*?if ix > (0) && value <= prev_value \{", "int"),
        # GAP (non-nullable child): NullBuffer::contains zips the two masks from bit 0
        ("CONTAINS_ZIP_NO_OFFSET", "arrow-buffer/src/buffer/null.rs", r"let lhs = self\.inner\(\)\.bit_chunks\(\)\.iter_padded\(\);\s*let rhs = other\.inner\(\)\.bit_chunks\(\)\.iter_padded\(\);\s*lhs\.zip\(rhs\)\.all\(\|\(l, r\)\| \(l & !r\) == (0)\)", "int"),
        # OffsetBuffer::new: non-empty, first >= 0, every adjacent pair
        ("OFFSET_BUFFER_WINDOWS", "arrow-buffer/src/buffer/offset.rs", r"assert!\(!buffer\.is_empty\(\), \"offsets cannot be empty\"\);\s*assert!\(\s*buffer\[0\] >= O::usize_as\(0\),[^;]*\);\s*assert!\(\s*buffer\.windows\((2)\)\.all\(\|w\| w\[0\] <= w\[1\]\),", "int"),
        # RunEndBuffer::new: strictly increasing adjacent pairs
        ("RUN_END_BUFFER_WINDOWS", "arrow-buffer/src/buffer/run.rs", r"assert!\(\s*run_ends\.windows\((2)\)\.all\(\|w\| w\[0\] < w\[1\]\),", "int"),
        # validate_view_impl: inline limit, padding test, prefix test
        ("VIEW_IMPL_SHAPE", "arrow-data/src/byte_view.rs", r"if len <= MAX_INLINE_VIEW_LEN \{\s*if len < MAX_INLINE_VIEW_LEN && \(v >> \((32) \+ len \* 8\)\) != 0 \{.*?if !b\.starts_with\(&view\.prefix\.to_le_bytes\(\)\) \{", "int"),
        # GAP (UnionArray::try_new): type ids and offsets checked, child data types never
        ("UNION_TRY_NEW_SHAPE", "arrow-array/src/array/union_array.rs", r"let mut array_lens = vec!\[i32::MIN; max_id \+ (1)\];\s*for \(cd, \(field_id, _\)\) in children\.iter\(\)\.zip\(fields\.iter\(\)\) \{\s*array_lens\[field_id as usize\] = cd\.len\(\) as i32;\s*\}", "int"),
    ],
}
FUNCTIONS = {}
