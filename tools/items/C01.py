"""C01 items the translator (tools/translate.py) extracts from /repo on every run.

Shape ties: the literal operands of the `*_unchecked` construction sites the C01 kernel models mirror
(Model.lean) and the inline-view limit the view validator (PhysicalExt.lean) uses.  If one of these
expressions is edited the pattern stops matching (LOST) or the value changes, and the obligation
`ArrowModel.C01.source_ties_intact` no longer checks.
"""
CONSTANTS = {
    "C01": [
        # views of at most this many bytes are inline (PhysicalExt.viewOk)
        ("MAX_INLINE_VIEW_LEN", "arrow-data/src/byte_view.rs", r"pub const MAX_INLINE_VIEW_LEN: u32 = (\d+);", "int"),
        # filter_nulls: null_count = count - popcount over the `count` bits starting at bit 0 (Model.mkNulls)
        ("FILTER_NULLS_POPCOUNT_START", "arrow-select/src/filter.rs",
         r"let null_count = self\.count - nulls\.count_set_bits_offset\((0), self\.count\);", "int"),
        ("FILTER_NULLS_BITMAP_OFFSET", "arrow-select/src/filter.rs",
         r"let buffer = BooleanBuffer::new\(nulls, (0), self\.count\);", "int"),
        # FilterBytes: running offset starts at 0 and every output offset is the running sum (Model.gatherBytes)
        ("FILTER_BYTES_FIRST_OFFSET", "arrow-select/src/filter.rs",
         r"let cur_offset = OffsetSize::from_usize\((0)\)\.unwrap\(\);\s*dst_offsets\.push\(cur_offset\);", "int"),
        ("FILTER_BYTES_NEXT_IDX", "arrow-select/src/filter.rs",
         r"let start = self\.src_offsets\[idx\]\.as_usize\(\);\s*let end = self\.src_offsets\[idx \+ (1)\]\.as_usize\(\);\s*let len = OffsetSize::from_usize\(end - start\)\.expect\(\"illegal offset range\"\);\s*self\.cur_offset \+= len;", "int"),
        # take_bytes: capacity starts at 0, offsets[i + 1] = running capacity, trailing nulls back-filled
        ("TAKE_BYTES_CAPACITY_START", "arrow-select/src/take.rs", r"let mut capacity = (0);\s*let nulls = take_nulls\(array\.nulls\(\), indices\);", "int"),
        ("TAKE_BYTES_NULLPATH_SLOT", "arrow-select/src/take.rs",
         r"capacity \+= end - start;\s*offsets\[i \+ (1)\] = T::Offset::from_usize\(capacity\)", "int"),
        ("TAKE_BYTES_BACKFILL", "arrow-select/src/take.rs", r"offsets\[last_filled \+ (1)\.\.\]\.fill\(final_offset\);", "int"),
        # GenericByteBuilder::append_array: shift = next_offset - offsets[0], offsets[1..] rebased, value block
        ("APPEND_ARRAY_SHIFT_BASE", "arrow-array/src/builder/generic_bytes_builder.rs",
         r"let shift: T::Offset = self\.next_offset\(\) - offsets\[(0)\];", "int"),
        ("APPEND_ARRAY_REBASED_FROM", "arrow-array/src/builder/generic_bytes_builder.rs",
         r"\.extend\(offsets\[(1)\.\.\]\.iter\(\)\.map\(\|&offset\| offset \+ shift\)\);", "int"),
        ("APPEND_ARRAY_VALUES_FROM", "arrow-array/src/builder/generic_bytes_builder.rs",
         r"&array\.values\(\)\.as_slice\(\)\[offsets\[(0)\]\.as_usize\(\)\.\.offsets\[array\.len\(\)\]\.as_usize\(\)\]", "int"),
    ],
}
FUNCTIONS = {}
