"""C16 items the translator (tools/translate.py) extracts from /repo on every run.

Only the capacity arithmetic of `MutableBuffer` is taken from the source: the model uses it to
compute `Bytes::capacity()` (what `claim` reserves).  No C16 theorem depends on the concrete
values (the accounting theorem holds for every capacity rule), so a retune of these
constants flows into the model and keeps the correspondence green.
"""
CONSTANTS = {
    "C16": [
        # MutableBuffer::try_with_capacity: capacity rounded up to a multiple of 64
        ("WITH_CAPACITY_ROUND", "arrow-buffer/src/buffer/mutable.rs",
         r"pub fn try_with_capacity\(capacity: usize\)[^{]*\{\s*let capacity = capacity\s*\.checked_next_multiple_of\((\d+)\)", "int"),
        # MutableBuffer::try_reserve: required capacity rounded up to a multiple of 64 ...
        ("RESERVE_ROUND", "arrow-buffer/src/buffer/mutable.rs",
         r"let new_capacity = required_cap\s*\.checked_next_multiple_of\((\d+)\)", "int"),
        # ... and at least twice the old capacity
        ("RESERVE_GROWTH", "arrow-buffer/src/buffer/mutable.rs",
         r"std::cmp::max\(new_capacity, self\.layout\.size\(\)\.saturating_mul\((\d+)\)\)", "int"),
        # MutableBuffer::try_shrink_to_fit: len rounded up to a multiple of 64
        ("SHRINK_ROUND", "arrow-buffer/src/buffer/mutable.rs",
         r"pub fn try_shrink_to_fit\(&mut self\)[^{]*\{\s*let new_capacity = self\s*\.len\s*\.checked_next_multiple_of\((\d+)\)", "int"),
        # ALIGNMENT on the architecture the harness runs on (x86_64)
        ("ALIGNMENT_X86_64", "arrow-buffer/src/alloc/alignment.rs",
         r'#\[cfg\(target_arch = "x86_64"\)\]\s*pub const ALIGNMENT: usize = ([^;]+);', "int"),
    ],
}


# --- shape items -----------------------------------------------------------------------------
# The C16 model hard-codes the guard conditions and the statement order of the ownership-critical
# functions.  Each item below is the code as the model mirrors it (whitespace-insensitive, comments
# must not be interleaved); the empty trailing group makes it an `intlist` item with value [].
# If the source no longer matches, the item goes LOST and the obligation
# `ArrowModel.C16.source_shape_intact` (Theorems.lean) no longer checks.
import re as _re

def _shape(snippet):
    toks = snippet.split()
    return r"\s*".join(_re.escape(t) for t in toks) + r"()"

_SHAPES = [
    # Buffer::into_mutable: offset guard, then Arc::try_unwrap, then MutableBuffer::from_bytes
    ("SHAPE_INTO_MUTABLE", "arrow-buffer/src/buffer/immutable.rs",
     "let res = if self.ptr_offset() > 0 { Err(self.data) } else { Arc::try_unwrap(self.data) };"),
    ("SHAPE_INTO_MUTABLE_FROM_BYTES", "arrow-buffer/src/buffer/immutable.rs",
     "MutableBuffer::from_bytes(bytes).map_err(Arc::new)"),
    # MutableBuffer::from_bytes: custom owners are rejected BEFORE the reservation is taken
    ("SHAPE_FROM_BYTES", "arrow-buffer/src/buffer/mutable.rs",
     "let layout = match bytes.deallocation() { Deallocation::Standard(layout) => *layout, Deallocation::Custom(..) => return Err(bytes), }; "
     "let len = bytes.len(); let data = bytes.ptr(); #[cfg(feature = \"pool\")] let reservation = bytes.reservation.lock().unwrap().take(); mem::forget(bytes);"),
    # Buffer::into_vec: the three declines, in this order, before Arc::try_unwrap
    ("SHAPE_INTO_VEC_CUSTOM", "arrow-buffer/src/buffer/immutable.rs",
     "let layout = match self.data.deallocation() { Deallocation::Standard(l) => l, Deallocation::Custom(..) => return Err(self), }; if self.ptr != self.data.as_ptr() { return Err(self);"),
    ("SHAPE_INTO_VEC_LAYOUT", "arrow-buffer/src/buffer/immutable.rs",
     "let v_capacity = layout.size() / std::mem::size_of::<T>(); match Layout::array::<T>(v_capacity) { Ok(expected) if layout == &expected => {} _ => return Err(self),"),
    ("SHAPE_INTO_VEC_RESERVATION", "arrow-buffer/src/buffer/immutable.rs",
     "drop(bytes.reservation.lock().unwrap().take()); std::mem::forget(bytes);"),
    # claim replaces the reservation
    ("SHAPE_BYTES_CLAIM", "arrow-buffer/src/bytes.rs",
     "pub(crate) fn claim(&self, pool: &dyn MemoryPool) { *self.reservation.lock().unwrap() = Some(pool.reserve(self.capacity())); }"),
    ("SHAPE_MUTABLE_CLAIM", "arrow-buffer/src/buffer/mutable.rs",
     "pub fn claim(&self, pool: &dyn MemoryPool) { *self.reservation.lock().unwrap() = Some(pool.reserve(self.capacity())); }"),
    # freeze moves the reservation along
    ("SHAPE_INTO_BUFFER", "arrow-buffer/src/buffer/mutable.rs",
     "let reservation = self.reservation.lock().unwrap().take(); *bytes.reservation.lock().unwrap() = reservation; } std::mem::forget(self); Buffer::from(bytes)"),
    # Tracker gives its size back on drop
    ("SHAPE_TRACKER_DROP", "arrow-buffer/src/pool.rs",
     "impl Drop for Tracker { fn drop(&mut self) { self.shared.fetch_sub(self.size, Ordering::Relaxed); } }"),
    # mask assign operators: in place iff into_mutable succeeds, else keep the buffer and copy
    ("SHAPE_BIT_ASSIGN", "arrow-buffer/src/buffer/boolean.rs",
     "let buffer = std::mem::take(&mut self.buffer); match buffer.into_mutable() { Ok(mut buf) => { bit_util::apply_bitwise_binary_op("),
    ("SHAPE_BIT_ASSIGN_COPY", "arrow-buffer/src/buffer/boolean.rs",
     "Err(buf) => { self.buffer = buf; *self = BooleanBuffer::from_bitwise_binary_op("),
    # PrimitiveArray::into_builder: the array data is dropped before the conversions are tried
    ("SHAPE_INTO_BUILDER", "arrow-array/src/array/primitive_array.rs",
     "drop(data); let try_mutable_null_buffer = match null_bit_buffer { None => Ok(None), Some(null_buffer) => {"),
    ("SHAPE_INTO_BUILDER_VALUES", "arrow-array/src/array/primitive_array.rs",
     "let try_mutable_buffer = buffer.into_mutable();"),
    # C Data Interface: one-shot release; imported buffers are owned by a clone of the struct Arc
    ("SHAPE_FFI_DROP", "arrow-data/src/ffi.rs",
     "impl Drop for FFI_ArrowArray { fn drop(&mut self) { match self.release { None => (), Some(release) => unsafe { release(self) }, } } }"),
    ("SHAPE_FFI_RELEASE", "arrow-data/src/ffi.rs",
     "let private = unsafe { Box::from_raw(array.private_data.cast::<ArrayPrivateData>()) };"),
    ("SHAPE_FFI_RELEASE_ONCE", "arrow-data/src/ffi.rs",
     "array.release = None; }"),
    ("SHAPE_FFI_EXPORT_CLONES", "arrow-data/src/ffi.rs",
     ".chain(data.buffers().iter().map(|b| Some(b.clone())))"),
    ("SHAPE_FFI_IMPORT_OWNER", "arrow-array/src/ffi.rs",
     ".map(|ptr| unsafe { Buffer::from_custom_allocation(ptr, len, owner) })"),
    ("SHAPE_FFI_IMPORT_CLONE", "arrow-array/src/ffi.rs",
     "match unsafe { create_buffer(self.owner.clone(), self.array, index, len) } {"),
    # align_nulls: exactly three branches, in this order (same offsets: share; data offset 0:
    # sliced(); else zeroed bitmap + set_bits at data_offset)
    ("SHAPE_ALIGN_NULLS_SAME", "arrow-data/src/ffi.rs",
     "let nulls = nulls?; if data_offset == nulls.offset() { // Underlying buffer is already aligned return Some(nulls.buffer().clone()); } if data_offset == 0 { return Some(nulls.inner().sliced()); } let mut builder = MutableBuffer::new_null(data_offset + nulls.len());"),
    ("SHAPE_ALIGN_NULLS_COPY", "arrow-data/src/ffi.rs",
     "set_bits( builder.as_slice_mut(), nulls.validity(), data_offset, nulls.offset(), nulls.len(), ); Some(builder.into()) }"),
    ("SHAPE_ALIGN_NULLS_CALL", "arrow-data/src/ffi.rs",
     "std::iter::once(align_nulls(data.offset(), data.nulls()))"),
]
CONSTANTS["C16"] += [(name, path, _shape(snip), "intlist") for (name, path, snip) in _SHAPES]
FUNCTIONS = {}
