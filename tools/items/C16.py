"""C16 items the translator (tools/translate.py) extracts from /repo on every run.

Only the capacity arithmetic of `MutableBuffer` is taken from the source: the model uses it to
compute `Bytes::capacity()` (what `claim` reserves).  No C16 theorem depends on the concrete
values (the accounting theorem holds for every capacity rule), so a retune of these
constants flows into the model and keeps the correspondence green.
"""
CONSTANTS = {
    "C16": [
        # MutableBuffer::try_with_capacity: capacity rounded up to a multiple of 64
        ("WITH_CAPACITY_ROUND", "arrow-buffer/src/buffer/mutable.rs",
         r"pub fn try_with_capacity\(capacity: usize\)[^{]*\{\s*let capacity = capacity\s*\.checked_next_multiple_of\((\d+)\)", "int"),
        # MutableBuffer::try_reserve: required capacity rounded up to a multiple of 64 ...
        ("RESERVE_ROUND", "arrow-buffer/src/buffer/mutable.rs",
         r"let new_capacity = required_cap\s*\.checked_next_multiple_of\((\d+)\)", "int"),
        # ... and at least twice the old capacity
        ("RESERVE_GROWTH", "arrow-buffer/src/buffer/mutable.rs",
         r"std::cmp::max\(new_capacity, self\.layout\.size\(\)\.saturating_mul\((\d+)\)\)", "int"),
        # ALIGNMENT on the architecture the harness runs on (x86_64)
        ("ALIGNMENT_X86_64", "arrow-buffer/src/alloc/alignment.rs",
         r'#\[cfg\(target_arch = "x86_64"\)\]\s*pub const ALIGNMENT: usize = ([^;]+);', "int"),
    ],
}
FUNCTIONS = {}
