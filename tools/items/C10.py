"""C10 items the translator (tools/translate.py) extracts from /repo on every run.

CONSTANTS[group] = [(lean_name, file relative to /repo, regex with ONE group, kind)]

The float total-order key (`f64::total_cmp`, `f32::total_cmp`, `half::f16::total_cmp`) lives in
std / the `half` crate, not in /repo, so its shift amounts are fixed in the model; what /repo
contributes are the byte-prefix / inline-view constants below.
"""
CONSTANTS = {
    "C10": [
        # sort_bytes: `let prefix = if slice.len() >= 4 {`  — length of the big-endian prefix key
        ("SORT_BYTES_PREFIX_LEN", "arrow-ord/src/sort.rs", r"let prefix = if slice\.len\(\)\s*>=\s*(\d+)\s*\{", "int"),
        # sort_bytes: `v << (8 * (4 - slice.len()))` — left padding of short values
        ("SORT_BYTES_PAD_TO", "arrow-ord/src/sort.rs", r"v\s*<<\s*\(8\s*\*\s*\((\d+)\s*-\s*slice\.len\(\)\)\)", "int"),
        # sort_bytes: `if la < 4 || lb < 4 {` — when the length shortcut applies
        ("SORT_BYTES_SHORT_A", "arrow-ord/src/sort.rs", r"if la\s*<\s*(\d+)\s*\|\|\s*lb\s*<\s*\d+\s*\{", "int"),
        ("SORT_BYTES_SHORT_B", "arrow-ord/src/sort.rs", r"if la\s*<\s*\d+\s*\|\|\s*lb\s*<\s*(\d+)\s*\{", "int"),
        # view arrays: values of at most this many bytes are stored inline
        ("MAX_INLINE_VIEW_LEN", "arrow-data/src/byte_view.rs", r"pub const MAX_INLINE_VIEW_LEN:\s*u32\s*=\s*(\d+);", "int"),
        # inline_key_fast: `(raw.swap_bytes() << 32) | (raw as u32 as u128)`
        ("INLINE_KEY_SHIFT", "arrow-array/src/array/byte_view_array.rs", r"\(raw\.swap_bytes\(\)\s*<<\s*(\d+)\)\s*\|\s*\(raw as u32 as u128\)", "int"),
        # compare_unchecked: `if l_len <= 12 && r_len <= 12 {`
        ("VIEW_CMP_INLINE_L", "arrow-array/src/array/byte_view_array.rs", r"if l_len\s*<=\s*(\d+)\s*&&\s*r_len\s*<=\s*\d+\s*\{", "int"),
        ("VIEW_CMP_INLINE_R", "arrow-array/src/array/byte_view_array.rs", r"if l_len\s*<=\s*\d+\s*&&\s*r_len\s*<=\s*(\d+)\s*\{", "int"),
        # cmp.rs is_lt for views: `if (*l_view as u32) <= 12 && (*r_view as u32) <= 12 {`
        ("VIEW_LT_INLINE_L", "arrow-ord/src/cmp.rs", r"if \(\*l_view as u32\)\s*<=\s*(\d+)\s*&&\s*\(\*r_view as u32\)\s*<=\s*\d+\s*\{", "int"),
        ("VIEW_LT_INLINE_R", "arrow-ord/src/cmp.rs", r"if \(\*l_view as u32\)\s*<=\s*\d+\s*&&\s*\(\*r_view as u32\)\s*<=\s*(\d+)\s*\{", "int"),
    ],
}

# ---- shapes of critical expressions: kind "intlist" with an EMPTY group yields `[]` while the
# expression is present and LOST (`<name>_lost = true`) after an edit; `source_shape_ties` in
# Theorems.lean requires every `_lost` to be false.
W = r"\s*"
def shape(*parts):
    """whitespace-tolerant literal match of the given source fragments, empty trailing group"""
    import re
    return W.join(W.join(re.escape(tok) for tok in part.split()) for part in parts) + r"()"

SHAPES = [
    ("SHAPE_CHILD_OPTS", "arrow-cmp/src/lib.rs",
     shape("fn child_opts(opts: SortOptions) -> SortOptions {", "SortOptions {", "descending: false,",
           "nulls_first: opts.nulls_first != opts.descending,", "}")),
    ("SHAPE_CHILD_RANK", "arrow-ord/src/sort.rs",
     shape("let value_options = Some(SortOptions {", "descending: false,",
           "nulls_first: options.nulls_first != options.descending,", "});", "rank(values, value_options)")),
    ("SHAPE_COMPARE_DISPATCH", "arrow-cmp/src/lib.rs",
     shape("match (opts.nulls_first, opts.descending) {", "(true, true) => compare_impl::<true, true, _>(l, r, cmp),",
           "(true, false) => compare_impl::<true, false, _>(l, r, cmp),", "(false, true) => compare_impl::<false, true, _>(l, r, cmp),",
           "(false, false) => compare_impl::<false, false, _>(l, r, cmp),")),
    ("SHAPE_COMPARE_NULL_FILTER", "arrow-cmp/src/lib.rs",
     shape("let l = l.logical_nulls().filter(|x| x.null_count() > 0);", "let r = r.logical_nulls().filter(|x| x.null_count() > 0);")),
    ("SHAPE_COMPARE_IMPL_DESC", "arrow-cmp/src/lib.rs",
     shape("let cmp = move |i, j| match DESCENDING {", "true => cmp(i, j).reverse(),", "false => cmp(i, j),", "};")),
    ("SHAPE_COMPARE_IMPL_NULLS", "arrow-cmp/src/lib.rs",
     shape("let (left_null, right_null) = match NULLS_FIRST {", "true => (Ordering::Less, Ordering::Greater),",
           "false => (Ordering::Greater, Ordering::Less),", "};")),
    ("SHAPE_COMPARE_IMPL_ARMS", "arrow-cmp/src/lib.rs",
     shape("(Some(l), None) => Box::new(move |i, j| match l.is_null(i) {", "true => left_null,", "false => cmp(i, j),", "}),",
           "(None, Some(r)) => Box::new(move |i, j| match r.is_null(j) {", "true => right_null,", "false => cmp(i, j),", "}),",
           "(Some(l), Some(r)) => Box::new(move |i, j| match (l.is_null(i), r.is_null(j)) {", "(true, true) => Ordering::Equal,",
           "(true, false) => left_null,", "(false, true) => right_null,", "(false, false) => cmp(i, j),")),
    ("SHAPE_LIST_LOOP", "arrow-cmp/src/lib.rs",
     shape("for (i, j) in (l_start..l_end).zip(r_start..r_end) {", "match cmp(i, j) {", "Ordering::Equal => {}", "r => return r,", "}", "}",
           "(l_end - l_start).cmp(&(r_end - r_start))")),
    ("SHAPE_FLOAT_COMPARE", "arrow-array/src/arithmetic.rs",
     shape("fn compare(self, rhs: Self) -> Ordering {", "<$t>::total_cmp(&self, &rhs)", "}")),
    ("SHAPE_FLOAT_IS_EQ", "arrow-array/src/arithmetic.rs", shape("self.to_bits() == rhs.to_bits()")),
    ("SHAPE_INT_COMPARE", "arrow-array/src/arithmetic.rs",
     shape("fn compare(self, rhs: Self) -> Ordering {", "self.cmp(&rhs)", "}")),
    ("SHAPE_SORT_BYTES_CMP", "arrow-ord/src/sort.rs",
     shape("let ord = pa.cmp(&pb);", "if ord != Ordering::Equal {", "return ord;", "}")
     + W + r"(?://[^\n]*\n\s*)*" + shape("if la < 4 || lb < 4 {", "let ord = la.cmp(&lb);", "if ord != Ordering::Equal {", "return ord;", "}", "}")[:-2]
     + W + r"(?://[^\n]*\n\s*)*" + shape("let a_bytes: &[u8] = values.value_unchecked(ia as usize).as_ref();",
           "let b_bytes: &[u8] = values.value_unchecked(ib as usize).as_ref();", "a_bytes.cmp(b_bytes)")),
    ("SHAPE_SORT_BYTES_PREFIX", "arrow-ord/src/sort.rs",
     shape("for &b in slice {", "v = (v << 8) | (b as u32);", "}")),
    ("SHAPE_SORT_IMPL_VLIMIT", "arrow-ord/src/sort.rs",
     shape("let v_limit = match (limit, options.nulls_first) {", "(Some(l), true) => l.saturating_sub(nulls.len()).min(valids.len()),",
           "_ => valids.len(),", "};")),
    ("SHAPE_SORT_IMPL_DESC", "arrow-ord/src/sort.rs",
     shape("match options.descending {", "false => sort_unstable_by(valids, v_limit, |a, b| cmp(a.1, b.1)),",
           "true => sort_unstable_by(valids, v_limit, |a, b| cmp(a.1, b.1).reverse()),", "}")),
    ("SHAPE_SORT_IMPL_ASSEMBLY", "arrow-ord/src/sort.rs",
     shape("let len = valids.len() + nulls.len();", "let limit = limit.unwrap_or(len).min(len);", "let mut out = Vec::with_capacity(len);",
           "match options.nulls_first {", "true => {", "out.extend_from_slice(&nulls[..nulls.len().min(limit)]);",
           "let remaining = limit - out.len();", "out.extend(valids.iter().map(|x| x.0).take(remaining));", "}", "false => {",
           "out.extend(valids.iter().map(|x| x.0).take(limit));", "let remaining = limit - out.len();",
           "out.extend_from_slice(&nulls[..remaining])", "}", "}")),
    ("SHAPE_SORT_UNSTABLE_BY", "arrow-ord/src/sort.rs",
     shape("if array.len() == limit {", "array.sort_unstable_by(cmp);", "} else {", "partial_sort(array, limit, cmp);", "}")),
    ("SHAPE_PARTIAL_SORT", "arrow-ord/src/sort.rs",
     shape("if let Some(n) = limit.checked_sub(1) {", "let (before, _mid, _after) = v.select_nth_unstable_by(n, &mut is_less);",
           "before.sort_unstable_by(is_less);", "}")),
    ("SHAPE_LEXSORT_HEAP_GUARD", "arrow-ord/src/sort.rs", shape("Some(limit) if limit <= row_count / 10 => match columns.len() {")),
    ("SHAPE_LEXSORT_TRUNCATE", "arrow-ord/src/sort.rs", shape("value_indices.truncate(len);", "value_indices")),
    ("SHAPE_LEXSORT_TOPK", "arrow-ord/src/sort.rs",
     shape("if heap.len() < limit {", "heap.push(idx);", "let pos = heap.len() - 1;", "sift_up_worst_heap(&mut heap, pos, &mut compare);",
           "} else if compare(idx, heap[0]) == Ordering::Less {", "heap[0] = idx;", "sift_down_worst_heap(&mut heap, 0, &mut compare);", "}", "}",
           "heap.sort_unstable_by(|a, b| compare(*a, *b));", "heap")),
    ("SHAPE_LEX_COMPARE", "arrow-ord/src/sort.rs",
     shape("for comparator in &self.compare_items {", "match comparator(a_idx, b_idx) {", "Ordering::Equal => {}", "r => return r,", "}", "}", "Ordering::Equal")),
    ("SHAPE_RANK_SORT", "arrow-ord/src/rank.rs",
     shape("valid.sort_unstable_by(|a, b| compare(a.0, b.0));", "if options.descending {", "valid.reverse();", "}")),
    ("SHAPE_RANK_INIT", "arrow-ord/src/rank.rs",
     shape("let (mut valid_rank, null_rank) = match options.nulls_first {", "true => (len as u32, (len - valid.len()) as u32),",
           "false => (valid.len() as u32, len as u32),", "};")),
    ("SHAPE_RANK_LOOP", "arrow-ord/src/rank.rs",
     shape("for w in valid.windows(2).rev() {", "match eq(w[0].0, w[1].0) {", "true => {", "count += 1;", "out[w[0].1 as usize] = valid_rank;", "}",
           "false => {", "valid_rank -= count;", "count = 1;", "out[w[0].1 as usize] = valid_rank", "}", "}", "}")),
    ("SHAPE_PARTITION_OR", "arrow-ord/src/partition.rs", shape(".try_fold(acc, |acc, c| find_boundaries(c.as_ref()).map(|b| &acc | &b))?;")),
    ("SHAPE_PARTITION_BOUNDS", "arrow-ord/src/partition.rs",
     shape("let slice_len = v.len() - 1;", "let v1 = v.slice(0, slice_len);", "let v2 = v.slice(1, slice_len);")),
    ("SHAPE_PARTITION_CMP", "arrow-ord/src/partition.rs", shape("Ok((0..slice_len).map(|i| !cmp(i, i).is_eq()).collect())")),
    ("SHAPE_PARTITION_RANGES", "arrow-ord/src/partition.rs",
     shape("for idx in boundaries.set_indices() {", "let t = current;", "current = idx + 1;", "out.push(t..current)", "}",
           "let last = boundaries.len() + 1;", "if current != last {", "out.push(current..last)", "}")),
    ("SHAPE_CMP_DISTINCT", "arrow-ord/src/cmp.rs", shape("let c = |((l, r), n)| (l ^ r) | (l & r & n);")),
    ("SHAPE_CMP_NOT_DISTINCT", "arrow-ord/src/cmp.rs", shape("let c = |((l, r), e)| u64::not(l | r) | (l & r & e);")),
    ("SHAPE_CMP_DISTINCT_ONE", "arrow-ord/src/cmp.rs", shape("let c = |(l, n)| u64::not(l) | n;")),
    ("SHAPE_CMP_NOT_DISTINCT_ONE", "arrow-ord/src/cmp.rs", shape("Op::NotDistinct => (nulls.inner() & &values()).into(),")),
    ("SHAPE_CMP_UNION_NULLS", "arrow-ord/src/cmp.rs", shape("_ => BooleanArray::new(values(), NullBuffer::union(Some(&l), Some(&r))),")),
    ("SHAPE_CMP_APPLY_TABLE", "arrow-ord/src/cmp.rs",
     shape("Op::Equal | Op::NotDistinct => apply_op(l, l_s, r, r_s, false, T::is_eq),", "Op::NotEqual | Op::Distinct => apply_op(l, l_s, r, r_s, true, T::is_eq),",
           "Op::Less => apply_op(l, l_s, r, r_s, false, T::is_lt),", "Op::LessEqual => apply_op(r, r_s, l, l_s, true, T::is_lt),",
           "Op::Greater => apply_op(r, r_s, l, l_s, false, T::is_lt),", "Op::GreaterEqual => apply_op(l, l_s, r, r_s, true, T::is_lt),")),
    ("SHAPE_CMP_APPLY_TABLE_VEC", "arrow-ord/src/cmp.rs",
     shape("Op::Equal | Op::NotDistinct => apply_op_vectored(l, &l_v, r, &r_v, false, T::is_eq),", "Op::NotEqual | Op::Distinct => apply_op_vectored(l, &l_v, r, &r_v, true, T::is_eq),",
           "Op::Less => apply_op_vectored(l, &l_v, r, &r_v, false, T::is_lt),", "Op::LessEqual => apply_op_vectored(r, &r_v, l, &l_v, true, T::is_lt),",
           "Op::Greater => apply_op_vectored(r, &r_v, l, &l_v, false, T::is_lt),", "Op::GreaterEqual => apply_op_vectored(l, &l_v, r, &r_v, true, T::is_lt),")),
    ("SHAPE_CMP_INLINE_SCALAR", "arrow-ord/src/cmp.rs",
     shape("let significant = u64::MAX >> (32 - needle_len * 8);", "let needle = needle as u64 & significant;")),
    ("SHAPE_VIEW_INLINE_KEY", "arrow-array/src/array/byte_view_array.rs", shape("(raw.swap_bytes() << 32) | (raw as u32 as u128)")),
    ("SHAPE_IN_LIST_EQ", "arrow-ord/src/comparison.rs", shape("if list.is_valid(j) && (left.value(i) == list.value(j)) {")),
]
CONSTANTS["C10"] += [(name, path, pat, "intlist") for (name, path, pat) in SHAPES]
CONSTANTS["C10"] += [
    ("MAX_LOW_HALF_LEN", "arrow-ord/src/cmp.rs", r"const MAX_LOW_HALF_LEN:\s*u32\s*=\s*(\d+);", "int"),
    ("LEXSORT_HEAP_DIVISOR", "arrow-ord/src/sort.rs", r"Some\(limit\) if limit <= row_count / (\d+) =>", "int"),
]

FUNCTIONS = {}
