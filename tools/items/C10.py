"""C10 items the translator (tools/translate.py) extracts from /repo on every run.

CONSTANTS[group] = [(lean_name, file relative to /repo, regex with ONE group, kind)]

The float total-order key (`f64::total_cmp`, `f32::total_cmp`, `half::f16::total_cmp`) lives in
std / the `half` crate, not in /repo, so its shift amounts are fixed in the model; what /repo
contributes are the byte-prefix / inline-view constants below.
"""
CONSTANTS = {
    "C10": [
        # sort_bytes: `let prefix = if slice.len() >= 4 {`  — length of the big-endian prefix key
        ("SORT_BYTES_PREFIX_LEN", "arrow-ord/src/sort.rs", r"let prefix = if slice\.len\(\)\s*>=\s*(\d+)\s*\{", "int"),
        # sort_bytes: `v << (8 * (4 - slice.len()))` — left padding of short values
        ("SORT_BYTES_PAD_TO", "arrow-ord/src/sort.rs", r"v\s*<<\s*\(8\s*\*\s*\((\d+)\s*-\s*slice\.len\(\)\)\)", "int"),
        # sort_bytes: `if la < 4 || lb < 4 {` — when the length shortcut applies
        ("SORT_BYTES_SHORT_A", "arrow-ord/src/sort.rs", r"if la\s*<\s*(\d+)\s*\|\|\s*lb\s*<\s*\d+\s*\{", "int"),
        ("SORT_BYTES_SHORT_B", "arrow-ord/src/sort.rs", r"if la\s*<\s*\d+\s*\|\|\s*lb\s*<\s*(\d+)\s*\{", "int"),
        # view arrays: values of at most this many bytes are stored inline
        ("MAX_INLINE_VIEW_LEN", "arrow-data/src/byte_view.rs", r"pub const MAX_INLINE_VIEW_LEN:\s*u32\s*=\s*(\d+);", "int"),
        # inline_key_fast: `(raw.swap_bytes() << 32) | (raw as u32 as u128)`
        ("INLINE_KEY_SHIFT", "arrow-array/src/array/byte_view_array.rs", r"\(raw\.swap_bytes\(\)\s*<<\s*(\d+)\)\s*\|\s*\(raw as u32 as u128\)", "int"),
        # compare_unchecked: `if l_len <= 12 && r_len <= 12 {`
        ("VIEW_CMP_INLINE_L", "arrow-array/src/array/byte_view_array.rs", r"if l_len\s*<=\s*(\d+)\s*&&\s*r_len\s*<=\s*\d+\s*\{", "int"),
        ("VIEW_CMP_INLINE_R", "arrow-array/src/array/byte_view_array.rs", r"if l_len\s*<=\s*\d+\s*&&\s*r_len\s*<=\s*(\d+)\s*\{", "int"),
        # cmp.rs is_lt for views: `if (*l_view as u32) <= 12 && (*r_view as u32) <= 12 {`
        ("VIEW_LT_INLINE_L", "arrow-ord/src/cmp.rs", r"if \(\*l_view as u32\)\s*<=\s*(\d+)\s*&&\s*\(\*r_view as u32\)\s*<=\s*\d+\s*\{", "int"),
        ("VIEW_LT_INLINE_R", "arrow-ord/src/cmp.rs", r"if \(\*l_view as u32\)\s*<=\s*\d+\s*&&\s*\(\*r_view as u32\)\s*<=\s*(\d+)\s*\{", "int"),
    ],
}
FUNCTIONS = {}
