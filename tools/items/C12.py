"""C12 items the translator (tools/translate.py) extracts from /repo on every run.

CONSTANTS[group] = [(lean_name, file relative to /repo, regex with ONE group, kind)]
Only constants the *correctness* of the arithmetic depends on (shift amounts, limb split,
chunk sizes of the i256 parser, decimal type rules, seconds per day).  Lane counts and
vector sizes of the aggregates are tuning knobs: the theorems are parametric in them.
"""
_BIG = "arrow-buffer/src/bigint/mod.rs"
_NUM = "arrow-arith/src/numeric.rs"
_DT = "arrow-schema/src/datatype.rs"
CONSTANTS = {
    "C12": [
        # i256::from_i128: sign extension `v >> 127`
        ("FROM_I128_SIGN_SHIFT", _BIG, r"Self::from_parts\(v as u128, v >> (\d+)\)", "int"),
        # i256::wrapping_abs: sign mask `self.high >> 127`
        ("ABS_SIGN_SHIFT", _BIG, r"let sa = self\.high >> (\d+);", "int"),
        # i256::checked_mul: sign masks
        ("MUL_L_SIGN_SHIFT", _BIG, r"let l_sa = self\.high >> (\d+);", "int"),
        ("MUL_R_SIGN_SHIFT", _BIG, r"let r_sa = other\.high >> (\d+);", "int"),
        # mulx: 64-bit limb split
        ("MULX_SPLIT_SHIFT", _BIG, r"\(a & \(u64::MAX as u128\), a >> (\d+)\)", "int"),
        ("MULX_CARRY_SHIFT_1", _BIG, r"low \+= carry << (\d+);\s*let mut high = carry >> \d+;", "int"),
        ("MULX_HIGH_SHIFT_1", _BIG, r"low \+= carry << \d+;\s*let mut high = carry >> (\d+);", "int"),
        ("MULX_LOW_CARRY_SHIFT", _BIG, r"carry = low >> (\d+);", "int"),
        ("MULX_CARRY_SHIFT_2", _BIG, r"low \+= carry << (\d+);\s*high \+= carry >> \d+;", "int"),
        ("MULX_HIGH_SHIFT_2", _BIG, r"low \+= carry << \d+;\s*high \+= carry >> (\d+);", "int"),
        # FromStr for i256: chunks of 38 decimal digits, multiplier 10^38
        ("PARSE_CHUNK_DIGITS", _BIG, r"let split = s\.len\(\) - (\d+);", "int"),
        ("PARSE_CHUNK_POW", _BIG, r"high\.checked_mul\(i256::from_i128\(10_i128\.pow\((\d+)\)\)\)", "int"),
        # decimal_op
        ("DECIMAL_DIV_SCALE_INCREMENT", _NUM, r"let result_scale = s1\.saturating_add\((\d+)\)\.min\(T::MAX_SCALE\);", "int"),
        ("DATE32_SECONDS_IN_DAY", _NUM, r"const NUM_SECONDS_IN_DAY: i64 = ([^;]+);", "int"),
        ("DECIMAL32_MAX_PRECISION", _DT, r"pub const DECIMAL32_MAX_PRECISION: u8 = (\d+);", "int"),
        ("DECIMAL32_MAX_SCALE", _DT, r"pub const DECIMAL32_MAX_SCALE: i8 = (\d+);", "int"),
        ("DECIMAL64_MAX_PRECISION", _DT, r"pub const DECIMAL64_MAX_PRECISION: u8 = (\d+);", "int"),
        ("DECIMAL64_MAX_SCALE", _DT, r"pub const DECIMAL64_MAX_SCALE: i8 = (\d+);", "int"),
        ("DECIMAL128_MAX_PRECISION", _DT, r"pub const DECIMAL128_MAX_PRECISION: u8 = (\d+);", "int"),
        ("DECIMAL128_MAX_SCALE", _DT, r"pub const DECIMAL128_MAX_SCALE: i8 = (\d+);", "int"),
        ("DECIMAL256_MAX_PRECISION", _DT, r"pub const DECIMAL256_MAX_PRECISION: u8 = (\d+);", "int"),
        ("DECIMAL256_MAX_SCALE", _DT, r"pub const DECIMAL256_MAX_SCALE: i8 = (\d+);", "int"),
    ],
}
FUNCTIONS = {}
