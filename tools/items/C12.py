"""C12 items the translator (tools/translate.py) extracts from /repo on every run.

CONSTANTS[group] = [(lean_name, file relative to /repo, regex with ONE group, kind)]
Only constants the *correctness* of the arithmetic depends on (shift amounts, limb split,
chunk sizes of the i256 parser, decimal type rules, seconds per day).  Lane counts and
vector sizes of the aggregates are tuning knobs: the theorems are parametric in them.
"""
_BIG = "arrow-buffer/src/bigint/mod.rs"
_NUM = "arrow-arith/src/numeric.rs"
_DT = "arrow-schema/src/datatype.rs"
CONSTANTS = {
    "C12": [
        # i256::from_i128: sign extension `v >> 127`
        ("FROM_I128_SIGN_SHIFT", _BIG, r"Self::from_parts\(v as u128, v >> (\d+)\)", "int"),
        # i256::wrapping_abs: sign mask `self.high >> 127`
        ("ABS_SIGN_SHIFT", _BIG, r"let sa = self\.high >> (\d+);", "int"),
        # i256::checked_mul: sign masks
        ("MUL_L_SIGN_SHIFT", _BIG, r"let l_sa = self\.high >> (\d+);", "int"),
        ("MUL_R_SIGN_SHIFT", _BIG, r"let r_sa = other\.high >> (\d+);", "int"),
        # mulx: 64-bit limb split
        ("MULX_SPLIT_SHIFT", _BIG, r"\(a & \(u64::MAX as u128\), a >> (\d+)\)", "int"),
        ("MULX_CARRY_SHIFT_1", _BIG, r"low \+= carry << (\d+);\s*let mut high = carry >> \d+;", "int"),
        ("MULX_HIGH_SHIFT_1", _BIG, r"low \+= carry << \d+;\s*let mut high = carry >> (\d+);", "int"),
        ("MULX_LOW_CARRY_SHIFT", _BIG, r"carry = low >> (\d+);", "int"),
        ("MULX_CARRY_SHIFT_2", _BIG, r"low \+= carry << (\d+);\s*high \+= carry >> \d+;", "int"),
        ("MULX_HIGH_SHIFT_2", _BIG, r"low \+= carry << \d+;\s*high \+= carry >> (\d+);", "int"),
        # FromStr for i256: chunks of 38 decimal digits, multiplier 10^38
        ("PARSE_CHUNK_DIGITS", _BIG, r"let split = s\.len\(\) - (\d+);", "int"),
        ("PARSE_CHUNK_POW", _BIG, r"high\.checked_mul\(i256::from_i128\(10_i128\.pow\((\d+)\)\)\)", "int"),
        # decimal_op
        ("DECIMAL_DIV_SCALE_INCREMENT", _NUM, r"let result_scale = s1\.saturating_add\((\d+)\)\.min\(T::MAX_SCALE\);", "int"),
        ("DATE32_SECONDS_IN_DAY", _NUM, r"const NUM_SECONDS_IN_DAY: i64 = ([^;]+);", "int"),
        ("DECIMAL32_MAX_PRECISION", _DT, r"pub const DECIMAL32_MAX_PRECISION: u8 = (\d+);", "int"),
        ("DECIMAL32_MAX_SCALE", _DT, r"pub const DECIMAL32_MAX_SCALE: i8 = (\d+);", "int"),
        ("DECIMAL64_MAX_PRECISION", _DT, r"pub const DECIMAL64_MAX_PRECISION: u8 = (\d+);", "int"),
        ("DECIMAL64_MAX_SCALE", _DT, r"pub const DECIMAL64_MAX_SCALE: i8 = (\d+);", "int"),
        ("DECIMAL128_MAX_PRECISION", _DT, r"pub const DECIMAL128_MAX_PRECISION: u8 = (\d+);", "int"),
        ("DECIMAL128_MAX_SCALE", _DT, r"pub const DECIMAL128_MAX_SCALE: i8 = (\d+);", "int"),
        ("DECIMAL256_MAX_PRECISION", _DT, r"pub const DECIMAL256_MAX_PRECISION: u8 = (\d+);", "int"),
        ("DECIMAL256_MAX_SCALE", _DT, r"pub const DECIMAL256_MAX_SCALE: i8 = (\d+);", "int"),
    ],
}

# ---- shape ties: the SHAPE of a critical expression (guard, operand order, mask source).  The
# regex must still find the expression as written (whitespace tolerant); the captured group is
# merely the next integer literal in the file (value irrelevant).  If the expression is edited
# the item goes LOST and `ArrowModel.C12.source_shapes` (obligation) no longer checks.
_BOOL = "arrow-arith/src/boolean.rs"
_ARI = "arrow-arith/src/arity.rs"
_AGG = "arrow-arith/src/aggregate.rs"
_NOP = "arrow-array/src/arithmetic.rs"
_N = r".*?(\d+)"
def _ws(x):
    import re as _re
    return r"\s*".join(_re.escape(t) for t in x.split())
_SHAPES = [
    ("SHAPE_AND_KLEENE_BOTH", _BOOL, "|a, b, c, d| (a | (c & !d)) & (c | (a & !b))"),
    ("SHAPE_OR_KLEENE_BOTH", _BOOL, "|a, b, c, d| (a | (c & d)) & (c | (a & b))"),
    ("SHAPE_AND_KLEENE_ONE_L", _BOOL, "left_null_buffer.buffer(), left_null_buffer.offset(), right_values.inner(), right_values.offset(), left.len(), |a, b| a | !b,"),
    ("SHAPE_AND_KLEENE_ONE_R", _BOOL, "right_null_buffer.buffer(), right_null_buffer.offset(), left_values.inner(), left_values.offset(), left.len(), |a, b| a | !b,"),
    ("SHAPE_OR_KLEENE_ONE_L", _BOOL, "left_nulls.buffer(), left_nulls.offset(), right_values.inner(), right_values.offset(), left.len(), |a, b| a | b,"),
    ("SHAPE_OR_KLEENE_ONE_R", _BOOL, "right_nulls.buffer(), right_nulls.offset(), left_values.inner(), left_values.offset(), left.len(), |a, b| a | b,"),
    ("SHAPE_KLEENE_QUAT_ORDER_AND", _BOOL, "[ left_null_buffer.buffer(), left_values.inner(), right_null_buffer.buffer(), right_values.inner(), ], [ left_null_buffer.offset(), left_values.offset(), right_null_buffer.offset(), right_values.offset(), ],"),
    ("SHAPE_KLEENE_QUAT_ORDER_OR", _BOOL, "[ left_nulls.buffer(), left_values.inner(), right_nulls.buffer(), right_values.inner(), ], [ left_nulls.offset(), left_values.offset(), right_nulls.offset(), right_values.offset(), ],"),
    ("SHAPE_AND_KLEENE_VALUES", _BOOL, "Ok(BooleanArray::new(left_values & right_values, nulls))"),
    ("SHAPE_OR_KLEENE_VALUES", _BOOL, "Ok(BooleanArray::new(left_values | right_values, nulls))"),
    ("SHAPE_BOOL_BINARY_NULLS", _BOOL, "let nulls = NullBuffer::union(left.nulls(), right.nulls()); let values = op(left.values(), right.values());"),
    ("SHAPE_DIV_CHECKED_GUARD", _NOP, "fn div_checked(self, rhs: Self) -> Result<Self, ArrowError> { if rhs.is_zero() { Err(ArrowError::DivideByZero) } else { self.checked_div(rhs).ok_or_else("),
    ("SHAPE_MOD_CHECKED_GUARD", _NOP, "fn mod_checked(self, rhs: Self) -> Result<Self, ArrowError> { if rhs.is_zero() { Err(ArrowError::DivideByZero) } else { self.checked_rem(rhs).ok_or_else("),
    ("SHAPE_ADD_CHECKED", _NOP, "fn add_checked(self, rhs: Self) -> Result<Self, ArrowError> { self.checked_add(rhs).ok_or_else("),
    ("SHAPE_NEG_CHECKED", _NOP, "fn neg_checked(self) -> Result<Self, ArrowError> { self.checked_neg().ok_or_else("),
    ("SHAPE_INTEGER_OP_ADD", _NUM, "Op::Add => try_op!(l, l_s, r, r_s, l.add_checked(r)),"),
    ("SHAPE_INTEGER_OP_SUB", _NUM, "Op::Sub => try_op!(l, l_s, r, r_s, l.sub_checked(r)),"),
    ("SHAPE_INTEGER_OP_MUL", _NUM, "Op::Mul => try_op!(l, l_s, r, r_s, l.mul_checked(r)),"),
    ("SHAPE_INTEGER_OP_DIV", _NUM, "Op::Div => try_op!(l, l_s, r, r_s, l.div_checked(r)),"),
    ("SHAPE_INTEGER_OP_REM", _NUM, "Op::Rem => try_op!(l, l_s, r, r_s, { if r.is_zero() { Err(ArrowError::DivideByZero) } else { Ok(l.mod_wrapping(r)) } }),"),
    ("SHAPE_TRY_OP_SCALAR_R", _NUM, "(false, true) => match ($r.null_count() == 0).then(|| $r.value(0)) { None => PrimitiveArray::new_null($l.len()), Some($r) => $l.try_unary(|$l| $op)?, },"),
    ("SHAPE_TRY_OP_SCALAR_L", _NUM, "(true, false) => match ($l.null_count() == 0).then(|| $l.value(0)) { None => PrimitiveArray::new_null($r.len()), Some($l) => $r.try_unary(|$r| $op)?, },"),
    ("SHAPE_TRY_BINARY_VALID_IDX", _ARI, "nulls.try_for_each_valid_idx(|idx| { unsafe { *slice.get_unchecked_mut(idx) = op(a.value_unchecked(idx), b.value_unchecked(idx))? };"),
    ("SHAPE_BINARY_NULL_UNION", _ARI, "let nulls = NullBuffer::union(a.logical_nulls().as_ref(), b.logical_nulls().as_ref()); let values = a .values() .into_iter() .zip(b.values()) .map(|(l, r)| op(*l, *r));"),
    ("SHAPE_I256_WRAPPING_ADD", _BIG, "let (low, carry) = self.low.overflowing_add(other.low); let high = self.high.wrapping_add(other.high).wrapping_add(carry as _);"),
    ("SHAPE_I256_WRAPPING_SUB", _BIG, "let (low, carry) = self.low.overflowing_sub(other.low); let high = self.high.wrapping_sub(other.high).wrapping_sub(carry as _);"),
    ("SHAPE_I256_ADD_OVERFLOW", _BIG, "let overflow = (self.high < 0) == (rhs.high < 0) && (high < 0) != (self.high < 0);"),
    ("SHAPE_I256_SUB_OVERFLOW", _BIG, "let overflow = (self.high < 0) != (rhs.high < 0) && (high < 0) != (self.high < 0);"),
    ("SHAPE_I256_NEG", _BIG, "Self::from_parts(!self.low, !self.high).wrapping_add(i256::ONE)"),
    ("SHAPE_I256_CMP", _BIG, "self.high.cmp(&other.high).then(self.low.cmp(&other.low))"),
    ("SHAPE_I256_MUL_BOTH_HIGH", _BIG, "if l_abs.high != 0 && r_abs.high != 0 { return None; }"),
    ("SHAPE_I256_MUL_SIGN_TEST", _BIG, "if high.is_negative() == (self.is_negative() ^ other.is_negative()) { Some(Self { low, high }) } else { None }"),
    ("SHAPE_I256_MUL_SIGNFIX", _BIG, "let (low, c) = (low ^ out_sa).overflowing_sub(out_sa); let high = (high ^ out_sa).wrapping_sub(out_sa).wrapping_sub(c as u128) as i128;"),
    ("SHAPE_I256_WRAPPING_MUL", _BIG, "let hl = self.high.wrapping_mul(other.low as i128); let lh = (self.low as i128).wrapping_mul(other.high); Self { low, high: (high as i128).wrapping_add(hl).wrapping_add(lh), }"),
    ("SHAPE_MULX_BODY", _BIG, "let (mut low, mut carry) = split(a_low * b_low); carry += a_high * b_low;"),
    ("SHAPE_MULX_BODY2", _BIG, "carry += b_high * a_low;"),
    ("SHAPE_MULX_BODY3", _BIG, "high += a_high * b_high; (low, high)"),
    ("SHAPE_SUM_CHECKED_FOLD", _AGG, "accumulator.add_checked(*value)"),
    ("SHAPE_SUM_ACC_NULLABLE", _AGG, "self.sum = select(valid, sum.add_wrapping(value), sum)"),
    ("SHAPE_MIN_ACC_NULLABLE", _AGG, "let is_lt = valid & value.is_lt(min); self.min = select(is_lt, value, min);"),
    ("SHAPE_MAX_ACC_NULLABLE", _AGG, "let is_gt = value.is_gt(max) & valid; self.max = select(is_gt, value, max);"),
    ("SHAPE_AGG_CHUNK_VALIDITY", _AGG, "acc[i].accumulate_nullable(values[i], (validity & bit) != 0); bit <<= 1;"),
    ("SHAPE_DECIMAL_ADD_PRECISION", _NUM, "(result_scale.saturating_add((*p1 as i8 - s1).max(*p2 as i8 - s2)) as u8) .saturating_add(1) .min(T::MAX_PRECISION);"),
    ("SHAPE_DECIMAL_MUL_TYPE", _NUM, "let result_precision = p1.saturating_add(p2 + 1).min(T::MAX_PRECISION); let result_scale = s1.saturating_add(*s2);"),
    ("SHAPE_DECIMAL_DIV_TYPE", _NUM, "let mul_pow = result_scale - s1 + s2;"),
    ("SHAPE_DECIMAL_REM_PRECISION", _NUM, "(result_scale.saturating_add((*p1 as i8 - s1).min(*p2 as i8 - s2)) as u8) .min(T::MAX_PRECISION);"),
]
CONSTANTS["C12"] += [(n, f, _ws(x) + _N, "int") for (n, f, x) in _SHAPES]
SHAPE_NAMES = [n for (n, _, _) in _SHAPES]
FUNCTIONS = {}
