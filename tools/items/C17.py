"""C17 items the translator (tools/translate.py) extracts from /repo on every run.

Every literal the Avro / JSON-tape theorems depend on: the varint continuation bit, payload
mask and shift of `write_long` and of the two `read_varint` paths, the zig-zag shift amounts
on both sides, the union branch bytes of the nullable encoder, the OCF magic / sync size,
the single-object prefix, the escape bytes and the surrogate ranges of the JSON tape decoder.
The Lean model is written in terms of these names, so a changed literal either breaks a
proof or changes the model answer that the correspondence run compares.
"""
_ENC = "arrow-avro/src/writer/encoder.rs"
_VLQ = "arrow-avro/src/reader/vlq.rs"
_CUR = "arrow-avro/src/reader/cursor.rs"
_REC = "arrow-avro/src/reader/record.rs"
_BLK = "arrow-avro/src/reader/block.rs"
_FMT = "arrow-avro/src/writer/format.rs"
_HDR = "arrow-avro/src/reader/header.rs"
_SCH = "arrow-avro/src/schema.rs"
_TAPE = "arrow-json/src/reader/tape.rs"
_H = r"(0x[0-9A-Fa-f_]+|[0-9_]+)"

CONSTANTS = {
    "C17": [
        # ---- writer: write_long
        ("W_ZZ_SHL", _ENC, r"pub\(crate\) fn write_long<.*?let mut zz = \(\(value << ([0-9]+)\) \^ \(value >> [0-9]+\)\) as u64;", "int"),
        ("W_ZZ_SAR", _ENC, r"pub\(crate\) fn write_long<.*?let mut zz = \(\(value << [0-9]+\) \^ \(value >> ([0-9]+)\)\) as u64;", "int"),
        ("W_MAXLEN", _ENC, r"pub\(crate\) fn write_long<.*?let mut buf = \[0u8; ([0-9]+)\];", "int"),
        ("W_LOOP_MASK", _ENC, r"pub\(crate\) fn write_long<.*?while \(zz & !" + _H + r"\) != 0 \{", "int"),
        ("W_PAYLOAD_MASK", _ENC, r"pub\(crate\) fn write_long<.*?buf\[i\] = \(\(zz & " + _H + r"\) as u8\) \| 0x80;", "int"),
        ("W_CONT_BIT", _ENC, r"pub\(crate\) fn write_long<.*?buf\[i\] = \(\(zz & 0x7F\) as u8\) \| " + _H + r";", "int"),
        ("W_SHIFT", _ENC, r"pub\(crate\) fn write_long<.*?i \+= 1;\s*zz >>= ([0-9]+);", "int"),
        ("W_LAST_MASK", _ENC, r"pub\(crate\) fn write_long<.*?\}\s*buf\[i\] = \(zz & " + _H + r"\) as u8;", "int"),
        # ---- writer: minimal_twos_complement / write_sign_extended (Avro decimal payloads)
        ("M_SIGN_MASK", _ENC, r"fn minimal_twos_complement\(.*?let sign_byte = if \(be\[0\] & " + _H + r"\) != 0 \{ 0xFF \} else \{ 0x00 \};", "int"),
        ("M_NEG_BYTE", _ENC, r"fn minimal_twos_complement\(.*?let sign_byte = if \(be\[0\] & 0x80\) != 0 \{ " + _H + r" \} else \{ 0x00 \};", "int"),
        ("M_POS_BYTE", _ENC, r"fn minimal_twos_complement\(.*?let sign_byte = if \(be\[0\] & 0x80\) != 0 \{ 0xFF \} else \{ " + _H + r" \};", "int"),
        # the redundancy test `((be[k] ^ sign_byte) & 0x80) == 0`  (k sign bytes are dropped iff the next byte already carries the sign bit)
        ("M_DROP_MASK", _ENC, r"fn minimal_twos_complement\(.*?let drop = if \(\(be\[k\] \^ sign_byte\) & " + _H + r"\) == 0 \{\s*k\s*\} else \{\s*k - 1\s*\};", "int"),
        ("M_KEEP_ONE", _ENC, r"fn minimal_twos_complement\(.*?if k == be\.len\(\) \{\s*return &be\[be\.len\(\) - ([0-9]+)\.\.\];", "int"),
        ("X_SIGN_MASK", _ENC, r"fn write_sign_extended<.*?let sign_byte = if len > 0 && \(src_be\[0\] & " + _H + r"\) != 0 \{", "int"),
        ("X_TRUNC_MASK", _ENC, r"fn write_sign_extended<.*?\|\| \(\(src_be\[extra\] \^ sign_byte\) & " + _H + r"\) != 0", "int"),
        # ---- reader: sign_cast_to
        ("S_SIGN_MASK", _REC, r"fn sign_cast_to<.*?let sign_byte = if \(first & " + _H + r"\) == 0 \{ 0x00 \} else \{ 0xFF \};", "int"),
        ("S_NEG_BYTE", _REC, r"fn sign_cast_to<.*?let sign_byte = if \(first & 0x80\) == 0 \{ 0x00 \} else \{ " + _H + r" \};", "int"),
        ("S_TRUNC_MASK", _REC, r"fn sign_cast_to<.*?let sign_bit_mismatch = \(\(first_kept \^ sign_byte\) & " + _H + r"\) != 0;", "int"),
        # ---- writer: nullable union branch byte
        ("W_BRANCH_A", _ENC, r"fn union_value_branch_byte\(.*?if nulls_first == is_null \{ " + _H + r" \} else \{ 0x[0-9A-Fa-f]+ \}", "int"),
        ("W_BRANCH_B", _ENC, r"fn union_value_branch_byte\(.*?if nulls_first == is_null \{ 0x[0-9A-Fa-f]+ \} else \{ " + _H + r" \}", "int"),
        # ---- reader: read_varint fast/array/slow paths
        ("R_FAST_LIMIT", _VLQ, r"pub\(crate\) fn read_varint\(.*?if first < " + _H + r" \{\s*return Some\(\(first as u64, 1\)\);", "int"),
        ("R_ARRAY_LEN", _VLQ, r"pub\(crate\) fn read_varint\(.*?if let Some\(array\) = buf\.get\(\.\.([0-9]+)\) \{", "int"),
        ("R_ARRAY_TAKE", _VLQ, r"fn read_varint_array\(.*?buf\.into_iter\(\)\.take\(([0-9]+)\)\.enumerate\(\)", "int"),
        ("R_ARRAY_SHIFT", _VLQ, r"fn read_varint_array\(.*?in_progress \+= \(b as u64\) << \(([0-9]+) \* idx\);", "int"),
        ("R_ARRAY_CONT", _VLQ, r"fn read_varint_array\(.*?if b < " + _H + r" \{\s*return Some\(\(in_progress, idx \+ 1\)\);", "int"),
        ("R_ARRAY_SUB", _VLQ, r"fn read_varint_array\(.*?in_progress -= " + _H + r" << \(7 \* idx\);", "int"),
        ("R_ARRAY_LAST_IDX", _VLQ, r"fn read_varint_array\(.*?let b = buf\[([0-9]+)\] as u64;", "int"),
        ("R_ARRAY_LAST_LIMIT", _VLQ, r"fn read_varint_array\(.*?\(b < " + _H + r"\)\.then_some\(\(in_progress, 10\)\)", "int"),
        ("R_SLOW_TAKE", _VLQ, r"fn read_varint_slow\(.*?buf\.iter\(\)\.take\(([0-9]+)\)\.enumerate\(\)", "int"),
        ("R_SLOW_MASK", _VLQ, r"fn read_varint_slow\(.*?value \|= u64::from\(byte & " + _H + r"\) << \(count \* 7\);", "int"),
        ("R_SLOW_SHIFT", _VLQ, r"fn read_varint_slow\(.*?value \|= u64::from\(byte & 0x7F\) << \(count \* ([0-9]+)\);", "int"),
        ("R_SLOW_TERM", _VLQ, r"fn read_varint_slow\(.*?if byte <= " + _H + r" \{", "int"),
        ("R_SLOW_LAST_COUNT", _VLQ, r"fn read_varint_slow\(.*?return \(count != ([0-9]+) \|\| byte < 2\)", "int"),
        ("R_SLOW_LAST_LIMIT", _VLQ, r"fn read_varint_slow\(.*?return \(count != 9 \|\| byte < ([0-9]+)\)", "int"),
        # ---- reader: zig-zag of get_long / get_int and the block-level VLQDecoder::long
        ("R_ZZ_SHR", _CUR, r"pub\(crate\) fn get_long\(.*?Ok\(\(val >> ([0-9]+)\) as i64 \^ -\(\(val & 1\) as i64\)\)", "int"),
        ("R_ZZ_AND", _CUR, r"pub\(crate\) fn get_long\(.*?Ok\(\(val >> 1\) as i64 \^ -\(\(val & ([0-9]+)\) as i64\)\)", "int"),
        ("R_ZZ32_SHR", _CUR, r"pub\(crate\) fn get_int\(.*?Ok\(\(val >> ([0-9]+)\) as i32 \^ -\(\(val & 1\) as i32\)\)", "int"),
        ("R_ZZ32_AND", _CUR, r"pub\(crate\) fn get_int\(.*?Ok\(\(val >> 1\) as i32 \^ -\(\(val & ([0-9]+)\) as i32\)\)", "int"),
        ("B_OVF_SHIFT", _VLQ, r"pub fn long\(.*?if self\.shift == ([0-9]+) && byte >= 0x02 \{", "int"),
        ("B_OVF_LIMIT", _VLQ, r"pub fn long\(.*?if self\.shift == 63 && byte >= " + _H + r" \{", "int"),
        ("B_MASK", _VLQ, r"pub fn long\(.*?self\.in_progress \|= \(\(byte & " + _H + r"\) as u64\) << self\.shift;", "int"),
        ("B_SHIFT", _VLQ, r"pub fn long\(.*?self\.shift \+= ([0-9]+);", "int"),
        ("B_CONT", _VLQ, r"pub fn long\(.*?if byte & " + _H + r" == 0 \{", "int"),
        ("B_ZZ_SHR", _VLQ, r"pub fn long\(.*?return Ok\(Some\(\(val >> ([0-9]+)\) as i64 \^ -\(\(val & 1\) as i64\)\)\);", "int"),
        # ---- reader: list/map item cap, OCF sync size
        ("SYNC_SIZE_R", _BLK, r"if self\.bytes_remaining == 0 \{\s*self\.bytes_remaining = ([0-9]+);\s*self\.state = BlockDecoderState::Sync;", "int"),
        ("SYNC_SIZE_W", _FMT, r"pub struct AvroOcfFormat \{\s*sync_marker: \[u8; ([0-9]+)\],", "int"),
        # ---- OCF magic `Obj\x01` (writer literal and reader constant): the last byte
        ("OCF_MAGIC_VERSION_W", _FMT, r'writer\.write_all\(b"Obj\\x([0-9A-Fa-f]{2})"\)\?;', "int"),
        ("OCF_MAGIC_VERSION_R", _HDR, r'const MAGIC: &\[u8; 4\] = b"Obj\\x([0-9A-Fa-f]{2})";', "int"),
        ("OCF_MAGIC_LEN", _HDR, r'const MAGIC: &\[u8; ([0-9]+)\] = b"Obj\\x01";', "int"),
        # ---- single-object encoding prefix
        ("SINGLE_OBJECT_MAGIC", _SCH, r"pub const SINGLE_OBJECT_MAGIC: \[u8; 2\] = \[([^\]]+)\];", "intlist"),
        ("CONFLUENT_MAGIC", _SCH, r"pub const CONFLUENT_MAGIC: \[u8; 1\] = \[([^\]]+)\];", "intlist"),
        # ---- JSON tape decoder: short escapes and surrogate arithmetic
        ("J_ESC_B", _TAPE, r"b'b' => ([0-9]+),\s*// BS", "int"),
        ("J_ESC_F", _TAPE, r"b'f' => ([0-9]+),\s*// FF", "int"),
        ("J_LOW_MIN", _TAPE, r"fn char_from_surrogate_pair\(.*?\(" + _H + r"\.\.=0xDFFF, 0xD800\.\.=0xDBFF\) => \{", "int"),
        ("J_LOW_MAX", _TAPE, r"fn char_from_surrogate_pair\(.*?\(0xDC00\.\.=" + _H + r", 0xD800\.\.=0xDBFF\) => \{", "int"),
        ("J_HIGH_MIN", _TAPE, r"fn char_from_surrogate_pair\(.*?\(0xDC00\.\.=0xDFFF, " + _H + r"\.\.=0xDBFF\) => \{", "int"),
        ("J_HIGH_MAX", _TAPE, r"fn char_from_surrogate_pair\(.*?\(0xDC00\.\.=0xDFFF, 0xD800\.\.=" + _H + r"\) => \{", "int"),
        # `let n = (((high - 0xD800) as u32) << 10) <op> …(low - 0xDC00) as u32 + 0x1_0000…;`  the pinned tree
        # combines the halves with `|` (wrong above plane 1), a fixed tree with `+`: the operand literals are
        # extracted from either spelling and J_PAIR_IS_ADD says which operator the source has; the model follows it.
        ("J_PAIR_SHIFT", _TAPE, r"let n = \(\(\(high - 0xD800\) as u32\) << ([0-9]+)\) [|+] \(?\(low - 0xDC00\) as u32 \+ 0x1_0000\)?;", "int"),
        ("J_PAIR_BASE", _TAPE, r"let n = \(\(\(high - 0xD800\) as u32\) << 10\) [|+] \(?\(low - 0xDC00\) as u32 \+ " + _H + r"\)?;", "int"),
        ("J_PAIR_HIGH_SUB", _TAPE, r"let n = \(\(\(high - " + _H + r"\) as u32\) << 10\)", "int"),
        ("J_PAIR_LOW_SUB", _TAPE, r"let n = \(\(\(high - 0xD800\) as u32\) << 10\) [|+] \(?\(low - " + _H + r"\) as u32 \+ 0x1_0000\)?;", "int"),
        # 0 when the two halves are combined with `|`, 1 when with `+` (one capture group that lands on the
        # last digit of `0xDC00` in the first spelling and on the `1` of `0x1_0000` in the second)
        ("J_PAIR_IS_ADD", _TAPE, r"let n = \(\(\(high - 0xD800\) as u32\) << 10\) (?:\| \(\(low - 0xDC0|\+ \(low - 0xDC00\) as u32 \+ 0x)([01])", "int"),
        # ---- JSON reader: hex-encoded binary columns (decode_hex_to_writer's scratch buffer and nibble shift)
        ("J_BIN_BUF", "arrow-json/src/reader/binary_array.rs", r"fn decode_hex_to_writer<.*?let mut buffer = \[0u8; ([0-9]+)\];", "int"),
        ("J_BIN_SHIFT", "arrow-json/src/reader/binary_array.rs", r"fn decode_hex_to_writer<.*?= \(high << ([0-9]+)\) \| low;", "int"),
        ("J_BIN_DIGIT_A", "arrow-json/src/reader/binary_array.rs", r"fn decode_hex_digit\(.*?b'a'\.\.=b'f' => Some\(byte - b'a' \+ ([0-9]+)\),", "int"),
        ("J_HEX_SHIFT", _TAPE, r"0\.\.=3 => \*high = \(\*high << ([0-9]+)\) \| parse_hex\(next!\(iter\)\)\? as u16,", "int"),
    ],
}
FUNCTIONS = {}
