"""C17 items the translator (tools/translate.py) extracts from /repo on every run.

Every literal the Avro / JSON-tape theorems depend on: the varint continuation bit, payload
mask and shift of `write_long` and of the two `read_varint` paths, the zig-zag shift amounts
on both sides, the union branch bytes of the nullable encoder, the OCF magic / sync size,
the single-object prefix, the escape bytes and the surrogate ranges of the JSON tape decoder.
The Lean model is written in terms of these names, so a changed literal either breaks a
proof or changes the model answer that the correspondence run compares.
"""
_ENC = "arrow-avro/src/writer/encoder.rs"
_VLQ = "arrow-avro/src/reader/vlq.rs"
_CUR = "arrow-avro/src/reader/cursor.rs"
_REC = "arrow-avro/src/reader/record.rs"
_BLK = "arrow-avro/src/reader/block.rs"
_FMT = "arrow-avro/src/writer/format.rs"
_HDR = "arrow-avro/src/reader/header.rs"
_SCH = "arrow-avro/src/schema.rs"
_TAPE = "arrow-json/src/reader/tape.rs"
_H = r"(0x[0-9A-Fa-f_]+|[0-9_]+)"

CONSTANTS = {
    "C17": [
        # ---- writer: write_long
        ("W_ZZ_SHL", _ENC, r"pub\(crate\) fn write_long<.*?let mut zz = \(\(value << ([0-9]+)\) \^ \(value >> [0-9]+\)\) as u64;", "int"),
        ("W_ZZ_SAR", _ENC, r"pub\(crate\) fn write_long<.*?let mut zz = \(\(value << [0-9]+\) \^ \(value >> ([0-9]+)\)\) as u64;", "int"),
        ("W_MAXLEN", _ENC, r"pub\(crate\) fn write_long<.*?let mut buf = \[0u8; ([0-9]+)\];", "int"),
        ("W_LOOP_MASK", _ENC, r"pub\(crate\) fn write_long<.*?while \(zz & !" + _H + r"\) != 0 \{", "int"),
        ("W_PAYLOAD_MASK", _ENC, r"pub\(crate\) fn write_long<.*?buf\[i\] = \(\(zz & " + _H + r"\) as u8\) \| 0x80;", "int"),
        ("W_CONT_BIT", _ENC, r"pub\(crate\) fn write_long<.*?buf\[i\] = \(\(zz & 0x7F\) as u8\) \| " + _H + r";", "int"),
        ("W_SHIFT", _ENC, r"pub\(crate\) fn write_long<.*?i \+= 1;\s*zz >>= ([0-9]+);", "int"),
        ("W_LAST_MASK", _ENC, r"pub\(crate\) fn write_long<.*?\}\s*buf\[i\] = \(zz & " + _H + r"\) as u8;", "int"),
        # ---- writer: minimal_twos_complement / write_sign_extended (Avro decimal payloads)
        ("M_SIGN_MASK", _ENC, r"fn minimal_twos_complement\(.*?let sign_byte = if \(be\[0\] & " + _H + r"\) != 0 \{ 0xFF \} else \{ 0x00 \};", "int"),
        ("M_NEG_BYTE", _ENC, r"fn minimal_twos_complement\(.*?let sign_byte = if \(be\[0\] & 0x80\) != 0 \{ " + _H + r" \} else \{ 0x00 \};", "int"),
        ("M_POS_BYTE", _ENC, r"fn minimal_twos_complement\(.*?let sign_byte = if \(be\[0\] & 0x80\) != 0 \{ 0xFF \} else \{ " + _H + r" \};", "int"),
        # the redundancy test `((be[k] ^ sign_byte) & 0x80) == 0`  (k sign bytes are dropped iff the next byte already carries the sign bit)
        ("M_DROP_MASK", _ENC, r"fn minimal_twos_complement\(.*?let drop = if \(\(be\[k\] \^ sign_byte\) & " + _H + r"\) == 0 \{\s*k\s*\} else \{\s*k - 1\s*\};", "int"),
        ("M_KEEP_ONE", _ENC, r"fn minimal_twos_complement\(.*?if k == be\.len\(\) \{\s*return &be\[be\.len\(\) - ([0-9]+)\.\.\];", "int"),
        ("X_SIGN_MASK", _ENC, r"fn write_sign_extended<.*?let sign_byte = if len > 0 && \(src_be\[0\] & " + _H + r"\) != 0 \{", "int"),
        ("X_TRUNC_MASK", _ENC, r"fn write_sign_extended<.*?\|\| \(\(src_be\[extra\] \^ sign_byte\) & " + _H + r"\) != 0", "int"),
        # ---- reader: sign_cast_to
        ("S_SIGN_MASK", _REC, r"fn sign_cast_to<.*?let sign_byte = if \(first & " + _H + r"\) == 0 \{ 0x00 \} else \{ 0xFF \};", "int"),
        ("S_NEG_BYTE", _REC, r"fn sign_cast_to<.*?let sign_byte = if \(first & 0x80\) == 0 \{ 0x00 \} else \{ " + _H + r" \};", "int"),
        ("S_TRUNC_MASK", _REC, r"fn sign_cast_to<.*?let sign_bit_mismatch = \(\(first_kept \^ sign_byte\) & " + _H + r"\) != 0;", "int"),
        # ---- writer: nullable union branch byte
        ("W_BRANCH_A", _ENC, r"fn union_value_branch_byte\(.*?if nulls_first == is_null \{ " + _H + r" \} else \{ 0x[0-9A-Fa-f]+ \}", "int"),
        ("W_BRANCH_B", _ENC, r"fn union_value_branch_byte\(.*?if nulls_first == is_null \{ 0x[0-9A-Fa-f]+ \} else \{ " + _H + r" \}", "int"),
        # ---- reader: read_varint fast/array/slow paths
        ("R_FAST_LIMIT", _VLQ, r"pub\(crate\) fn read_varint\(.*?if first < " + _H + r" \{\s*return Some\(\(first as u64, 1\)\);", "int"),
        ("R_ARRAY_LEN", _VLQ, r"pub\(crate\) fn read_varint\(.*?if let Some\(array\) = buf\.get\(\.\.([0-9]+)\) \{", "int"),
        ("R_ARRAY_TAKE", _VLQ, r"fn read_varint_array\(.*?buf\.into_iter\(\)\.take\(([0-9]+)\)\.enumerate\(\)", "int"),
        ("R_ARRAY_SHIFT", _VLQ, r"fn read_varint_array\(.*?in_progress \+= \(b as u64\) << \(([0-9]+) \* idx\);", "int"),
        ("R_ARRAY_CONT", _VLQ, r"fn read_varint_array\(.*?if b < " + _H + r" \{\s*return Some\(\(in_progress, idx \+ 1\)\);", "int"),
        ("R_ARRAY_SUB", _VLQ, r"fn read_varint_array\(.*?in_progress -= " + _H + r" << \(7 \* idx\);", "int"),
        ("R_ARRAY_LAST_IDX", _VLQ, r"fn read_varint_array\(.*?let b = buf\[([0-9]+)\] as u64;", "int"),
        ("R_ARRAY_LAST_LIMIT", _VLQ, r"fn read_varint_array\(.*?\(b < " + _H + r"\)\.then_some\(\(in_progress, 10\)\)", "int"),
        ("R_SLOW_TAKE", _VLQ, r"fn read_varint_slow\(.*?buf\.iter\(\)\.take\(([0-9]+)\)\.enumerate\(\)", "int"),
        ("R_SLOW_MASK", _VLQ, r"fn read_varint_slow\(.*?value \|= u64::from\(byte & " + _H + r"\) << \(count \* 7\);", "int"),
        ("R_SLOW_SHIFT", _VLQ, r"fn read_varint_slow\(.*?value \|= u64::from\(byte & 0x7F\) << \(count \* ([0-9]+)\);", "int"),
        ("R_SLOW_TERM", _VLQ, r"fn read_varint_slow\(.*?if byte <= " + _H + r" \{", "int"),
        ("R_SLOW_LAST_COUNT", _VLQ, r"fn read_varint_slow\(.*?return \(count != ([0-9]+) \|\| byte < 2\)", "int"),
        ("R_SLOW_LAST_LIMIT", _VLQ, r"fn read_varint_slow\(.*?return \(count != 9 \|\| byte < ([0-9]+)\)", "int"),
        # ---- reader: zig-zag of get_long / get_int and the block-level VLQDecoder::long
        ("R_ZZ_SHR", _CUR, r"pub\(crate\) fn get_long\(.*?Ok\(\(val >> ([0-9]+)\) as i64 \^ -\(\(val & 1\) as i64\)\)", "int"),
        ("R_ZZ_AND", _CUR, r"pub\(crate\) fn get_long\(.*?Ok\(\(val >> 1\) as i64 \^ -\(\(val & ([0-9]+)\) as i64\)\)", "int"),
        ("R_ZZ32_SHR", _CUR, r"pub\(crate\) fn get_int\(.*?Ok\(\(val >> ([0-9]+)\) as i32 \^ -\(\(val & 1\) as i32\)\)", "int"),
        ("R_ZZ32_AND", _CUR, r"pub\(crate\) fn get_int\(.*?Ok\(\(val >> 1\) as i32 \^ -\(\(val & ([0-9]+)\) as i32\)\)", "int"),
        ("B_OVF_SHIFT", _VLQ, r"pub fn long\(.*?if self\.shift == ([0-9]+) && byte >= 0x02 \{", "int"),
        ("B_OVF_LIMIT", _VLQ, r"pub fn long\(.*?if self\.shift == 63 && byte >= " + _H + r" \{", "int"),
        ("B_MASK", _VLQ, r"pub fn long\(.*?self\.in_progress \|= \(\(byte & " + _H + r"\) as u64\) << self\.shift;", "int"),
        ("B_SHIFT", _VLQ, r"pub fn long\(.*?self\.shift \+= ([0-9]+);", "int"),
        ("B_CONT", _VLQ, r"pub fn long\(.*?if byte & " + _H + r" == 0 \{", "int"),
        ("B_ZZ_SHR", _VLQ, r"pub fn long\(.*?return Ok\(Some\(\(val >> ([0-9]+)\) as i64 \^ -\(\(val & 1\) as i64\)\)\);", "int"),
        # ---- reader: list/map item cap, OCF sync size
        ("SYNC_SIZE_R", _BLK, r"if self\.bytes_remaining == 0 \{\s*self\.bytes_remaining = ([0-9]+);\s*self\.state = BlockDecoderState::Sync;", "int"),
        ("SYNC_SIZE_W", _FMT, r"pub struct AvroOcfFormat \{\s*sync_marker: \[u8; ([0-9]+)\],", "int"),
        # ---- OCF magic `Obj\x01` (writer literal and reader constant): the last byte
        ("OCF_MAGIC_VERSION_W", _FMT, r'writer\.write_all\(b"Obj\\x([0-9A-Fa-f]{2})"\)\?;', "int"),
        ("OCF_MAGIC_VERSION_R", _HDR, r'const MAGIC: &\[u8; 4\] = b"Obj\\x([0-9A-Fa-f]{2})";', "int"),
        ("OCF_MAGIC_LEN", _HDR, r'const MAGIC: &\[u8; ([0-9]+)\] = b"Obj\\x01";', "int"),
        # ---- single-object encoding prefix
        ("SINGLE_OBJECT_MAGIC", _SCH, r"pub const SINGLE_OBJECT_MAGIC: \[u8; 2\] = \[([^\]]+)\];", "intlist"),
        ("CONFLUENT_MAGIC", _SCH, r"pub const CONFLUENT_MAGIC: \[u8; 1\] = \[([^\]]+)\];", "intlist"),
        # ---- JSON tape decoder: short escapes and surrogate arithmetic
        ("J_ESC_B", _TAPE, r"b'b' => ([0-9]+),\s*// BS", "int"),
        ("J_ESC_F", _TAPE, r"b'f' => ([0-9]+),\s*// FF", "int"),
        ("J_LOW_MIN", _TAPE, r"fn char_from_surrogate_pair\(.*?\(" + _H + r"\.\.=0xDFFF, 0xD800\.\.=0xDBFF\) => \{", "int"),
        ("J_LOW_MAX", _TAPE, r"fn char_from_surrogate_pair\(.*?\(0xDC00\.\.=" + _H + r", 0xD800\.\.=0xDBFF\) => \{", "int"),
        ("J_HIGH_MIN", _TAPE, r"fn char_from_surrogate_pair\(.*?\(0xDC00\.\.=0xDFFF, " + _H + r"\.\.=0xDBFF\) => \{", "int"),
        ("J_HIGH_MAX", _TAPE, r"fn char_from_surrogate_pair\(.*?\(0xDC00\.\.=0xDFFF, 0xD800\.\.=" + _H + r"\) => \{", "int"),
        # `let n = (((high - 0xD800) as u32) << 10) <op> …(low - 0xDC00) as u32 + 0x1_0000…;`  the pinned tree
        # combines the halves with `|` (wrong above plane 1), a fixed tree with `+`: the operand literals are
        # extracted from either spelling and J_PAIR_IS_ADD says which operator the source has; the model follows it.
        ("J_PAIR_SHIFT", _TAPE, r"let n = \(\(\(high - 0xD800\) as u32\) << ([0-9]+)\) [|+] \(?\(low - 0xDC00\) as u32 \+ 0x1_0000\)?;", "int"),
        ("J_PAIR_BASE", _TAPE, r"let n = \(\(\(high - 0xD800\) as u32\) << 10\) [|+] \(?\(low - 0xDC00\) as u32 \+ " + _H + r"\)?;", "int"),
        ("J_PAIR_HIGH_SUB", _TAPE, r"let n = \(\(\(high - " + _H + r"\) as u32\) << 10\)", "int"),
        ("J_PAIR_LOW_SUB", _TAPE, r"let n = \(\(\(high - 0xD800\) as u32\) << 10\) [|+] \(?\(low - " + _H + r"\) as u32 \+ 0x1_0000\)?;", "int"),
        # 0 when the two halves are combined with `|`, 1 when with `+` (one capture group that lands on the
        # last digit of `0xDC00` in the first spelling and on the `1` of `0x1_0000` in the second)
        ("J_PAIR_IS_ADD", _TAPE, r"let n = \(\(\(high - 0xD800\) as u32\) << 10\) (?:\| \(\(low - 0xDC0|\+ \(low - 0xDC00\) as u32 \+ 0x)([01])", "int"),
        # ---- JSON reader: hex-encoded binary columns (decode_hex_to_writer's scratch buffer and nibble shift)
        ("J_BIN_BUF", "arrow-json/src/reader/binary_array.rs", r"fn decode_hex_to_writer<.*?let mut buffer = \[0u8; ([0-9]+)\];", "int"),
        ("J_BIN_SHIFT", "arrow-json/src/reader/binary_array.rs", r"fn decode_hex_to_writer<.*?= \(high << ([0-9]+)\) \| low;", "int"),
        ("J_BIN_DIGIT_A", "arrow-json/src/reader/binary_array.rs", r"fn decode_hex_digit\(.*?b'a'\.\.=b'f' => Some\(byte - b'a' \+ ([0-9]+)\),", "int"),
        # ---- SHAPE items: kind "intlist" with an empty capture group — the value is the empty list when the exact
        # statement sequence is still in the source and LOST otherwise; `source_shapes` (Theorems.lean) asserts that none
        # of them is lost, so an edit of a guard / statement order / operand breaks an obligation.
        ("SH_BLOCK_EMPTY", _ENC, r"fn encode_blocked_range<.*?let len = end\.saturating_sub\(start\);\s*if len == 0 \{\s*(?://[^\n]*\n\s*)*write_long\(out, 0\)\?;\s*return Ok\(\(\)\);\s*\}()", "intlist"),
        ("SH_BLOCK_ONE", _ENC, r"fn encode_blocked_range<.*?write_long\(out, len as i64\)\?;\s*for row in start\.\.end \{\s*write_item\(out, row\)\?;\s*\}\s*write_long\(out, 0\)\?;\s*Ok\(\(\)\)()", "intlist"),
        ("SH_LEN_PREFIXED", _ENC, r"fn write_len_prefixed<.*?write_long\(out, bytes\.len\(\) as i64\)\?;\s*out\.write_all\(bytes\)()", "intlist"),
        ("SH_WRITE_BOOL", _ENC, r"fn write_bool<.*?out\.write_all\(&\[u8::from\(v\)\]\)()", "intlist"),
        ("SH_FIELD_NULL", _ENC, r"NullState::Nullable \{ nulls, null_order \} if nulls\.is_null\(idx\) => \{\s*return write_optional_index\(out, true, \*null_order\);[^\n]*\n\s*\}\s*NullState::Nullable \{ null_order, \.\. \} => \{\s*write_optional_index\(out, false, \*null_order\)\?;\s*\}\s*\}\s*self\.encoder\.encode\(out, idx\)()", "intlist"),
        ("SH_BRANCH_BYTE", _ENC, r"fn union_value_branch_byte\(null_order: Nullability, is_null: bool\) -> u8 \{\s*let nulls_first = null_order == Nullability::default\(\);\s*if nulls_first == is_null()", "intlist"),
        ("SH_UNION_ENC", _ENC, r"write_int\(out, encoder_index as i32\)\?;\s*let encoder = self\.encoders\.get_mut\(encoder_index\).*?encoder\.encode\(out, self\.array\.value_offset\(idx\)\)()", "intlist"),
        ("SH_MIN_TWOS", _ENC, r"fn minimal_twos_complement\(.*?while k < be\.len\(\) && be\[k\] == sign_byte \{\s*k \+= 1;\s*\}\s*if k == 0 \{\s*return be;\s*\}\s*if k == be\.len\(\) \{\s*return &be\[be\.len\(\) - 1\.\.\];\s*\}\s*let drop = if \(\(be\[k\] \^ sign_byte\) & 0x80\) == 0 \{\s*k\s*\} else \{\s*k - 1\s*\};\s*&be\[drop\.\.\]()", "intlist"),
        ("SH_DEC_ENC", _ENC, r"Some\(n\) => write_sign_extended\(out, &be, n\),\s*None => write_len_prefixed\(out, minimal_twos_complement\(&be\)\),()", "intlist"),
        ("SH_OCF_BLOCK", "arrow-avro/src/writer/mod.rs", r"write_long\(&mut self\.writer, batch\.num_rows\(\) as i64\)\?;\s*write_long\(&mut self\.writer, encoded\.len\(\) as i64\)\?;\s*self\.writer\s*\.write_all\(&encoded\).*?self\.writer\s*\.write_all\(sync\)()", "intlist"),
        ("SH_NULLABLE_READ", _REC, r"let branch = buf\.read_vlq\(\)\?;\s*let is_not_null = match \*nullability \{\s*Nullability::NullFirst => branch != 0,\s*Nullability::NullSecond => branch == 0,\s*\};()", "intlist"),
        ("SH_UNION_TAG", _REC, r"fn read_tag\(.*?let raw = buf\.get_long\(\)\?;\s*if raw < 0 \{()", "intlist"),
        ("SH_BLOCKWISE", _REC, r"let block_count = buf\.get_long\(\)\?;\s*match block_count\.cmp\(&0\) \{\s*Ordering::Equal => break,\s*Ordering::Less => \{.*?let count = block_count\.unsigned_abs\(\) as usize;.*?let raw_size = buf\.get_long\(\)\?;\s*let size_in_bytes = usize::try_from\(raw_size\)()", "intlist"),
        ("SH_BLOCK_CAP", _REC, r"fn process_block_items\(.*?\.checked_add\(count\)\s*\.filter\(\|&t\| i32::try_from\(t\)\.is_ok\(\)\)()", "intlist"),
        ("SH_GET_BYTES", _CUR, r"pub\(crate\) fn get_bytes\(.*?\.get_long\(\)\?\s*\.try_into\(\).*?if self\.buf\.len\(\) < len \{.*?let ret = &self\.buf\[\.\.len\];\s*self\.buf = &self\.buf\[len\.\.\];()", "intlist"),
        ("SH_GET_INT", _CUR, r"pub\(crate\) fn get_int\(.*?let varint = self\.read_vlq\(\)\?;\s*let val: u32 = varint\s*\.try_into\(\)()", "intlist"),
        ("SH_READ_VARINT", _VLQ, r"pub\(crate\) fn read_varint\(buf: &\[u8\]\) -> Option<\(u64, usize\)> \{\s*let first = \*buf\.first\(\)\?;\s*if first < 0x80 \{\s*return Some\(\(first as u64, 1\)\);\s*\}\s*if let Some\(array\) = buf\.get\(\.\.10\) \{\s*return read_varint_array\(array\.try_into\(\)\.unwrap\(\)\);\s*\}\s*read_varint_slow\(buf\)()", "intlist"),
        ("SH_SIGN_CAST", _REC, r"fn sign_cast_to<.*?if len == N \{.*?let first = raw\.first\(\)\.copied\(\)\.unwrap_or\(0u8\);.*?let mut out = \[sign_byte; N\];\s*if len > N \{.*?let extra = len - N;.*?if raw\[\.\.extra\]\.iter\(\)\.any\(\|&b\| b != sign_byte\).*?out\.copy_from_slice\(&raw\[extra\.\.\]\);\s*return Ok\(out\);\s*\}\s*out\[N - len\.\.\]\.copy_from_slice\(raw\);()", "intlist"),
        ("SH_HEX_LOOP", "arrow-json/src/reader/binary_array.rs", r"for \(pair_index, pair\) in \(&mut iter\)\.enumerate\(\) \{\s*let base = pair_index \* 2;.*?buffer\[buffered\] = \(high << 4\) \| low;\s*buffered \+= 1;\s*if buffered == buffer\.len\(\) \{\s*writer\s*\.write_all\(&buffer\).*?buffered = 0;\s*\}\s*\}()", "intlist"),
        ("SH_HEX_TAIL", "arrow-json/src/reader/binary_array.rs", r"let remainder = iter\.remainder\(\);\s*if !remainder\.is_empty\(\) \{.*?buffer\[buffered\] = low;\s*buffered \+= 1;\s*\}\s*if buffered > 0 \{\s*writer\s*\.write_all\(&buffer\[\.\.buffered\]\)()", "intlist"),
        ("SH_HEX_ENC", "arrow-json/src/writer/encoder.rs", r"for byte in self\.0\.value\(idx\) \{\s*(?://[^\n]*\n\s*)*write!\(out, \"\{byte:02x\}\"\)\.unwrap\(\);\s*\}\s*out\.push\(b'\"'\);()", "intlist"),
        ("SH_JSON_STR", "arrow-json/src/writer/encoder.rs", r"fn encode_string\(s: &str, out: &mut Vec<u8>\) \{\s*let mut serializer = serde_json::Serializer::new\(out\);\s*serializer\.serialize_str\(s\)\.unwrap\(\);()", "intlist"),
        ("SH_TAPE_UNICODE", _TAPE, r"4 => \{\s*if let Some\(c\) = char::from_u32\(\*high as u32\) \{\s*write_char\(c, &mut self\.bytes\);\s*self\.stack\.pop\(\);\s*break;\s*\}()", "intlist"),
        ("SH_CSV_WRITER_BUILD", "arrow-csv/src/writer.rs", r"\.delimiter\(self\.delimiter\)\s*\.quote\(self\.quote\)\s*\.quote_style\(self\.quote_style\)\s*\.double_quote\(self\.double_quote\)\s*\.escape\(self\.escape\)\s*\.terminator\(terminator\)()", "intlist"),
        ("SH_CSV_PARSER", "arrow-csv/src/reader/mod.rs", r"let mut builder = csv_core::ReaderBuilder::new\(\);\s*builder\.escape\(self\.escape\);\s*builder\.comment\(self\.comment\);\s*if let Some\(c\) = self\.delimiter \{\s*builder\.delimiter\(c\);\s*\}\s*if let Some\(c\) = self\.quote \{\s*builder\.quote\(c\);\s*\}\s*if let Some\(t\) = self\.terminator \{\s*builder\.terminator\(csv_core::Terminator::Any\(t\)\);\s*\}\s*builder\.build\(\)()", "intlist"),
        ("SH_CSV_NULL", "arrow-csv/src/reader/mod.rs", r"fn is_null\(&self, s: &str\) -> bool \{\s*match &self\.0 \{\s*Some\(r\) => r\.is_match\(s\),\s*None => s\.is_empty\(\),()", "intlist"),
        # statements introduced by the repairs 11fffc0 / 5656e05 / 5e7352b / 23ea81a / ab184de: reverting one of them is LOST
        ("SH_LIST_VALUES", _ENC, r"encode_blocked_range\(out, start, end, \|out, row\| self\.values\.encode\(out, row\)\)()", "intlist"),
        ("SH_MAP_VALUES", _ENC, r"let write_item = \|out: &mut W, j: usize\| self\.values\.encode\(out, j\);()", "intlist"),
        ("SH_VIEW_NULLS", _REC, r"Self::StringView\(offsets, values\) => \{\s*let offsets = flush_offsets\(offsets\);\s*let values = flush_values\(values\);\s*let array = StringArray::try_new\(offsets, values\.into\(\), nulls\)\?;\s*Arc::new\(StringViewArray::from_iter\(array\.iter\(\)\)\)()", "intlist"),
        ("SH_UUID_VIEW", "arrow-avro/src/codec.rs", r"""\(Some\("uuid"\), c @ \(Codec::Utf8 \| Codec::Utf8View\)\) => \{()""", "intlist"),
        ("SH_OCF_HEADER", _FMT, r"let avro_schema = match schema\.metadata\.get\(SCHEMA_METADATA_KEY\) \{\s*(?://[^\n]*\n\s*)*Some\(json\) => AvroSchema::new\(json\.clone\(\)\),\s*None => AvroSchema::from_arrow_with_options\(()", "intlist"),
        ("SH_OCF_HEADER_PICK", "arrow-avro/src/writer/mod.rs", r"let header_schema = if self\.schema\.metadata\.contains_key\(SCHEMA_METADATA_KEY\) \{\s*schema\.as_ref\(\)\s*\} else \{\s*&self\.schema\s*\};\s*format\.start_stream\(&mut writer, header_schema, self\.codec\)\?;()", "intlist"),
        ("SH_TRAILING_BYTES", "arrow-avro/src/reader/mod.rs", r"if self\.block_cursor < self\.block_data\.len\(\) \{\s*if self\.block_count == 0 \{\s*(?://[^\n]*\n\s*)*return Err\(AvroError::ParseError\(()", "intlist"),
        ("SH_TAPE_ESCAPES", _TAPE, r"""b'"' => b'"',\s*b'\\\\' => b'\\\\',\s*b'/' => b'/',\s*b'b' => 8,[^\n]*\n\s*b'f' => 12,[^\n]*\n\s*b'n' => b'\\n',\s*b'r' => b'\\r',\s*b't' => b'\\t',()""", "intlist"),
        ("SH_TAPE_STRING", _TAPE, r"""let s = iter\.skip_chrs\(b'\\\\', b'"'\);\s*self\.bytes\.extend_from_slice\(s\);\s*match next!\(iter\) \{\s*b'\\\\' => self\.stack\.push\(DecoderState::Escape\),()""", "intlist"),
        ("SH_CSV_WRITER_DEFAULTS", "arrow-csv/src/writer.rs", r"""delimiter: b',',\s*has_header: true,\s*quote: b'"',\s*escape: b'\\\\',\s*terminator: Terminator::Any\(b'\\n'\),\s*double_quote: true,()""", "intlist"),
        ("J_HEX_SHIFT", _TAPE, r"0\.\.=3 => \*high = \(\*high << ([0-9]+)\) \| parse_hex\(next!\(iter\)\)\? as u16,", "int"),
    ],
}
FUNCTIONS = {}
