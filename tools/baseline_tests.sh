#!/bin/sh
# Development aid: run apache/arrow-rs's pinned test suite (command of /root/.vp/BASELINE.json) on /repo's
# working tree and list every pinned test that no longer passes.
cd /repo || exit 2
CARGO_NET_OFFLINE=true cargo nextest run --workspace --no-fail-fast --tool-config-file pb:/w/lib/nextest.toml --profile pb --test-threads ${THREADS:-8} --offline > /tmp/baseline_tests.log 2>&1
python3 - <<'PY'
import json, xml.etree.ElementTree as ET
b = json.load(open("/root/.vp/BASELINE.json"))
want = set(b["stable_pass"])
passed, failed = set(), set()
for tc in ET.parse("/repo/target/nextest/pb/junit.xml").getroot().iter("testcase"):
    tid = (tc.get("classname") or "") + "::" + (tc.get("name") or "")
    bad = any(c.tag in ("failure", "error") for c in tc)
    (failed if bad else passed).add(tid)
missing = sorted(want - passed)
print("pinned %d, passed now %d, pinned-not-passing %d, failing overall %d" % (len(want), len(passed & want), len(missing), len(failed)))
for m in missing[:200]:
    print("NOT-PASSING", m, "(failed)" if m in failed else "(absent)")
PY
