#!/usr/bin/env python3
"""Print the markdown tables of DESIGN.md §10 (findings) and §11 (seeded changes) from
known_findings.txt and seeded/*/meta.json."""
import glob, json, os, re
V = os.path.dirname(os.path.dirname(os.path.abspath(__file__)))
fixed, known = [], []
for l in open(os.path.join(V, "known_findings.txt")):
    l = l.strip()
    m = re.match(r"fixed:\s+property=(\S+)\s+(\S+)\s+(.*)", l)
    if m:
        fixed.append(m.groups()); continue
    m = re.match(r"known:\s+property=(\S+)\s+key=(\S+)\s+(.*)", l)
    if m:
        known.append(m.groups())
def clip(s, n=260):
    s = s.replace("|", "\\|")
    return s if len(s) <= n else s[:n - 1] + "…"
print("| property | /repo commit | what failed (repaired by a `fix:` commit) |\n|---|---|---|")
for p, c, w in sorted(fixed):
    print("| %s | %s | %s |" % (p, c, clip(w)))
print()
print("| property | known finding (recorded, not repaired) |\n|---|---|")
for p, k, w in sorted(known):
    print("| %s | %s |" % (p, clip(w)))
print()
print("| seeded change | property | needs | result of the check |\n|---|---|---|---|")
for d in sorted(glob.glob(os.path.join(V, "seeded", "*"))):
    try:
        m = json.load(open(os.path.join(d, "meta.json")))
    except Exception:
        continue
    res = m.get("check_results", {})
    r = "; ".join("%s: %s" % (k, (v if isinstance(v, str) else " / ".join(x[:140] for x in v))) for k, v in res.items())
    print("| `seeded/%s` — %s | %s | %s | %s |" % (os.path.basename(d), clip(str(m.get("summary", "")), 200), m.get("property", ""), clip(str(m.get("needs", "")), 200), clip(r, 400)))
