#!/usr/bin/env python3
"""Development aid: commit a prepared repair (/tmp/fix/<name>.diff + .msg) to /repo and turn the
matching `known:` lines of known_findings.txt into `fixed:` lines.
usage: applyfix.py <name> <key-substring> [<key-substring> ...]"""
import subprocess, sys, re, os
V = os.path.dirname(os.path.dirname(os.path.abspath(__file__)))
name, keys = sys.argv[1], sys.argv[2:]
props = [name.split("-")[0]] + [k[1:] for k in keys if k.startswith("+C")]  # "+C02" adds a property
keys = [k for k in keys if not k.startswith("+C")]
diff, msg = "/tmp/fix/%s.diff" % name, "/tmp/fix/%s.msg" % name
assert open(msg).read().startswith("fix: "), "message must start with fix:"
st = subprocess.run(["git", "-C", "/repo", "status", "--porcelain", "--untracked-files=no"], capture_output=True, text=True).stdout
assert not st.strip(), "/repo dirty:\n" + st
subprocess.check_call(["git", "-C", "/repo", "apply", "--index", "--3way", diff])
subprocess.check_call(["git", "-C", "/repo", "commit", "-q", "-F", msg])
rev = subprocess.run(["git", "-C", "/repo", "rev-parse", "--short", "HEAD"], capture_output=True, text=True).stdout.strip()
print("committed", rev)
p = os.path.join(V, "known_findings.txt")
out, n = [], 0
for l in open(p):
    m = re.match(r"known:\s+property=(\S+)\s+key=(\S+)\s+(.*)", l)
    if m and m.group(1) in props and any(k in m.group(2) for k in keys):
        out.append("fixed: property=%s %s %s\n" % (m.group(1), rev, m.group(3))); n += 1
    else:
        out.append(l)
open(p, "w").write("".join(out))
print("known -> fixed:", n)
