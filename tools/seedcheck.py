#!/usr/bin/env python3
"""Development aid: tools/seedcheck.py <seed-id> <crate> <Cnn> <slug> [cargo test extra args…]
Confirms a seeded change (/tmp/seed/<seed-id>.out/{patch.diff,seeded_demo.rs,meta.json}) in the
scratch worktree /tmp/mt/repo: demo passes without the change, fails with it, the crate's lib
tests still pass with it; runs ./check <Cnn> against it through tools/mt.sh; stores the result
under /verif/seeded/<Cnn>-<slug>/."""
import json, os, re, shutil, subprocess, sys
MT = os.environ.get("MT_ROOT", "/tmp/mt")
if not os.environ.get("MT_LOCKED"):
    os.environ["MT_LOCKED"] = "1"
    os.execvp("flock", ["flock", MT + ".lock", sys.executable] + sys.argv)
sid, crate, pid, slug = sys.argv[1:5]
extra = sys.argv[5:]
out = "/tmp/seed/%s.out" % sid
wt = MT + "/repo"
def sh(cmd, cwd=None):
    p = subprocess.run(cmd, shell=True, cwd=cwd, stdout=subprocess.PIPE, stderr=subprocess.STDOUT, text=True)
    return p.returncode, p.stdout
if not os.path.isdir(wt):
    sh("git -C /repo worktree add --detach %s HEAD" % wt)
sh("git checkout -q --detach $(git -C /repo rev-parse HEAD) && git checkout -q -- . && git clean -fdq -e target", wt)
demos = [f for f in os.listdir(out) if f.endswith(".rs")]
os.makedirs("%s/%s/tests" % (wt, crate), exist_ok=True)
for d in demos:
    shutil.copy(os.path.join(out, d), "%s/%s/tests/%s" % (wt, crate, d))
tests = " ".join("--test " + d[:-3] for d in demos)
ex = " ".join(extra)
def results(o):
    return re.findall(r"^test result: .*$", o, re.M)
rc0, o0 = sh("cargo test --offline -p %s %s %s 2>&1" % (crate, ex, tests), wt)
rc, o = sh("git apply %s/patch.diff" % out, wt)
if rc != 0:
    print("PATCH DOES NOT APPLY:", o); sys.exit(1)
rc1, o1 = sh("cargo test --offline -p %s %s %s 2>&1" % (crate, ex, tests), wt)
rc2, o2 = sh("cargo test --offline -p %s %s --lib 2>&1" % (crate, ex), wt)
sh("git checkout -q -- . && git clean -fdq -e target", wt)
print("demo without change: rc=%d %s" % (rc0, results(o0)))
print("demo with change:    rc=%d %s" % (rc1, results(o1)))
print("lib tests with change: rc=%d %s" % (rc2, results(o2)[:2]))
rc3, o3 = sh("/verif/tools/mt.sh %s/patch.diff %s 2>&1 | grep -E '^check|^VIOLATION|^KNOWN' | cut -c1-300" % (out, pid))
print(o3)
dst = "/verif/seeded/%s-%s" % (pid, slug)
os.makedirs(dst, exist_ok=True)
prev = {}
if os.path.exists(os.path.join(dst, "meta.json")):
    try:
        prev = json.load(open(os.path.join(dst, "meta.json"))).get("check_results", {})
    except Exception:
        prev = {}
for f in os.listdir(out):
    if f in ("patch.diff", "meta.json") or f.endswith(".rs"):
        shutil.copy(os.path.join(out, f), dst)
try:
    m = json.load(open(os.path.join(out, "meta.json")))
except Exception:
    m = {}
if isinstance(prev, dict) and prev:
    m["check_results"] = prev
m["confirmed_by_orchestrator"] = {"demo_without_change": results(o0), "demo_with_change": results(o1),
                                  "crate_lib_tests_with_change": results(o2)[:2], "worktree": "/tmp/mt/repo (scratch)"}
src = os.environ.get("MT_SRC", "/verif")
label = "as first built (snapshot before the builder was told about this change)" if src != "/verif" else "current /verif"
rev = subprocess.run("git -C /verif rev-parse --short HEAD", shell=True, stdout=subprocess.PIPE, text=True).stdout.strip()
m.setdefault("check_results", {})
if not isinstance(m["check_results"], dict):
    m["check_results"] = {"earlier": m["check_results"]}
m["check_results"]["%s quick, %s, /verif@%s (tools/mt.sh, private copies)" % (pid, label, rev)] = [l for l in o3.splitlines() if l.startswith(("check", "VIOLATION"))]
json.dump(m, open(os.path.join(dst, "meta.json"), "w"), indent=1)
