#!/usr/bin/env python3
"""Build everything the claimed checks need (used by setup.sh)."""
import glob, json, os, subprocess, sys
VERIF = os.path.dirname(os.path.dirname(os.path.abspath(__file__)))
lean_targets, bins = [], []
for p in sorted(glob.glob(os.path.join(VERIF, "props", "C*.json"))):
    d = json.load(open(p))
    lean_targets += d.get("lean_modules", []) + ["driver_" + d["id"]]
    hs = d["harness"]
    for h in (hs if isinstance(hs, list) else [hs]):
        bins.append((h["package"], h["bin"]))
rc = subprocess.call(["lake", "build"] + sorted(set(lean_targets)), cwd=os.path.join(VERIF, "lean"))
if rc != 0:
    sys.exit(rc)
by_pkg = {}
for pkg, b in bins:
    by_pkg.setdefault(pkg, []).append(b)
for pkg, bs in sorted(by_pkg.items()):
    cmd = ["cargo", "build", "--release", "--offline", "-p", pkg]
    for b in sorted(set(bs)):
        cmd += ["--bin", b]
    rc = subprocess.call(cmd, cwd=os.path.join(VERIF, "harness"))
    if rc != 0:
        sys.exit(rc)
