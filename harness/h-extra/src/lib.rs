// shared helpers for this harness package
