//! C14 correspondence harness, Avro part: the OCF `Reader` (header decoder, `BlockDecoder`,
//! `VLQDecoder`, row decoder) is independent of the sizes of the buffers `fill_buf` returns.
//!
//!   C14 avro <batch_size> <file-hex> <chunk sizes> <header_len>
//!   C14 avrod <alg r|c> <batch_size> <bytes-hex> <chunk sizes>   streaming `Decoder` (single-object /
//!     Confluent framing, two registered writer schemas) driven by the documented rolling-buffer loop
//!   C14 flight <frames hdrhex:bodyhex,…> <pending polls before each frame> <ipc chunk sizes>
//!     Flight decoder = IPC messages per frame: the frames are decoded by `FlightRecordBatchStream`
//!     from a ready stream, from a stream that returns `Pending` the given number of times before
//!     each frame, and — re-framed as an IPC stream (marker, length, header, body) — by the IPC
//!     `StreamDecoder` fed the given chunks; all three must agree (model: SKIP).
//!
//! The file is read through a `BufRead` that hands out exactly the given chunks.  Oracle: same
//! batches / outcome as reading the whole file from one buffer and one byte at a time, every
//! single split point, all partitions of short tails, no batch larger than batch_size.
//! Answer (compared with the Lean block-decoder model run on the bytes after the header):
//! `rows=<total> r=ok` or `r=ERR`.
use arrow_array::{ArrayRef, Int64Array, RecordBatch, StringArray};
use arrow_avro::reader::{ReaderBuilder, read_header_info};
use arrow_avro::compression::CompressionCodec;
use arrow_avro::writer::format::AvroOcfFormat;
use arrow_schema::{DataType, Field, Schema};
use std::io::{BufRead, Read};
use std::sync::Arc;
use vcommon::*;

struct ChunkedRead<'a> {
    chunks: Vec<&'a [u8]>,
    idx: usize,
    pos: usize,
}
impl<'a> ChunkedRead<'a> {
    fn new(chunks: Vec<&'a [u8]>) -> Self {
        ChunkedRead { chunks, idx: 0, pos: 0 }
    }
}
impl Read for ChunkedRead<'_> {
    fn read(&mut self, out: &mut [u8]) -> std::io::Result<usize> {
        let b = self.fill_buf()?;
        let n = b.len().min(out.len());
        out[..n].copy_from_slice(&b[..n]);
        self.consume(n);
        Ok(n)
    }
}
impl BufRead for ChunkedRead<'_> {
    fn fill_buf(&mut self) -> std::io::Result<&[u8]> {
        while self.idx < self.chunks.len() && self.pos >= self.chunks[self.idx].len() {
            self.idx += 1;
            self.pos = 0;
        }
        if self.idx >= self.chunks.len() { Ok(&[]) } else { Ok(&self.chunks[self.idx][self.pos..]) }
    }
    fn consume(&mut self, n: usize) {
        self.pos += n;
    }
}

#[derive(PartialEq, Debug)]
struct Outcome {
    batches: Vec<RecordBatch>,
    verdict: String,
}
impl Outcome {
    fn short(&self) -> String {
        format!("rows={} r={}", show_list(&self.batches.iter().map(|b| b.num_rows()).collect::<Vec<_>>()), self.verdict)
    }
}

fn split<'a>(data: &'a [u8], sizes: &[usize]) -> Vec<&'a [u8]> {
    let mut out = vec![];
    let mut p = 0;
    for &n in sizes {
        out.push(&data[p..p + n]);
        p += n;
    }
    assert_eq!(p, data.len());
    out
}

fn read_avro(bs: usize, chunks: Vec<&[u8]>) -> Outcome {
    let r = std::panic::catch_unwind(std::panic::AssertUnwindSafe(|| {
        let reader = match ReaderBuilder::new().with_batch_size(bs).build(ChunkedRead::new(chunks)) {
            Ok(r) => r,
            Err(_) => return Outcome { batches: vec![], verdict: "ERR:open".into() },
        };
        let mut batches = vec![];
        let mut verdict = "ok".to_string();
        for b in reader {
            match b {
                Ok(b) => batches.push(b),
                Err(_) => {
                    verdict = "ERR".into();
                    break;
                }
            }
        }
        Outcome { batches, verdict }
    }));
    r.unwrap_or_else(|_| Outcome { batches: vec![], verdict: "PANIC".into() })
}

fn run_case(line: &str) -> (String, Vec<(String, String)>) {
    let t: Vec<&str> = line.split(' ').collect();
    assert_eq!(t[0], "C14");
    let mut fails = vec![];
    if t[1] == "flight" {
        return run_flight(&t);
    }
    if t[1] == "avrod" {
        return run_avrod(&t);
    }
    if t[1] != "avro" {
        return ("bad-op".into(), fails);
    }
    let (bs, data, sizes) = (t[2].parse::<usize>().unwrap(), unhex(t[3]), parse_list::<usize>(t[4]));
    let hdr: usize = t[5].parse().unwrap();
    let given = read_avro(bs, split(&data, &sizes));
    let single = read_avro(bs, vec![&data]);
    let mut cmp = |name: String, o: &Outcome| {
        if *o != single {
            fails.push((format!("{} {} != single-buffer {}", name, o.short(), single.short()), "oracle:chunk-dep".to_string()));
        }
    };
    cmp("chunked".into(), &given);
    cmp("bytewise".into(), &read_avro(bs, data.chunks(1).collect()));
    for i in 0..=data.len() {
        let o = read_avro(bs, vec![&data[..i], &data[i..]]);
        if o != single {
            cmp(format!("split@{}", i), &o);
            break;
        }
    }
    // all partitions of the last (up to) 11 bytes, and of the first 11 bytes after the header
    for start in [data.len().saturating_sub(11), hdr.min(data.len())] {
        let end = (start + 11).min(data.len());
        let n = end - start;
        if n == 0 {
            continue;
        }
        for mask in 0u32..(1 << (n - 1)) {
            let mut sz = vec![];
            if start > 0 {
                sz.push(start);
            }
            let mut cur = 1;
            for i in 0..n - 1 {
                if mask >> i & 1 == 1 {
                    sz.push(cur);
                    cur = 1;
                } else {
                    cur += 1;
                }
            }
            sz.push(cur);
            if end < data.len() {
                sz.push(data.len() - end);
            }
            let o = read_avro(bs, split(&data, &sz));
            if o != single {
                cmp(format!("partition {}", show_list(&sz)), &o);
                break;
            }
        }
    }
    for b in &single.batches {
        if b.num_rows() > bs {
            fails.push((format!("batch of {} rows > batch_size {}", b.num_rows(), bs), "oracle:batch-size".into()));
        }
    }
    let total: usize = given.batches.iter().map(|b| b.num_rows()).sum();
    let ans = if given.verdict == "ok" { format!("rows={} r=ok", total) } else { format!("r={}", given.verdict) };
    (ans, fails)
}

fn gen_case(rng: &mut Rng) -> (String, String) {
    let schema = Schema::new(vec![Field::new("id", DataType::Int64, false), Field::new("s", DataType::Utf8, false)]);
    let nb = *rng.pick(&[0usize, 1, 2, 3, 4]);
    let mut tags = vec!["op:avro".to_string()];
    // block payload codecs: the decompressed block is what the row decoder sees
    let codec = *rng.pick(&[None, None, Some(CompressionCodec::Deflate), Some(CompressionCodec::Snappy), Some(CompressionCodec::ZStandard)]);
    tags.push(format!("codec:{:?}", codec).replace(['(', ')'], ""));
    let mut w = WriterBuilder::new(schema.clone()).with_compression(codec).build::<_, AvroOcfFormat>(Vec::<u8>::new()).unwrap();
    for _ in 0..nb {
        let n = *rng.pick(&[1usize, 1, 2, 3, 7, 70]);
        let ids: Vec<i64> = (0..n).map(|_| rng.pick_or(&[0, -1, 63, 64, -65, 8191, 8192, i64::MAX, i64::MIN], -100000, 100000)).collect();
        let ss: Vec<String> = (0..n).map(|_| "x".repeat(rng.usize(5))).collect();
        let cols: Vec<ArrayRef> = vec![Arc::new(Int64Array::from(ids)), Arc::new(StringArray::from(ss))];
        w.write(&RecordBatch::try_new(Arc::new(schema.clone()), cols).unwrap()).unwrap();
        if n == 70 {
            tags.push("big-block".into());
        }
    }
    w.finish().unwrap();
    let mut data = w.into_inner();
    let hdr = read_header_info(std::io::Cursor::new(&data)).unwrap().header_len() as usize;
    match rng.below(8) {
        0 if data.len() > hdr => {
            let cut = hdr + rng.usize(data.len() - hdr);
            data.truncate(cut);
            tags.push("mut:truncated".into());
        }
        1 if nb > 0 => {
            // corrupt the sync marker of the last block
            let i = data.len() - 1 - rng.usize(16);
            data[i] ^= 0x40;
            tags.push("mut:sync".into());
        }
        _ => {}
    }
    let bs = *rng.pick(&[1usize, 2, 3, 4, 5, 1024]);
    // chunking
    let n = data.len();
    let mut cuts: Vec<usize> = vec![];
    let name = match rng.below(6) {
        0 => "ch:single",
        1 => {
            cuts = (1..n).collect();
            "ch:bytes"
        }
        2 => {
            let k = 1 + rng.usize(9);
            cuts = (1..n).filter(|i| i % k == 0).collect();
            "ch:fixed"
        }
        3 => {
            // around the header end and the end of file
            for d in -3i64..=3 {
                if rng.bool() {
                    cuts.push((hdr as i64 + d).clamp(0, n as i64) as usize);
                }
                if rng.bool() {
                    cuts.push((n as i64 - 16 + d).clamp(0, n as i64) as usize);
                }
            }
            "ch:boundary"
        }
        _ => {
            for _ in 0..1 + rng.usize(8) {
                cuts.push(rng.usize(n + 1));
            }
            "ch:random"
        }
    };
    tags.push(name.into());
    cuts.sort();
    cuts.dedup(); // an empty fill_buf would mean EOF: no empty chunks
    cuts.retain(|&c| c > 0 && c < n);
    let mut sizes = vec![];
    let mut p = 0;
    for c in cuts {
        sizes.push(c - p);
        p = c;
    }
    sizes.push(n - p);
    if sizes.len() >= 2 {
        tags.push("nt".into());
    }
    tags.push(format!("bs:{}", if bs > 5 { "large".to_string() } else { bs.to_string() }));
    tags.push(format!("blocks:{}", nb));
    (format!("C14 avro {} {} {} {}", bs, hex(&data), show_list(&sizes), hdr), tags.join(" "))
}

// ------------------------------------------------------------------- Avro streaming `Decoder`

use arrow_avro::schema::{AvroSchema, Fingerprint, FingerprintAlgorithm, FingerprintStrategy, SCHEMA_METADATA_KEY, SchemaStore};
use arrow_avro::writer::{WriterBuilder, format::AvroSoeFormat};

const SCHEMA_A: &str = r#"{"type":"record","name":"A","fields":[{"name":"id","type":"long"},{"name":"s","type":"string"}]}"#;
const SCHEMA_B: &str = r#"{"type":"record","name":"B","fields":[{"name":"x","type":"long"}]}"#;

fn avrod_store(alg: &str) -> SchemaStore {
    if alg == "c" {
        let mut st = SchemaStore::new_with_type(FingerprintAlgorithm::Id);
        st.set(Fingerprint::Id(7), AvroSchema::new(SCHEMA_A.to_string())).unwrap();
        st.set(Fingerprint::Id(300), AvroSchema::new(SCHEMA_B.to_string())).unwrap();
        st
    } else {
        let mut st = SchemaStore::new();
        st.register(AvroSchema::new(SCHEMA_A.to_string())).unwrap();
        st.register(AvroSchema::new(SCHEMA_B.to_string())).unwrap();
        st
    }
}

/// the documented loop: keep a rolling buffer, `decode`, drop what was consumed, `flush` when the
/// batch is full; a final `flush` at the end of input
fn avrod_push(alg: &str, bs: usize, chunks: &[&[u8]]) -> Outcome {
    avrod_push_policy(alg, bs, chunks, "f")
}

/// flush policy: `f` only when the batch is full (and at the end), `c` additionally after every
/// chunk, `k<n>` additionally after every n-th chunk
fn avrod_push_policy(alg: &str, bs: usize, chunks: &[&[u8]], policy: &str) -> Outcome {
    let r = std::panic::catch_unwind(std::panic::AssertUnwindSafe(|| {
        let mut d = match ReaderBuilder::new().with_writer_schema_store(avrod_store(alg)).with_batch_size(bs).build_decoder() {
            Ok(d) => d,
            Err(_) => return Outcome { batches: vec![], verdict: "ERR:build".into() },
        };
        let mut batches = vec![];
        let mut buf: Vec<u8> = vec![];
        for (ci, c) in chunks.iter().enumerate() {
            buf.extend_from_slice(c);
            loop {
                let n = match d.decode(&buf) {
                    Ok(n) => n,
                    Err(e) => {
                        if std::env::var("VERIF_LOUD").is_ok() {
                            eprintln!("avrod decode err: {e}");
                        }
                        // the rows completed before the error are still buffered: drain them, so that
                        // the observable does not depend on when the caller happened to flush
                        if let Ok(Some(b)) = d.flush() {
                            batches.push(b);
                        }
                        return Outcome { batches, verdict: "ERR:decode".into() };
                    }
                };
                buf.drain(..n);
                if d.batch_is_full() {
                    match d.flush() {
                        Ok(Some(b)) => batches.push(b),
                        Ok(None) => {}
                        Err(e) => {
                            if std::env::var("VERIF_LOUD").is_ok() {
                                eprintln!("avrod flush err: {e}");
                            }
                            return Outcome { batches, verdict: "ERR:flush".into() };
                        }
                    }
                    if buf.is_empty() {
                        break;
                    }
                } else {
                    break; // needs more bytes (or everything was consumed)
                }
            }
            let extra_flush = match policy.as_bytes()[0] {
                b'c' => true,
                b'k' => (ci + 1) % policy[1..].parse::<usize>().unwrap().max(1) == 0,
                _ => false,
            };
            if extra_flush {
                match d.flush() {
                    Ok(Some(b)) => batches.push(b),
                    Ok(None) => {}
                    Err(_) => return Outcome { batches, verdict: "ERR:flush".into() },
                }
            }
        }
        match d.flush() {
            Ok(Some(b)) => batches.push(b),
            Ok(None) => {}
            Err(e) => {
                if std::env::var("VERIF_LOUD").is_ok() {
                    eprintln!("avrod final flush err: {e}");
                }
                return Outcome { batches, verdict: "ERR:flush".into() };
            }
        }
        let verdict = if buf.is_empty() { "ok".to_string() } else { format!("partial:{}", buf.len()) };
        Outcome { batches, verdict }
    }));
    r.unwrap_or_else(|_| Outcome { batches: vec![], verdict: "PANIC".into() })
}

/// Structural classification for the streaming Avro `Decoder`: walk the framed rows of the two
/// known schemas and report where the first cumulative chunk end that falls strictly inside a row
/// body lies: `Some("varint")` = inside / right before a varint of the body (the row decoder's
/// `read_vlq` reports "bad varint" instead of "need more data"), `Some("payload")` = inside the
/// string bytes (earlier fields of the row stay appended to their builders).
fn avrod_first_cut_in_row(alg: &str, data: &[u8], cuts: &[usize]) -> Option<&'static str> {
    let plen = if alg == "c" { 5 } else { 10 };
    let fa = avrod_frames(alg, 0, &[(0, String::new())]);
    let fb = avrod_frames(alg, 1, &[(0, String::new())]);
    let varint_len = |p: usize| -> Option<usize> {
        let mut i = p;
        while i < data.len() && i - p < 10 {
            if data[i] & 0x80 == 0 {
                return Some(i + 1 - p);
            }
            i += 1;
        }
        None
    };
    // (start, end, kind) regions of row bodies
    let mut regions: Vec<(usize, usize, &'static str)> = vec![];
    let mut p = 0;
    while p + plen <= data.len() {
        let which = if data[p..p + plen] == fa[..plen] {
            0
        } else if data[p..p + plen] == fb[..plen] {
            1
        } else {
            break;
        };
        let body = p + plen;
        let Some(l1) = varint_len(body) else {
            regions.push((body, data.len() + 1, "varint"));
            break;
        };
        let mut end = body + l1;
        regions.push((body, end, "varint"));
        if which == 0 {
            let Some(l2) = varint_len(end) else {
                regions.push((end, data.len() + 1, "varint"));
                break;
            };
            // string length: zig-zag long
            let mut v: u64 = 0;
            for k in 0..l2 {
                v |= ((data[end + k] & 0x7f) as u64) << (7 * k);
            }
            let slen = (v >> 1) as usize;
            regions.push((end, end + l2, "varint"));
            regions.push((end + l2, end + l2 + slen, "payload"));
            end = end + l2 + slen;
        }
        p = end;
    }
    // cumulative cut positions in order; a cut at the very start of a body is harmless
    for &c in cuts {
        for (i, &(a, b, kind)) in regions.iter().enumerate() {
            let body_start = i == 0 || regions[i - 1].1 != a || regions[i - 1].2 == "payload" && false;
            let _ = body_start;
            if c > a && c < b {
                return Some(kind);
            }
            // exactly between two fields of one row (after the id, before the string length)
            if c == a && i > 0 && regions[i - 1].1 == a && regions[i - 1].2 == "varint" && kind == "varint" && (c < data.len() || b > data.len()) {
                return Some("varint");
            }
            if c == a && i > 0 && regions[i - 1].1 == a && kind == "payload" && b > a && (c < data.len() || b > data.len()) {
                return Some("payload");
            }
        }
    }
    None
}

fn cum_cuts(sizes: &[usize]) -> Vec<usize> {
    let mut v = vec![];
    let mut p = 0;
    for &s in sizes {
        p += s;
        v.push(p);
    }
    v
}

/// the decoded rows in order, each with its schema: `A:<id>:<hex s>` or `B:<x>` — what must not
/// depend on chunking or on when the caller flushes (batch boundaries may)
fn avrod_rows(o: &Outcome) -> Vec<String> {
    let mut v = vec![];
    for b in &o.batches {
        let ids = b.column(0).as_any().downcast_ref::<Int64Array>().unwrap();
        for r in 0..b.num_rows() {
            if b.num_columns() == 2 {
                let s = b.column(1).as_any().downcast_ref::<StringArray>().unwrap();
                v.push(format!("A:{}:{}", ids.value(r), hex(s.value(r).as_bytes())));
            } else {
                v.push(format!("B:{}", ids.value(r)));
            }
        }
    }
    v
}

fn avrod_obs(o: &Outcome) -> String {
    // which call reports an error (decode or the flush of the batch holding the bad row) depends
    // on the flush schedule by design: the outcome class is "ERR"
    let v = if o.verdict.starts_with("ERR") { "ERR" } else { o.verdict.as_str() };
    format!("rows={} r={}", show_list(&avrod_rows(o)), v)
}

/// end offsets of the complete frames (prefix + one row) at the front of `data`
fn avrod_frame_ends(alg: &str, data: &[u8]) -> Vec<usize> {
    let plen = if alg == "c" { 5 } else { 10 };
    let fa = avrod_frames(alg, 0, &[(0, String::new())]);
    let fb = avrod_frames(alg, 1, &[(0, String::new())]);
    let varint = |p: usize| -> Option<(u64, usize)> {
        let mut v = 0u64;
        for k in 0..10 {
            let b = *data.get(p + k)?;
            v |= ((b & 0x7f) as u64) << (7 * k);
            if b & 0x80 == 0 {
                return Some((v, k + 1));
            }
        }
        None
    };
    let mut ends = vec![];
    let mut p = 0;
    while p + plen <= data.len() {
        let which = if data[p..p + plen] == fa[..plen] {
            0
        } else if data[p..p + plen] == fb[..plen] {
            1
        } else {
            break;
        };
        let Some((_, l1)) = varint(p + plen) else { break };
        let mut e = p + plen + l1;
        if which == 0 {
            let Some((v, l2)) = varint(e) else { break };
            if v & 1 == 1 {
                break; // negative length
            }
            e += l2 + (v >> 1) as usize;
        }
        if e > data.len() {
            break;
        }
        ends.push(e);
        p = e;
    }
    ends
}

fn sizes_from_cuts(n: usize, cuts: &[usize]) -> Vec<usize> {
    let mut v = vec![];
    let mut p = 0;
    for &c in cuts {
        v.push(c - p);
        p = c;
    }
    v.push(n - p);
    v
}

fn run_avrod(t: &[&str]) -> (String, Vec<(String, String)>) {
    let (alg, bs, data, sizes) = (t[2], t[3].parse::<usize>().unwrap(), unhex(t[4]), parse_list::<usize>(t[5]));
    let policy = if t.len() > 6 { t[6] } else { "f" };
    let mut fails = vec![];
    let n = data.len();
    // reference: one whole frame per decode call, flush after each (then the unparsable rest)
    let ends = avrod_frame_ends(alg, &data);
    let ref_sizes = sizes_from_cuts(n, &ends);
    let reference = avrod_push_policy(alg, bs, &split(&data, &ref_sizes), "c");
    let ref_obs = avrod_obs(&reference);
    let mut check = |name: String, o: &Outcome, cuts: Vec<usize>| {
        for b in &o.batches {
            if b.num_rows() > bs {
                fails.push((format!("{}: batch of {} rows > batch_size {}", name, b.num_rows(), bs), "oracle:batch-size".to_string()));
            }
        }
        let obs = avrod_obs(o);
        // after an error the rows still buffered in the failing batch are lost, so with an error on both
        // sides the rows delivered need only be consistent (one sequence a prefix of the other)
        let both_err = o.verdict.starts_with("ERR") && reference.verdict.starts_with("ERR") && {
            let (a, b) = (avrod_rows(o), avrod_rows(&reference));
            let k = a.len().min(b.len());
            a[..k] == b[..k]
        };
        if obs != ref_obs && !both_err {
            let mut tag = "oracle:chunk-dep".to_string();
            // the fields of a row decoded before a cut inside the row body are not rolled back
            // (the end of the input is a decode boundary too: a stream truncated inside a row body)
            let mut cuts = cuts;
            cuts.push(n);
            if avrod_first_cut_in_row(alg, &data, &cuts).is_some() {
                tag.push_str(" finding:avrod-partial-row");
            }
            let cut = |x: &str| if x.len() > 160 { format!("{}…", &x[..160]) } else { x.to_string() };
            fails.push((format!("{} {} != frame-by-frame reference {}", name, cut(&obs), cut(&ref_obs)), tag));
            return false;
        }
        true
    };
    let given = avrod_push_policy(alg, bs, &split(&data, &sizes), policy);
    check(format!("given policy {}", policy), &given, cum_cuts(&sizes));
    // cuts inside every frame prefix (harmless for the row decoder) + frame ends
    let plen = if alg == "c" { 5 } else { 10 };
    let mut prefix_cuts: Vec<usize> = vec![];
    let mut start = 0;
    for &e in &ends {
        prefix_cuts.push((start + 1 + (e % (plen - 1))).min(e));
        prefix_cuts.push(e);
        start = e;
    }
    prefix_cuts.sort();
    prefix_cuts.dedup();
    prefix_cuts.retain(|&c| c > 0 && c < n);
    let mut with_empty = vec![0usize];
    for s in &ref_sizes {
        with_empty.push(*s);
        with_empty.push(0);
    }
    'pol: for pol in ["f", "c", "k2", "k3"] {
        for (name, sz) in [
            ("frame-aligned", ref_sizes.clone()),
            ("all-in-one", vec![n]),
            ("frames+empty-chunks", with_empty.clone()),
            ("prefix-cuts", sizes_from_cuts(n, &prefix_cuts)),
            ("two-frames-per-chunk", sizes_from_cuts(n, &ends.iter().copied().skip(1).step_by(2).filter(|&c| c < n).collect::<Vec<_>>())),
        ] {
            let o = avrod_push_policy(alg, bs, &split(&data, &sz), pol);
            if !check(format!("{} policy {}", name, pol), &o, cum_cuts(&sz)) {
                break 'pol;
            }
        }
    }
    // every 2-way split and byte-wise, policies f and c (a cut inside a row body hits the known finding)
    for pol in ["f", "c"] {
        for i in 0..=n {
            let o = avrod_push_policy(alg, bs, &[&data[..i], &data[i..]], pol);
            if !check(format!("split@{} policy {}", i, pol), &o, vec![i]) {
                break;
            }
        }
        let o = avrod_push_policy(alg, bs, &data.chunks(1).collect::<Vec<_>>(), pol);
        check(format!("bytewise policy {}", pol), &o, (1..=n).collect());
    }
    (ref_obs, fails)
}

/// single-object / Confluent framed rows written by the real writer
fn avrod_frames(alg: &str, which: u8, rows: &[(i64, String)]) -> Vec<u8> {
    let (json, fields): (&str, Vec<Field>) = if which == 0 {
        (SCHEMA_A, vec![Field::new("id", DataType::Int64, false), Field::new("s", DataType::Utf8, false)])
    } else {
        (SCHEMA_B, vec![Field::new("x", DataType::Int64, false)])
    };
    let mut md = std::collections::HashMap::new();
    md.insert(SCHEMA_METADATA_KEY.to_string(), json.to_string());
    let schema = Schema::new_with_metadata(fields, md);
    let mut cols: Vec<ArrayRef> = vec![Arc::new(Int64Array::from(rows.iter().map(|r| r.0).collect::<Vec<_>>()))];
    if which == 0 {
        cols.push(Arc::new(StringArray::from(rows.iter().map(|r| r.1.clone()).collect::<Vec<_>>())));
    }
    let batch = RecordBatch::try_new(Arc::new(schema.clone()), cols).unwrap();
    let strat = if alg == "c" { FingerprintStrategy::Id(if which == 0 { 7 } else { 300 }) } else { FingerprintStrategy::Rabin };
    let mut w = WriterBuilder::new(schema).with_fingerprint_strategy(strat).build::<_, AvroSoeFormat>(Vec::new()).unwrap();
    w.write(&batch).unwrap();
    w.finish().unwrap();
    w.into_inner()
}

fn gen_avrod(rng: &mut Rng, fixed: Option<usize>) -> (String, String) {
    let alg = if fixed.map_or(rng.bool(), |k| k % 2 == 0) { "r" } else { "c" };
    let mut tags = vec!["op:avrod".to_string(), format!("alg:{}", alg)];
    // the sequence of writer schemas of the frames: at least two switches in the fixed block
    let patterns: &[&[u8]] = &[&[0, 0, 1, 1, 0], &[1, 0, 0, 1], &[0, 1, 0, 1, 0], &[0, 0, 0], &[1, 1, 0, 0, 0, 1], &[0, 1]];
    let pattern: Vec<u8> = match fixed {
        Some(k) => patterns[(k / 2) % patterns.len()].to_vec(),
        None => (0..rng.usize(7)).map(|_| rng.below(2) as u8).collect(),
    };
    let mut data = vec![];
    for &which in &pattern {
        // one or two rows (= frames) of that schema
        let n = if fixed.is_some() { 1 } else { 1 + rng.usize(2) };
        let rows: Vec<(i64, String)> = (0..n)
            .map(|_| (rng.pick_or(&[0, -1, 63, 64, -65, 8191, 8192, i64::MAX, i64::MIN], -1000, 1000), "z".repeat(*rng.pick(&[0usize, 1, 5, 63, 64, 130]))))
            .collect();
        data.extend(avrod_frames(alg, which, &rows));
    }
    let switches = pattern.windows(2).filter(|w| w[0] != w[1]).count();
    tags.push(format!("switches:{}", switches.min(4)));
    if fixed.is_none() {
        match rng.below(8) {
            0 if !data.is_empty() => {
                let cut = rng.usize(data.len());
                data.truncate(cut);
                tags.push("mut:truncated".into());
            }
            1 if !data.is_empty() => {
                let i = rng.usize(data.len().min(12));
                data[i] ^= 0x20;
                tags.push("mut:prefix-corrupt".into());
            }
            _ => {}
        }
    }
    let bs = match fixed {
        Some(k) => [1usize, 2, 3, 1024][(k / 12) % 4],
        None => *rng.pick(&[1usize, 2, 3, 5, 1024]),
    };
    let policy = match fixed {
        Some(k) => ["f", "c", "k2", "k3"][(k / 3) % 4].to_string(),
        None => (*rng.pick(&["f", "f", "c", "k2", "k3"])).to_string(),
    };
    tags.push(format!("flush:{}", policy));
    let n = data.len();
    // chunking of the line: frame boundaries (some dropped, some doubled = empty chunk), sometimes
    // one extra cut anywhere
    let ends = avrod_frame_ends(alg, &data);
    let mut cuts: Vec<usize> = vec![];
    for &e in &ends {
        match rng.below(4) {
            0 => {}
            1 => {
                cuts.push(e);
                cuts.push(e);
            }
            _ => cuts.push(e),
        }
    }
    if fixed.is_none() && rng.chance(1, 3) && n > 0 {
        cuts.push(rng.usize(n + 1));
    }
    cuts.retain(|&c| c <= n);
    cuts.sort();
    let sizes = sizes_from_cuts(n, &cuts);
    if sizes.iter().filter(|&&s| s > 0).count() >= 2 {
        tags.push("nt".into());
    }
    if fixed.is_some() {
        tags.push("fixed-block".into());
    }
    tags.push(format!("bs:{}", if bs > 5 { "large".to_string() } else { bs.to_string() }));
    let plen = if alg == "c" { 5 } else { 10 };
    let pa = avrod_frames(alg, 0, &[(0, String::new())])[..plen].to_vec();
    let pb = avrod_frames(alg, 1, &[(0, String::new())])[..plen].to_vec();
    (format!("C14 avrod {} {} {} {} {} {} {}", alg, bs, hex(&data), show_list(&sizes), policy, hex(&pa), hex(&pb)), tags.join(" "))
}

// ---------------------------------------------------------------------------------------- Flight

use arrow_flight::FlightData;
use arrow_flight::decode::{DecodedPayload, FlightDataDecoder, FlightRecordBatchStream};
use arrow_flight::encode::DictionaryHandling;
use arrow_flight::encode::FlightDataEncoderBuilder;
use arrow_flight::error::FlightError;
use futures::{Stream, StreamExt, TryStreamExt};
use std::collections::VecDeque;
use std::pin::Pin;
use std::task::{Context, Poll};

/// a stream that is `Pending` (and immediately re-woken) `pend[i]` times before yielding frame i
struct Lazy {
    items: VecDeque<FlightData>,
    pend: VecDeque<usize>,
}
impl Stream for Lazy {
    type Item = Result<FlightData, FlightError>;
    fn poll_next(mut self: Pin<&mut Self>, cx: &mut Context<'_>) -> Poll<Option<Self::Item>> {
        if let Some(p) = self.pend.front_mut() {
            if *p > 0 {
                *p -= 1;
                cx.waker().wake_by_ref();
                return Poll::Pending;
            }
        }
        self.pend.pop_front();
        Poll::Ready(self.items.pop_front().map(Ok))
    }
}

fn flight_decode(frames: &[FlightData], pend: &[usize]) -> Outcome {
    let frames = frames.to_vec();
    let pend: VecDeque<usize> = (0..=frames.len()).map(|i| pend.get(i).copied().unwrap_or(0)).collect();
    let r = std::panic::catch_unwind(std::panic::AssertUnwindSafe(move || {
        let mut st = FlightRecordBatchStream::new_from_flight_data(Lazy { items: frames.into(), pend });
        let mut batches = vec![];
        let mut verdict = "ok".to_string();
        futures::executor::block_on(async {
            loop {
                match st.next().await {
                    Some(Ok(b)) => batches.push(b),
                    Some(Err(_)) => {
                        verdict = "ERR".into();
                        break;
                    }
                    None => break,
                }
            }
        });
        Outcome { batches, verdict }
    }));
    r.unwrap_or_else(|_| Outcome { batches: vec![], verdict: "PANIC".into() })
}

/// the lower-level entry point: `FlightDataDecoder` yields one `DecodedPayload` per frame
fn flight_decode_raw(frames: &[FlightData], pend: &[usize]) -> (Vec<String>, Outcome) {
    let frames = frames.to_vec();
    let pend: VecDeque<usize> = (0..=frames.len()).map(|i| pend.get(i).copied().unwrap_or(0)).collect();
    let r = std::panic::catch_unwind(std::panic::AssertUnwindSafe(move || {
        let mut st = FlightDataDecoder::new(Lazy { items: frames.into(), pend });
        let mut kinds = vec![];
        let mut batches = vec![];
        let mut verdict = "ok".to_string();
        futures::executor::block_on(async {
            loop {
                match st.next().await {
                    Some(Ok(d)) => match d.payload {
                        DecodedPayload::None => kinds.push("N".to_string()),
                        DecodedPayload::Schema(_) => kinds.push("S".to_string()),
                        DecodedPayload::RecordBatch(b) => {
                            kinds.push("B".to_string());
                            batches.push(b);
                        }
                    },
                    Some(Err(_)) => {
                        verdict = "ERR".into();
                        break;
                    }
                    None => break,
                }
            }
        });
        (kinds, Outcome { batches, verdict })
    }));
    r.unwrap_or_else(|_| (vec![], Outcome { batches: vec![], verdict: "PANIC".into() }))
}

/// the same messages as an IPC stream through the push `StreamDecoder`
fn flight_as_ipc(frames: &[FlightData], sizes: &[usize]) -> Outcome {
    let mut bytes = vec![];
    for f in frames {
        bytes.extend_from_slice(&[0xff; 4]);
        bytes.extend_from_slice(&(f.data_header.len() as u32).to_le_bytes());
        bytes.extend_from_slice(&f.data_header);
        bytes.extend_from_slice(&f.data_body);
    }
    let r = std::panic::catch_unwind(std::panic::AssertUnwindSafe(|| {
        let mut d = arrow_ipc::reader::StreamDecoder::new();
        let mut batches = vec![];
        let mut p = 0;
        let mut sizes: Vec<usize> = sizes.to_vec();
        let total: usize = sizes.iter().sum();
        if total < bytes.len() {
            sizes.push(bytes.len() - total);
        }
        for n in sizes {
            let n = n.min(bytes.len() - p);
            let mut x = arrow_buffer::Buffer::from(bytes[p..p + n].to_vec());
            p += n;
            while !x.is_empty() {
                match d.decode(&mut x) {
                    Ok(Some(b)) => batches.push(b),
                    Ok(None) => {}
                    Err(e) => {
                        if std::env::var("VERIF_LOUD").is_ok() {
                            eprintln!("ipc err: {e}");
                        }
                        return Outcome { batches, verdict: "ERR".into() };
                    }
                }
            }
        }
        // feed one more (EOS) prefix so that a final message with an empty body is dispatched
        let mut x = arrow_buffer::Buffer::from(vec![0xffu8, 0xff, 0xff, 0xff, 0, 0, 0, 0]);
        while !x.is_empty() {
            match d.decode(&mut x) {
                Ok(Some(b)) => batches.push(b),
                Ok(None) => {}
                Err(e) => {
                    if std::env::var("VERIF_LOUD").is_ok() {
                        eprintln!("ipc eos err: {e}");
                    }
                    return Outcome { batches, verdict: "ERR".into() };
                }
            }
        }
        if std::env::var("VERIF_LOUD").is_ok() {
            eprintln!("bytes {} schema {} first16 {:?}", bytes.len(), d.schema().is_some(), &bytes[..16.min(bytes.len())]);
        }
        let fin = d.finish();
        if let (Err(e), true) = (&fin, std::env::var("VERIF_LOUD").is_ok()) {
            eprintln!("ipc finish err: {e}");
        }
        let verdict = if fin.is_ok() { "ok" } else { "ERR" };
        Outcome { batches, verdict: verdict.into() }
    }));
    r.unwrap_or_else(|_| Outcome { batches: vec![], verdict: "PANIC".into() })
}

fn parse_frames(s: &str) -> Vec<FlightData> {
    if s == "-" {
        return vec![];
    }
    s.split(',')
        .map(|f| {
            let (h, b) = f.split_once(':').unwrap();
            FlightData { flight_descriptor: None, data_header: unhex(h).into(), app_metadata: Default::default(), data_body: unhex(b).into() }
        })
        .collect()
}

fn run_flight(t: &[&str]) -> (String, Vec<(String, String)>) {
    let frames = parse_frames(t[2]);
    let pend: Vec<usize> = parse_list(t[3]);
    let sizes: Vec<usize> = parse_list(t[4]);
    let mut fails = vec![];
    let ready = flight_decode(&frames, &[]);
    let given = flight_decode(&frames, &pend);
    if given != ready {
        fails.push((format!("lazy stream {} != ready stream {}", given.short(), ready.short()), "oracle:chunk-dep".to_string()));
    }
    // every frame delayed alone
    for i in 0..=frames.len() {
        let mut p = vec![0; frames.len() + 1];
        p[i] = 2;
        let o = flight_decode(&frames, &p);
        if o != ready {
            fails.push((format!("frame {} delayed {} != ready {}", i, o.short(), ready.short()), "oracle:chunk-dep".to_string()));
            break;
        }
    }
    // second entry point: FlightDataDecoder directly (payload kinds per frame), ready vs lazy
    let raw_ready = flight_decode_raw(&frames, &[]);
    let raw_lazy = flight_decode_raw(&frames, &pend);
    if raw_ready != raw_lazy {
        fails.push((format!("FlightDataDecoder lazy {:?} {} != ready {:?} {}", raw_lazy.0, raw_lazy.1.short(), raw_ready.0, raw_ready.1.short()), "oracle:chunk-dep".to_string()));
    }
    if raw_ready.1.verdict == "ok" && ready.verdict == "ok" && raw_ready.1.batches != ready.batches {
        fails.push((format!("FlightDataDecoder {} != FlightRecordBatchStream {}", raw_ready.1.short(), ready.short()), "oracle:two-entry".to_string()));
    }
    // as an IPC stream: given chunking, single chunk, byte-wise; only meaningful when every frame
    // carries a valid message (the flight decoder skips nothing either)
    let ipc_given = flight_as_ipc(&frames, &sizes);
    let ipc_one = flight_as_ipc(&frames, &[]);
    let ipc_bytes = flight_as_ipc(&frames, &vec![1; frames.iter().map(|f| 8 + f.data_header.len() + f.data_body.len()).sum()]);
    for (name, o) in [("ipc-chunked", &ipc_given), ("ipc-bytewise", &ipc_bytes)] {
        if *o != ipc_one {
            fails.push((format!("{} {} != ipc-single {}", name, o.short(), ipc_one.short()), "oracle:chunk-dep".to_string()));
        }
    }
    if ready.verdict == "ok" && ipc_one.verdict == "ok" && ready.batches != ipc_one.batches {
        fails.push((format!("flight {} != same messages as IPC stream {}", ready.short(), ipc_one.short()), "oracle:flight-vs-ipc".to_string()));
    }
    if (ready.verdict == "ok") != (ipc_one.verdict == "ok") {
        fails.push((format!("flight {} vs IPC stream {}", ready.short(), ipc_one.short()), "oracle:flight-vs-ipc-outcome".to_string()));
    }
    (given.short(), fails)
}

fn gen_flight(rng: &mut Rng) -> (String, String) {
    let dict = rng.chance(1, 3);
    let sfield = if dict {
        Field::new("s", DataType::Dictionary(Box::new(DataType::Int8), Box::new(DataType::Utf8)), true)
    } else {
        Field::new("s", DataType::Utf8, true)
    };
    let schema = Arc::new(Schema::new(vec![Field::new("id", DataType::Int64, true), sfield]));
    let nb = rng.usize(4);
    let mut batches = vec![];
    for _ in 0..nb {
        let n = *rng.pick(&[0usize, 1, 3, 9, 40]);
        let ids: Vec<Option<i64>> = (0..n).map(|_| if rng.chance(1, 5) { None } else { Some(rng.range(-50, 50)) }).collect();
        let ss: Vec<Option<String>> = (0..n).map(|_| if rng.chance(1, 5) { None } else { Some("y".repeat(rng.usize(6))) }).collect();
        let scol: ArrayRef = if dict {
            let d: arrow_array::DictionaryArray<arrow_array::types::Int8Type> = ss.iter().map(|x| x.as_deref()).collect();
            Arc::new(d)
        } else {
            Arc::new(StringArray::from(ss))
        };
        let cols: Vec<ArrayRef> = vec![Arc::new(Int64Array::from(ids)), scol];
        batches.push(RecordBatch::try_new(schema.clone(), cols).unwrap());
    }
    let max = *rng.pick(&[64usize, 200, 2 * 1024 * 1024]);
    let mut tags = vec!["op:flight".to_string(), format!("max:{}", max)];
    if dict {
        tags.push("dict:resend".into());
    }
    let enc = FlightDataEncoderBuilder::new()
        .with_dictionary_handling(if dict { DictionaryHandling::Resend } else { DictionaryHandling::Hydrate })
        .with_max_flight_data_size(max)
        .with_schema(schema.clone())
        .build(futures::stream::iter(batches.into_iter().map(Ok)));
    let mut frames: Vec<FlightData> = futures::executor::block_on(enc.try_collect()).unwrap();
    match rng.below(8) {
        0 if frames.len() > 1 => {
            let i = 1 + rng.usize(frames.len() - 1);
            frames.remove(i);
            tags.push("mut:drop-frame".into());
        }
        1 if frames.len() > 1 => {
            let i = 1 + rng.usize(frames.len() - 1);
            let f = frames[i].clone();
            frames.insert(i, f);
            tags.push("mut:dup-frame".into());
        }
        2 if !frames.is_empty() => {
            frames.remove(0);
            tags.push("mut:no-schema".into());
        }
        3 if !frames.is_empty() => {
            let f = frames[0].clone();
            frames.push(f);
            tags.push("mut:schema-again".into());
        }
        _ => {}
    }
    let pend: Vec<usize> = (0..=frames.len()).map(|_| if rng.bool() { 0 } else { rng.usize(4) }).collect();
    let total: usize = frames.iter().map(|f| 8 + f.data_header.len() + f.data_body.len()).sum();
    let mut sizes = vec![];
    let mut left = total;
    while left > 0 {
        let m = *rng.pick(&[3usize, 40, 400]);
        let n = (1 + rng.usize(m)).min(left);
        sizes.push(n);
        if rng.chance(1, 6) {
            sizes.push(0);
        }
        left -= n;
    }
    if pend.iter().any(|&p| p > 0) {
        tags.push("nt".into());
    }
    tags.push(format!("frames:{}", frames.len().min(9)));
    let fs: Vec<String> = frames.iter().map(|f| format!("{}:{}", hex(&f.data_header), hex(&f.data_body))).collect();
    (format!("C14 flight {} {} {}", show_list(&fs), show_list(&pend), show_list(&sizes)), tags.join(" "))
}

fn main() {
    let args = parse_args();
    if std::env::var("VERIF_LOUD").is_err() {
        quiet_panics();
    }
    let mut sink = Sink::new(&args.out);
    let emit = |sink: &mut Sink, line: String, tags: String| {
        let (a, fails) = run_case(&line);
        let mut tags = tags;
        for (what, tag) in fails {
            let t = format!("{} {}", tags, tag);
            sink.oracle_failure(line.clone(), what, &t);
            tags = t;
        }
        sink.case(line, a, &tags);
    };
    if args.mode == "replay" {
        for line in read_cases(args.replay.as_ref().unwrap()) {
            emit(&mut sink, line, "replay".into());
        }
    } else {
        let mut rng = Rng::new(args.seed ^ 0xC14A);
        let n = n_cases(&args, 400, 8000);
        // fixed deterministic block (same in every run), then the random cases
        let mut fixed_rng = Rng::new(0xC14F);
        for k in 0..48 {
            let (line, tags) = gen_avrod(&mut fixed_rng, Some(k));
            emit(&mut sink, line, tags);
        }
        for i in 0..n {
            let (line, tags) = match i % 10 {
                0..=4 => gen_case(&mut rng),
                5..=7 => gen_flight(&mut rng),
                _ => gen_avrod(&mut rng, None),
            };
            emit(&mut sink, line, tags);
        }
    }
    sink.finish();
}
