//! C14 correspondence harness, Avro part: the OCF `Reader` (header decoder, `BlockDecoder`,
//! `VLQDecoder`, row decoder) is independent of the sizes of the buffers `fill_buf` returns.
//!
//!   C14 avro <batch_size> <file-hex> <chunk sizes> <header_len>
//!   C14 flight <frames hdrhex:bodyhex,…> <pending polls before each frame> <ipc chunk sizes>
//!     Flight decoder = IPC messages per frame: the frames are decoded by `FlightRecordBatchStream`
//!     from a ready stream, from a stream that returns `Pending` the given number of times before
//!     each frame, and — re-framed as an IPC stream (marker, length, header, body) — by the IPC
//!     `StreamDecoder` fed the given chunks; all three must agree (model: SKIP).
//!
//! The file is read through a `BufRead` that hands out exactly the given chunks.  Oracle: same
//! batches / outcome as reading the whole file from one buffer and one byte at a time, every
//! single split point, all partitions of short tails, no batch larger than batch_size.
//! Answer (compared with the Lean block-decoder model run on the bytes after the header):
//! `rows=<total> r=ok` or `r=ERR`.
use arrow_array::{ArrayRef, Int64Array, RecordBatch, StringArray};
use arrow_avro::reader::{ReaderBuilder, read_header_info};
use arrow_avro::writer::AvroWriter;
use arrow_schema::{DataType, Field, Schema};
use std::io::{BufRead, Read};
use std::sync::Arc;
use vcommon::*;

struct ChunkedRead<'a> {
    chunks: Vec<&'a [u8]>,
    idx: usize,
    pos: usize,
}
impl<'a> ChunkedRead<'a> {
    fn new(chunks: Vec<&'a [u8]>) -> Self {
        ChunkedRead { chunks, idx: 0, pos: 0 }
    }
}
impl Read for ChunkedRead<'_> {
    fn read(&mut self, out: &mut [u8]) -> std::io::Result<usize> {
        let b = self.fill_buf()?;
        let n = b.len().min(out.len());
        out[..n].copy_from_slice(&b[..n]);
        self.consume(n);
        Ok(n)
    }
}
impl BufRead for ChunkedRead<'_> {
    fn fill_buf(&mut self) -> std::io::Result<&[u8]> {
        while self.idx < self.chunks.len() && self.pos >= self.chunks[self.idx].len() {
            self.idx += 1;
            self.pos = 0;
        }
        if self.idx >= self.chunks.len() { Ok(&[]) } else { Ok(&self.chunks[self.idx][self.pos..]) }
    }
    fn consume(&mut self, n: usize) {
        self.pos += n;
    }
}

#[derive(PartialEq, Debug)]
struct Outcome {
    batches: Vec<RecordBatch>,
    verdict: String,
}
impl Outcome {
    fn short(&self) -> String {
        format!("rows={} r={}", show_list(&self.batches.iter().map(|b| b.num_rows()).collect::<Vec<_>>()), self.verdict)
    }
}

fn split<'a>(data: &'a [u8], sizes: &[usize]) -> Vec<&'a [u8]> {
    let mut out = vec![];
    let mut p = 0;
    for &n in sizes {
        out.push(&data[p..p + n]);
        p += n;
    }
    assert_eq!(p, data.len());
    out
}

fn read_avro(bs: usize, chunks: Vec<&[u8]>) -> Outcome {
    let r = std::panic::catch_unwind(std::panic::AssertUnwindSafe(|| {
        let reader = match ReaderBuilder::new().with_batch_size(bs).build(ChunkedRead::new(chunks)) {
            Ok(r) => r,
            Err(_) => return Outcome { batches: vec![], verdict: "ERR:open".into() },
        };
        let mut batches = vec![];
        let mut verdict = "ok".to_string();
        for b in reader {
            match b {
                Ok(b) => batches.push(b),
                Err(_) => {
                    verdict = "ERR".into();
                    break;
                }
            }
        }
        Outcome { batches, verdict }
    }));
    r.unwrap_or_else(|_| Outcome { batches: vec![], verdict: "PANIC".into() })
}

fn run_case(line: &str) -> (String, Vec<(String, String)>) {
    let t: Vec<&str> = line.split(' ').collect();
    assert_eq!(t[0], "C14");
    let mut fails = vec![];
    if t[1] == "flight" {
        return run_flight(&t);
    }
    if t[1] != "avro" {
        return ("bad-op".into(), fails);
    }
    let (bs, data, sizes) = (t[2].parse::<usize>().unwrap(), unhex(t[3]), parse_list::<usize>(t[4]));
    let hdr: usize = t[5].parse().unwrap();
    let given = read_avro(bs, split(&data, &sizes));
    let single = read_avro(bs, vec![&data]);
    let mut cmp = |name: String, o: &Outcome| {
        if *o != single {
            fails.push((format!("{} {} != single-buffer {}", name, o.short(), single.short()), "oracle:chunk-dep".to_string()));
        }
    };
    cmp("chunked".into(), &given);
    cmp("bytewise".into(), &read_avro(bs, data.chunks(1).collect()));
    for i in 0..=data.len() {
        let o = read_avro(bs, vec![&data[..i], &data[i..]]);
        if o != single {
            cmp(format!("split@{}", i), &o);
            break;
        }
    }
    // all partitions of the last (up to) 11 bytes, and of the first 11 bytes after the header
    for start in [data.len().saturating_sub(11), hdr.min(data.len())] {
        let end = (start + 11).min(data.len());
        let n = end - start;
        if n == 0 {
            continue;
        }
        for mask in 0u32..(1 << (n - 1)) {
            let mut sz = vec![];
            if start > 0 {
                sz.push(start);
            }
            let mut cur = 1;
            for i in 0..n - 1 {
                if mask >> i & 1 == 1 {
                    sz.push(cur);
                    cur = 1;
                } else {
                    cur += 1;
                }
            }
            sz.push(cur);
            if end < data.len() {
                sz.push(data.len() - end);
            }
            let o = read_avro(bs, split(&data, &sz));
            if o != single {
                cmp(format!("partition {}", show_list(&sz)), &o);
                break;
            }
        }
    }
    for b in &single.batches {
        if b.num_rows() > bs {
            fails.push((format!("batch of {} rows > batch_size {}", b.num_rows(), bs), "oracle:batch-size".into()));
        }
    }
    let total: usize = given.batches.iter().map(|b| b.num_rows()).sum();
    let ans = if given.verdict == "ok" { format!("rows={} r=ok", total) } else { format!("r={}", given.verdict) };
    (ans, fails)
}

fn gen_case(rng: &mut Rng) -> (String, String) {
    let schema = Schema::new(vec![Field::new("id", DataType::Int64, false), Field::new("s", DataType::Utf8, false)]);
    let nb = *rng.pick(&[0usize, 1, 2, 3, 4]);
    let mut w = AvroWriter::new(Vec::<u8>::new(), schema.clone()).unwrap();
    let mut tags = vec!["op:avro".to_string()];
    for _ in 0..nb {
        let n = *rng.pick(&[1usize, 1, 2, 3, 7, 70]);
        let ids: Vec<i64> = (0..n).map(|_| rng.pick_or(&[0, -1, 63, 64, -65, 8191, 8192, i64::MAX, i64::MIN], -100000, 100000)).collect();
        let ss: Vec<String> = (0..n).map(|_| "x".repeat(rng.usize(5))).collect();
        let cols: Vec<ArrayRef> = vec![Arc::new(Int64Array::from(ids)), Arc::new(StringArray::from(ss))];
        w.write(&RecordBatch::try_new(Arc::new(schema.clone()), cols).unwrap()).unwrap();
        if n == 70 {
            tags.push("big-block".into());
        }
    }
    w.finish().unwrap();
    let mut data = w.into_inner();
    let hdr = read_header_info(std::io::Cursor::new(&data)).unwrap().header_len() as usize;
    match rng.below(8) {
        0 if data.len() > hdr => {
            let cut = hdr + rng.usize(data.len() - hdr);
            data.truncate(cut);
            tags.push("mut:truncated".into());
        }
        1 if nb > 0 => {
            // corrupt the sync marker of the last block
            let i = data.len() - 1 - rng.usize(16);
            data[i] ^= 0x40;
            tags.push("mut:sync".into());
        }
        _ => {}
    }
    let bs = *rng.pick(&[1usize, 2, 3, 4, 5, 1024]);
    // chunking
    let n = data.len();
    let mut cuts: Vec<usize> = vec![];
    let name = match rng.below(6) {
        0 => "ch:single",
        1 => {
            cuts = (1..n).collect();
            "ch:bytes"
        }
        2 => {
            let k = 1 + rng.usize(9);
            cuts = (1..n).filter(|i| i % k == 0).collect();
            "ch:fixed"
        }
        3 => {
            // around the header end and the end of file
            for d in -3i64..=3 {
                if rng.bool() {
                    cuts.push((hdr as i64 + d).clamp(0, n as i64) as usize);
                }
                if rng.bool() {
                    cuts.push((n as i64 - 16 + d).clamp(0, n as i64) as usize);
                }
            }
            "ch:boundary"
        }
        _ => {
            for _ in 0..1 + rng.usize(8) {
                cuts.push(rng.usize(n + 1));
            }
            "ch:random"
        }
    };
    tags.push(name.into());
    cuts.sort();
    cuts.dedup(); // an empty fill_buf would mean EOF: no empty chunks
    cuts.retain(|&c| c > 0 && c < n);
    let mut sizes = vec![];
    let mut p = 0;
    for c in cuts {
        sizes.push(c - p);
        p = c;
    }
    sizes.push(n - p);
    if sizes.len() >= 2 {
        tags.push("nt".into());
    }
    tags.push(format!("bs:{}", if bs > 5 { "large".to_string() } else { bs.to_string() }));
    tags.push(format!("blocks:{}", nb));
    (format!("C14 avro {} {} {} {}", bs, hex(&data), show_list(&sizes), hdr), tags.join(" "))
}

// ---------------------------------------------------------------------------------------- Flight

use arrow_flight::FlightData;
use arrow_flight::decode::FlightRecordBatchStream;
use arrow_flight::encode::FlightDataEncoderBuilder;
use arrow_flight::error::FlightError;
use futures::{Stream, StreamExt, TryStreamExt};
use std::collections::VecDeque;
use std::pin::Pin;
use std::task::{Context, Poll};

/// a stream that is `Pending` (and immediately re-woken) `pend[i]` times before yielding frame i
struct Lazy {
    items: VecDeque<FlightData>,
    pend: VecDeque<usize>,
}
impl Stream for Lazy {
    type Item = Result<FlightData, FlightError>;
    fn poll_next(mut self: Pin<&mut Self>, cx: &mut Context<'_>) -> Poll<Option<Self::Item>> {
        if let Some(p) = self.pend.front_mut() {
            if *p > 0 {
                *p -= 1;
                cx.waker().wake_by_ref();
                return Poll::Pending;
            }
        }
        self.pend.pop_front();
        Poll::Ready(self.items.pop_front().map(Ok))
    }
}

fn flight_decode(frames: &[FlightData], pend: &[usize]) -> Outcome {
    let frames = frames.to_vec();
    let pend: VecDeque<usize> = (0..=frames.len()).map(|i| pend.get(i).copied().unwrap_or(0)).collect();
    let r = std::panic::catch_unwind(std::panic::AssertUnwindSafe(move || {
        let mut st = FlightRecordBatchStream::new_from_flight_data(Lazy { items: frames.into(), pend });
        let mut batches = vec![];
        let mut verdict = "ok".to_string();
        futures::executor::block_on(async {
            loop {
                match st.next().await {
                    Some(Ok(b)) => batches.push(b),
                    Some(Err(_)) => {
                        verdict = "ERR".into();
                        break;
                    }
                    None => break,
                }
            }
        });
        Outcome { batches, verdict }
    }));
    r.unwrap_or_else(|_| Outcome { batches: vec![], verdict: "PANIC".into() })
}

/// the same messages as an IPC stream through the push `StreamDecoder`
fn flight_as_ipc(frames: &[FlightData], sizes: &[usize]) -> Outcome {
    let mut bytes = vec![];
    for f in frames {
        bytes.extend_from_slice(&[0xff; 4]);
        bytes.extend_from_slice(&(f.data_header.len() as u32).to_le_bytes());
        bytes.extend_from_slice(&f.data_header);
        bytes.extend_from_slice(&f.data_body);
    }
    let r = std::panic::catch_unwind(std::panic::AssertUnwindSafe(|| {
        let mut d = arrow_ipc::reader::StreamDecoder::new();
        let mut batches = vec![];
        let mut p = 0;
        let mut sizes: Vec<usize> = sizes.to_vec();
        let total: usize = sizes.iter().sum();
        if total < bytes.len() {
            sizes.push(bytes.len() - total);
        }
        for n in sizes {
            let n = n.min(bytes.len() - p);
            let mut x = arrow_buffer::Buffer::from(bytes[p..p + n].to_vec());
            p += n;
            while !x.is_empty() {
                match d.decode(&mut x) {
                    Ok(Some(b)) => batches.push(b),
                    Ok(None) => {}
                    Err(e) => {
                        if std::env::var("VERIF_LOUD").is_ok() {
                            eprintln!("ipc err: {e}");
                        }
                        return Outcome { batches, verdict: "ERR".into() };
                    }
                }
            }
        }
        // feed one more (EOS) prefix so that a final message with an empty body is dispatched
        let mut x = arrow_buffer::Buffer::from(vec![0xffu8, 0xff, 0xff, 0xff, 0, 0, 0, 0]);
        while !x.is_empty() {
            match d.decode(&mut x) {
                Ok(Some(b)) => batches.push(b),
                Ok(None) => {}
                Err(e) => {
                    if std::env::var("VERIF_LOUD").is_ok() {
                        eprintln!("ipc eos err: {e}");
                    }
                    return Outcome { batches, verdict: "ERR".into() };
                }
            }
        }
        if std::env::var("VERIF_LOUD").is_ok() {
            eprintln!("bytes {} schema {} first16 {:?}", bytes.len(), d.schema().is_some(), &bytes[..16.min(bytes.len())]);
        }
        let fin = d.finish();
        if let (Err(e), true) = (&fin, std::env::var("VERIF_LOUD").is_ok()) {
            eprintln!("ipc finish err: {e}");
        }
        let verdict = if fin.is_ok() { "ok" } else { "ERR" };
        Outcome { batches, verdict: verdict.into() }
    }));
    r.unwrap_or_else(|_| Outcome { batches: vec![], verdict: "PANIC".into() })
}

fn parse_frames(s: &str) -> Vec<FlightData> {
    if s == "-" {
        return vec![];
    }
    s.split(',')
        .map(|f| {
            let (h, b) = f.split_once(':').unwrap();
            FlightData { flight_descriptor: None, data_header: unhex(h).into(), app_metadata: Default::default(), data_body: unhex(b).into() }
        })
        .collect()
}

fn run_flight(t: &[&str]) -> (String, Vec<(String, String)>) {
    let frames = parse_frames(t[2]);
    let pend: Vec<usize> = parse_list(t[3]);
    let sizes: Vec<usize> = parse_list(t[4]);
    let mut fails = vec![];
    let ready = flight_decode(&frames, &[]);
    let given = flight_decode(&frames, &pend);
    if given != ready {
        fails.push((format!("lazy stream {} != ready stream {}", given.short(), ready.short()), "oracle:chunk-dep".to_string()));
    }
    // every frame delayed alone
    for i in 0..=frames.len() {
        let mut p = vec![0; frames.len() + 1];
        p[i] = 2;
        let o = flight_decode(&frames, &p);
        if o != ready {
            fails.push((format!("frame {} delayed {} != ready {}", i, o.short(), ready.short()), "oracle:chunk-dep".to_string()));
            break;
        }
    }
    // as an IPC stream: given chunking, single chunk, byte-wise; only meaningful when every frame
    // carries a valid message (the flight decoder skips nothing either)
    let ipc_given = flight_as_ipc(&frames, &sizes);
    let ipc_one = flight_as_ipc(&frames, &[]);
    let ipc_bytes = flight_as_ipc(&frames, &vec![1; frames.iter().map(|f| 8 + f.data_header.len() + f.data_body.len()).sum()]);
    for (name, o) in [("ipc-chunked", &ipc_given), ("ipc-bytewise", &ipc_bytes)] {
        if *o != ipc_one {
            fails.push((format!("{} {} != ipc-single {}", name, o.short(), ipc_one.short()), "oracle:chunk-dep".to_string()));
        }
    }
    if ready.verdict == "ok" && ipc_one.verdict == "ok" && ready.batches != ipc_one.batches {
        fails.push((format!("flight {} != same messages as IPC stream {}", ready.short(), ipc_one.short()), "oracle:flight-vs-ipc".to_string()));
    }
    if (ready.verdict == "ok") != (ipc_one.verdict == "ok") {
        fails.push((format!("flight {} vs IPC stream {}", ready.short(), ipc_one.short()), "oracle:flight-vs-ipc-outcome".to_string()));
    }
    (given.short(), fails)
}

fn gen_flight(rng: &mut Rng) -> (String, String) {
    let schema = Arc::new(Schema::new(vec![Field::new("id", DataType::Int64, true), Field::new("s", DataType::Utf8, true)]));
    let nb = rng.usize(4);
    let mut batches = vec![];
    for _ in 0..nb {
        let n = *rng.pick(&[0usize, 1, 3, 9, 40]);
        let ids: Vec<Option<i64>> = (0..n).map(|_| if rng.chance(1, 5) { None } else { Some(rng.range(-50, 50)) }).collect();
        let ss: Vec<Option<String>> = (0..n).map(|_| if rng.chance(1, 5) { None } else { Some("y".repeat(rng.usize(6))) }).collect();
        let cols: Vec<ArrayRef> = vec![Arc::new(Int64Array::from(ids)), Arc::new(StringArray::from(ss))];
        batches.push(RecordBatch::try_new(schema.clone(), cols).unwrap());
    }
    let max = *rng.pick(&[64usize, 200, 2 * 1024 * 1024]);
    let mut tags = vec!["op:flight".to_string(), format!("max:{}", max)];
    let enc = FlightDataEncoderBuilder::new()
        .with_max_flight_data_size(max)
        .with_schema(schema.clone())
        .build(futures::stream::iter(batches.into_iter().map(Ok)));
    let mut frames: Vec<FlightData> = futures::executor::block_on(enc.try_collect()).unwrap();
    match rng.below(8) {
        0 if frames.len() > 1 => {
            let i = 1 + rng.usize(frames.len() - 1);
            frames.remove(i);
            tags.push("mut:drop-frame".into());
        }
        1 if frames.len() > 1 => {
            let i = 1 + rng.usize(frames.len() - 1);
            let f = frames[i].clone();
            frames.insert(i, f);
            tags.push("mut:dup-frame".into());
        }
        2 if !frames.is_empty() => {
            frames.remove(0);
            tags.push("mut:no-schema".into());
        }
        3 if !frames.is_empty() => {
            let f = frames[0].clone();
            frames.push(f);
            tags.push("mut:schema-again".into());
        }
        _ => {}
    }
    let pend: Vec<usize> = (0..=frames.len()).map(|_| if rng.bool() { 0 } else { rng.usize(4) }).collect();
    let total: usize = frames.iter().map(|f| 8 + f.data_header.len() + f.data_body.len()).sum();
    let mut sizes = vec![];
    let mut left = total;
    while left > 0 {
        let m = *rng.pick(&[3usize, 40, 400]);
        let n = (1 + rng.usize(m)).min(left);
        sizes.push(n);
        if rng.chance(1, 6) {
            sizes.push(0);
        }
        left -= n;
    }
    if pend.iter().any(|&p| p > 0) {
        tags.push("nt".into());
    }
    tags.push(format!("frames:{}", frames.len().min(9)));
    let fs: Vec<String> = frames.iter().map(|f| format!("{}:{}", hex(&f.data_header), hex(&f.data_body))).collect();
    (format!("C14 flight {} {} {}", show_list(&fs), show_list(&pend), show_list(&sizes)), tags.join(" "))
}

fn main() {
    let args = parse_args();
    if std::env::var("VERIF_LOUD").is_err() {
        quiet_panics();
    }
    let mut sink = Sink::new(&args.out);
    let emit = |sink: &mut Sink, line: String, tags: String| {
        let (a, fails) = run_case(&line);
        let mut tags = tags;
        for (what, tag) in fails {
            let t = format!("{} {}", tags, tag);
            sink.oracle_failure(line.clone(), what, &t);
            tags = t;
        }
        sink.case(line, a, &tags);
    };
    if args.mode == "replay" {
        for line in read_cases(args.replay.as_ref().unwrap()) {
            emit(&mut sink, line, "replay".into());
        }
    } else {
        let mut rng = Rng::new(args.seed ^ 0xC14A);
        let n = n_cases(&args, 400, 8000);
        for i in 0..n {
            let (line, tags) = if i % 8 < 5 { gen_case(&mut rng) } else { gen_flight(&mut rng) };
            emit(&mut sink, line, tags);
        }
    }
    sink.finish();
}
