//! C17 correspondence harness, Avro part: arrow-avro writer → bytes → arrow-avro reader.
//!
//! Case lines (grammar shared with lean/ArrowModel/C17/Driver.lean):
//!   C17 avro <schema> <rows>          raw record bodies (AvroBinaryFormat encoder), one hex per row
//!   C17 soe  <fp> <schema> <rows>     single-object stream (C3 01 + Rabin fingerprint + body per row)
//!   C17 ocf  <schema> <rows>/<rows>…  object container file, no codec: block bytes with the sync zeroed
//!   C17 ocfz <codec> <schema> <rows>  object container file with a compression codec (round trip only)
//!   C17 dec  <schema> <hex>           reader only: one SOE-framed record body, e.g. re-blocked arrays
//!
//!   schema  S ::= n b i l f d y s x<N> e<N> ?S !S u(S,…) r(S,…) aS mS
//!   value   V ::= N T F i<int>; l<int>; f<hex8>; d<hex16>; y<hex>; s<hex>; x<hex>; e<int>; _ +V u<i>:V r(V…) a(V…) m(s<hex>;V…)
//!
//! Oracles checked directly on the implementation (reported as impl-vs-oracle):
//!   * reader(writer(batch)) == batch as value trees, for SOE and OCF (every codec);
//!   * the sync marker after every OCF block equals `writer.sync_marker()`, the file starts with `Obj\x01`.
use arrow_array::builder::*;
use arrow_array::cast::AsArray;
use arrow_array::types::*;
use arrow_array::*;
use arrow_avro::compression::CompressionCodec;
use arrow_avro::reader::ReaderBuilder;
use arrow_avro::schema::{AvroSchema, Fingerprint, SCHEMA_METADATA_KEY, SchemaStore};
use arrow_avro::writer::format::{AvroBinaryFormat, AvroOcfFormat, AvroSoeFormat};
use arrow_avro::writer::WriterBuilder;
use arrow_buffer::{NullBuffer, OffsetBuffer, ScalarBuffer};
use arrow_schema::{DataType, Field, Fields, Schema, UnionFields, UnionMode};
use std::collections::HashMap;
use std::sync::Arc;
use vcommon::*;

#[derive(Clone, Debug, PartialEq)]
enum S {
    Null,
    Bool,
    /// boolean column held as a *sliced* BooleanArray (bit offset 3): same Avro type, other physical layout
    BoolSliced,
    Int,
    Long,
    Float,
    Double,
    Bytes,
    Str,
    Fixed(usize),
    Enum(usize),
    Opt(bool, Box<S>), // null_first, inner
    Union(Vec<S>),
    Rec(Vec<S>),
    Arr(Box<S>),
    Map(Box<S>),
}

#[derive(Clone, Debug, PartialEq)]
enum V {
    Null,
    Bool(bool),
    Int(i32),
    Long(i64),
    Float(u32),
    Double(u64),
    Bytes(Vec<u8>),
    Str(Vec<u8>),
    Fixed(Vec<u8>),
    Enum(i32),
    None,
    Some(Box<V>),
    Union(usize, Box<V>),
    Rec(Vec<V>),
    Arr(Vec<V>),
    Map(Vec<(Vec<u8>, V)>),
}

// ---------------------------------------------------------------- grammar
fn show_s(s: &S) -> String {
    match s {
        S::Null => "n".into(),
        S::Bool => "b".into(),
        S::BoolSliced => "B".into(),
        S::Int => "i".into(),
        S::Long => "l".into(),
        S::Float => "f".into(),
        S::Double => "d".into(),
        S::Bytes => "y".into(),
        S::Str => "s".into(),
        S::Fixed(n) => format!("x{n}"),
        S::Enum(n) => format!("e{n}"),
        S::Opt(true, i) => format!("?{}", show_s(i)),
        S::Opt(false, i) => format!("!{}", show_s(i)),
        S::Union(b) => format!("u({})", b.iter().map(show_s).collect::<Vec<_>>().join(",")),
        S::Rec(b) => format!("r({})", b.iter().map(show_s).collect::<Vec<_>>().join(",")),
        S::Arr(i) => format!("a{}", show_s(i)),
        S::Map(i) => format!("m{}", show_s(i)),
    }
}
fn hx(b: &[u8]) -> String {
    b.iter().map(|x| format!("{:02x}", x)).collect()
}
fn show_v(v: &V) -> String {
    match v {
        V::Null => "N".into(),
        V::Bool(true) => "T".into(),
        V::Bool(false) => "F".into(),
        V::Int(i) => format!("i{i};"),
        V::Long(i) => format!("l{i};"),
        V::Float(b) => format!("f{:08x};", b),
        V::Double(b) => format!("d{:016x};", b),
        V::Bytes(b) => format!("y{};", hx(b)),
        V::Str(b) => format!("s{};", hx(b)),
        V::Fixed(b) => format!("x{};", hx(b)),
        V::Enum(i) => format!("e{i};"),
        V::None => "_".into(),
        V::Some(v) => format!("+{}", show_v(v)),
        V::Union(i, v) => format!("u{i}:{}", show_v(v)),
        V::Rec(vs) => format!("r({})", vs.iter().map(show_v).collect::<String>()),
        V::Arr(vs) => format!("a({})", vs.iter().map(show_v).collect::<String>()),
        V::Map(es) => format!("m({})", es.iter().map(|(k, v)| format!("s{};{}", hx(k), show_v(v))).collect::<String>()),
    }
}
/// the rendering `showValue` of the Lean driver produces
fn canon_v(v: &V) -> String {
    match v {
        V::Null => "N".into(),
        V::Bool(true) => "T".into(),
        V::Bool(false) => "F".into(),
        V::Int(i) | V::Enum(i) => format!("i{i};"),
        V::Long(i) => format!("l{i};"),
        V::Float(b) => format!("f{};", b),
        V::Double(b) => format!("d{};", b),
        V::Bytes(b) | V::Str(b) => format!("y{};", hx(b)),
        V::Fixed(b) => format!("x{};", hx(b)),
        V::None => "_".into(),
        V::Some(v) => format!("+{}", canon_v(v)),
        V::Union(i, v) => format!("u{i}:{}", canon_v(v)),
        V::Rec(vs) | V::Arr(vs) => format!("({})", vs.iter().map(canon_v).collect::<String>()),
        V::Map(es) => format!("({})", es.iter().map(|(k, v)| format!("(y{};{})", hx(k), canon_v(v))).collect::<String>()),
    }
}
#[derive(Clone, Default)]
struct SharedBuf(std::rc::Rc<std::cell::RefCell<Vec<u8>>>);
impl std::io::Write for SharedBuf {
    fn write(&mut self, b: &[u8]) -> std::io::Result<usize> {
        self.0.borrow_mut().extend_from_slice(b);
        Ok(b.len())
    }
    fn flush(&mut self) -> std::io::Result<()> {
        Ok(())
    }
}
struct P<'a> {
    b: &'a [u8],
    i: usize,
}
impl<'a> P<'a> {
    fn peek(&self) -> u8 {
        *self.b.get(self.i).unwrap_or(&0)
    }
    fn next(&mut self) -> u8 {
        let c = self.peek();
        self.i += 1;
        c
    }
    fn until(&mut self, stop: u8) -> &'a str {
        let st = self.i;
        while self.peek() != stop {
            self.i += 1;
        }
        let r = std::str::from_utf8(&self.b[st..self.i]).unwrap();
        self.i += 1;
        r
    }
    fn digits(&mut self) -> usize {
        let st = self.i;
        while self.peek().is_ascii_digit() {
            self.i += 1;
        }
        std::str::from_utf8(&self.b[st..self.i]).unwrap().parse().unwrap()
    }
    fn schema(&mut self) -> S {
        match self.next() {
            b'n' => S::Null,
            b'b' => S::Bool,
            b'B' => S::BoolSliced,
            b'i' => S::Int,
            b'l' => S::Long,
            b'f' => S::Float,
            b'd' => S::Double,
            b'y' => S::Bytes,
            b's' => S::Str,
            b'x' => S::Fixed(self.digits()),
            b'e' => S::Enum(self.digits()),
            b'?' => S::Opt(true, Box::new(self.schema())),
            b'!' => S::Opt(false, Box::new(self.schema())),
            b'a' => S::Arr(Box::new(self.schema())),
            b'm' => S::Map(Box::new(self.schema())),
            c @ (b'u' | b'r') => {
                assert_eq!(self.next(), b'(');
                let mut v = vec![];
                loop {
                    match self.peek() {
                        b')' => {
                            self.i += 1;
                            break;
                        }
                        b',' => self.i += 1,
                        _ => v.push(self.schema()),
                    }
                }
                if c == b'u' { S::Union(v) } else { S::Rec(v) }
            }
            c => panic!("bad schema char {c}"),
        }
    }
    fn hextok(&mut self) -> Vec<u8> {
        let t = self.until(b';');
        if t.is_empty() { vec![] } else { unhex(t) }
    }
    fn value(&mut self) -> V {
        match self.next() {
            b'N' => V::Null,
            b'T' => V::Bool(true),
            b'F' => V::Bool(false),
            b'_' => V::None,
            b'+' => V::Some(Box::new(self.value())),
            b'i' => V::Int(self.until(b';').parse().unwrap()),
            b'e' => V::Enum(self.until(b';').parse().unwrap()),
            b'l' => V::Long(self.until(b';').parse().unwrap()),
            b'f' => V::Float(u32::from_str_radix(self.until(b';'), 16).unwrap()),
            b'd' => V::Double(u64::from_str_radix(self.until(b';'), 16).unwrap()),
            b'y' => V::Bytes(self.hextok()),
            b's' => V::Str(self.hextok()),
            b'x' => V::Fixed(self.hextok()),
            b'u' => {
                let i = self.until(b':').parse().unwrap();
                V::Union(i, Box::new(self.value()))
            }
            c @ (b'r' | b'a') => {
                assert_eq!(self.next(), b'(');
                let mut v = vec![];
                while self.peek() != b')' {
                    v.push(self.value());
                }
                self.i += 1;
                if c == b'r' { V::Rec(v) } else { V::Arr(v) }
            }
            b'm' => {
                assert_eq!(self.next(), b'(');
                let mut v = vec![];
                while self.peek() != b')' {
                    let k = match self.value() {
                        V::Str(k) => k,
                        _ => panic!("map key"),
                    };
                    v.push((k, self.value()));
                }
                self.i += 1;
                V::Map(v)
            }
            c => panic!("bad value char {c}"),
        }
    }
}
fn parse_s(t: &str) -> S {
    P { b: t.as_bytes(), i: 0 }.schema()
}
fn parse_rows(t: &str) -> Vec<Vec<V>> {
    if t == "-" {
        return vec![];
    }
    t.split('|')
        .map(|r| match (P { b: r.as_bytes(), i: 0 }).value() {
            V::Rec(v) => v,
            _ => panic!("row"),
        })
        .collect()
}
fn show_rows(rows: &[Vec<V>]) -> String {
    if rows.is_empty() { "-".into() } else { rows.iter().map(|r| show_v(&V::Rec(r.clone()))).collect::<Vec<_>>().join("|") }
}

// ---------------------------------------------------------------- schema → Avro JSON / Arrow
fn avro_json(s: &S, k: &mut usize) -> String {
    match s {
        S::Null => "\"null\"".into(),
        S::Bool | S::BoolSliced => "\"boolean\"".into(),
        S::Int => "\"int\"".into(),
        S::Long => "\"long\"".into(),
        S::Float => "\"float\"".into(),
        S::Double => "\"double\"".into(),
        S::Bytes => "\"bytes\"".into(),
        S::Str => "\"string\"".into(),
        S::Fixed(n) => {
            *k += 1;
            format!("{{\"type\":\"fixed\",\"name\":\"X{}\",\"size\":{}}}", k, n)
        }
        S::Enum(n) => {
            *k += 1;
            let syms: Vec<String> = (0..*n).map(|i| format!("\"S{i}\"")).collect();
            format!("{{\"type\":\"enum\",\"name\":\"E{}\",\"symbols\":[{}]}}", k, syms.join(","))
        }
        S::Opt(true, i) => format!("[\"null\",{}]", avro_json(i, k)),
        S::Opt(false, i) => format!("[{},\"null\"]", avro_json(i, k)),
        S::Union(b) => format!("[{}]", b.iter().map(|x| avro_json(x, k)).collect::<Vec<_>>().join(",")),
        S::Rec(fs) => {
            *k += 1;
            let name = *k;
            let f: Vec<String> = fs.iter().enumerate().map(|(i, x)| format!("{{\"name\":\"f{}\",\"type\":{}}}", i, avro_json(x, k))).collect();
            format!("{{\"type\":\"record\",\"name\":\"R{}\",\"fields\":[{}]}}", name, f.join(","))
        }
        S::Arr(i) => format!("{{\"type\":\"array\",\"items\":{}}}", avro_json(i, k)),
        S::Map(i) => format!("{{\"type\":\"map\",\"values\":{}}}", avro_json(i, k)),
    }
}
fn field_of(name: &str, s: &S) -> Field {
    match s {
        S::Opt(_, i) => Field::new(name, dtype(i), true),
        S::Null => Field::new(name, DataType::Null, true),
        // a union with a null branch has logical nulls: Arrow requires the field to be nullable
        S::Union(b) if b.contains(&S::Null) => Field::new(name, dtype(s), true),
        _ => Field::new(name, dtype(s), false),
    }
}
fn union_fields(b: &[S]) -> UnionFields {
    UnionFields::try_new((0..b.len() as i8).collect::<Vec<_>>(), b.iter().enumerate().map(|(i, x)| field_of(&format!("b{i}"), x)).collect::<Vec<_>>()).unwrap()
}
fn dtype(s: &S) -> DataType {
    match s {
        S::Null => DataType::Null,
        S::Bool | S::BoolSliced => DataType::Boolean,
        S::Int => DataType::Int32,
        S::Long => DataType::Int64,
        S::Float => DataType::Float32,
        S::Double => DataType::Float64,
        S::Bytes => DataType::Binary,
        S::Str => DataType::Utf8,
        S::Fixed(n) => DataType::FixedSizeBinary(*n as i32),
        S::Enum(_) => DataType::Dictionary(Box::new(DataType::Int32), Box::new(DataType::Utf8)),
        S::Opt(_, i) => dtype(i),
        S::Union(b) => DataType::Union(union_fields(b), UnionMode::Dense),
        S::Rec(fs) => DataType::Struct(Fields::from(fs.iter().enumerate().map(|(i, x)| field_of(&format!("f{i}"), x)).collect::<Vec<_>>())),
        S::Arr(i) => DataType::List(Arc::new(field_of("item", i))),
        S::Map(i) => DataType::Map(Arc::new(Field::new("entries", DataType::Struct(Fields::from(vec![Field::new("key", DataType::Utf8, false), field_of("value", i)])), false)), false),
    }
}
fn default_v(s: &S) -> V {
    match s {
        S::Null => V::Null,
        S::Bool | S::BoolSliced => V::Bool(false),
        S::Int => V::Int(0),
        S::Long => V::Long(0),
        S::Float => V::Float(0),
        S::Double => V::Double(0),
        S::Bytes => V::Bytes(vec![]),
        S::Str => V::Str(vec![]),
        S::Fixed(n) => V::Fixed(vec![0; *n]),
        S::Enum(_) => V::Enum(0),
        S::Opt(_, _) => V::None,
        S::Union(b) => V::Union(0, Box::new(default_v(&b[0]))),
        S::Rec(fs) => V::Rec(fs.iter().map(default_v).collect()),
        S::Arr(_) => V::Arr(vec![]),
        S::Map(_) => V::Map(vec![]),
    }
}
/// build the Arrow array holding `vals` (each of schema `s`)
fn build(s: &S, vals: &[V]) -> ArrayRef {
    match s {
        S::Null => Arc::new(NullArray::new(vals.len())),
        S::Bool => Arc::new(BooleanArray::from(vals.iter().map(|v| matches!(v, V::Bool(true))).collect::<Vec<_>>())),
        S::BoolSliced => {
            let mut padded = vec![true, false, true];
            padded.extend(vals.iter().map(|v| matches!(v, V::Bool(true))));
            Arc::new(BooleanArray::from(padded).slice(3, vals.len()))
        }
        S::Int => Arc::new(Int32Array::from(vals.iter().map(|v| if let V::Int(i) = v { *i } else { panic!("int") }).collect::<Vec<_>>())),
        S::Long => Arc::new(Int64Array::from(vals.iter().map(|v| if let V::Long(i) = v { *i } else { panic!("long") }).collect::<Vec<_>>())),
        S::Float => Arc::new(Float32Array::from(vals.iter().map(|v| if let V::Float(i) = v { f32::from_bits(*i) } else { panic!("float") }).collect::<Vec<_>>())),
        S::Double => Arc::new(Float64Array::from(vals.iter().map(|v| if let V::Double(i) = v { f64::from_bits(*i) } else { panic!("double") }).collect::<Vec<_>>())),
        S::Bytes => Arc::new(BinaryArray::from_iter_values(vals.iter().map(|v| if let V::Bytes(b) = v { b.clone() } else { panic!("bytes") }))),
        S::Str => Arc::new(StringArray::from_iter_values(vals.iter().map(|v| if let V::Str(b) = v { String::from_utf8(b.clone()).unwrap() } else { panic!("str") }))),
        S::Fixed(n) => {
            let mut b = FixedSizeBinaryBuilder::new(*n as i32);
            for v in vals {
                if let V::Fixed(x) = v { b.append_value(x).unwrap() } else { panic!("fixed") }
            }
            Arc::new(b.finish())
        }
        S::Enum(n) => {
            let keys = Int32Array::from(vals.iter().map(|v| if let V::Enum(i) = v { *i } else { panic!("enum") }).collect::<Vec<_>>());
            let values = StringArray::from_iter_values((0..*n).map(|i| format!("S{i}")));
            Arc::new(DictionaryArray::<Int32Type>::try_new(keys, Arc::new(values)).unwrap())
        }
        S::Opt(_, inner) if **inner == S::BoolSliced => {
            // nullable boolean column held as a sliced array: validity and values share the bit offset 3
            let mut padded: Vec<Option<bool>> = vec![Some(true), None, Some(false)];
            padded.extend(vals.iter().map(|v| match v {
                V::Some(x) => Some(matches!(**x, V::Bool(true))),
                _ => None,
            }));
            Arc::new(BooleanArray::from(padded).slice(3, vals.len()))
        }
        S::Opt(_, inner) => {
            let d = default_v(inner);
            let filled: Vec<V> = vals.iter().map(|v| match v { V::Some(x) => (**x).clone(), V::None => d.clone(), _ => panic!("opt") }).collect();
            let valid: Vec<bool> = vals.iter().map(|v| matches!(v, V::Some(_))).collect();
            let arr = build(inner, &filled);
            if valid.iter().all(|x| *x) && !(vals.len() % 2 == 1) {
                // no null buffer at all on some all-valid columns (NullableNoNulls path)
                return arr;
            }
            let data = arr.to_data().into_builder().nulls(Some(NullBuffer::from(valid))).build().unwrap();
            make_array(data)
        }
        S::Union(b) => {
            let mut type_ids = vec![];
            let mut offsets = vec![];
            let mut per: Vec<Vec<V>> = vec![vec![]; b.len()];
            for v in vals {
                if let V::Union(i, x) = v {
                    type_ids.push(*i as i8);
                    offsets.push(per[*i].len() as i32);
                    per[*i].push((**x).clone());
                } else {
                    panic!("union")
                }
            }
            let children: Vec<ArrayRef> = b.iter().zip(per.iter()).map(|(s, v)| build(s, v)).collect();
            Arc::new(UnionArray::try_new(union_fields(b), ScalarBuffer::from(type_ids), Some(ScalarBuffer::from(offsets)), children).unwrap())
        }
        S::Rec(fs) => {
            let cols: Vec<ArrayRef> = fs
                .iter()
                .enumerate()
                .map(|(i, f)| build(f, &vals.iter().map(|v| if let V::Rec(r) = v { r[i].clone() } else { panic!("rec") }).collect::<Vec<_>>()))
                .collect();
            let fields = match dtype(s) {
                DataType::Struct(f) => f,
                _ => unreachable!(),
            };
            if fs.is_empty() {
                Arc::new(StructArray::new_empty_fields(vals.len(), None))
            } else {
                Arc::new(StructArray::new(fields, cols, None))
            }
        }
        S::Arr(inner) => {
            let mut flat = vec![];
            let mut lens = vec![];
            for v in vals {
                if let V::Arr(x) = v {
                    lens.push(x.len());
                    flat.extend(x.iter().cloned());
                } else {
                    panic!("arr")
                }
            }
            let child = build(inner, &flat);
            Arc::new(ListArray::new(Arc::new(field_of("item", inner)), OffsetBuffer::from_lengths(lens), child, None))
        }
        S::Map(inner) => {
            let mut keys = vec![];
            let mut flat = vec![];
            let mut lens = vec![];
            for v in vals {
                if let V::Map(x) = v {
                    lens.push(x.len());
                    for (k, y) in x {
                        keys.push(String::from_utf8(k.clone()).unwrap());
                        flat.push(y.clone());
                    }
                } else {
                    panic!("map")
                }
            }
            let child = build(inner, &flat);
            let (entries_field, sf) = match dtype(s) {
                DataType::Map(e, _) => match e.data_type() {
                    DataType::Struct(f) => (e.clone(), f.clone()),
                    _ => unreachable!(),
                },
                _ => unreachable!(),
            };
            let entries = StructArray::new(sf, vec![Arc::new(StringArray::from(keys)) as ArrayRef, child], None);
            Arc::new(MapArray::new(entries_field, OffsetBuffer::from_lengths(lens), entries, None, false))
        }
    }
}
/// read the value at row `i` of `arr` as a value tree of schema `s` (names and metadata ignored)
fn extract(s: &S, arr: &dyn Array, i: usize) -> Result<V, String> {
    Ok(match s {
        S::Opt(_, inner) => {
            if arr.is_null(i) { V::None } else { V::Some(Box::new(extract(inner, arr, i)?)) }
        }
        S::Null => {
            if matches!(arr.data_type(), DataType::Null) { V::Null } else { return Err(format!("null: {:?}", arr.data_type())) }
        }
        _ if arr.is_null(i) => return Err("unexpected null".into()),
        S::Bool | S::BoolSliced => V::Bool(arr.as_boolean_opt().ok_or("bool")?.value(i)),
        S::Int => V::Int(arr.as_primitive_opt::<Int32Type>().ok_or("int")?.value(i)),
        S::Long => V::Long(arr.as_primitive_opt::<Int64Type>().ok_or("long")?.value(i)),
        S::Float => V::Float(arr.as_primitive_opt::<Float32Type>().ok_or("float")?.value(i).to_bits()),
        S::Double => V::Double(arr.as_primitive_opt::<Float64Type>().ok_or("double")?.value(i).to_bits()),
        S::Bytes => V::Bytes(arr.as_binary_opt::<i32>().ok_or("bytes")?.value(i).to_vec()),
        S::Str => match arr.data_type() {
            DataType::Utf8 => V::Str(arr.as_string::<i32>().value(i).as_bytes().to_vec()),
            DataType::Utf8View => V::Str(arr.as_string_view().value(i).as_bytes().to_vec()),
            t => return Err(format!("str: {t:?}")),
        },
        S::Fixed(_) => V::Fixed(arr.as_fixed_size_binary_opt().ok_or("fixed")?.value(i).to_vec()),
        S::Enum(_) => {
            let d = arr.as_dictionary_opt::<Int32Type>().ok_or("enum")?;
            let k = d.keys().value(i);
            let vals = d.values().as_string_opt::<i32>().ok_or("enum values")?;
            // the symbol the key points at must be S<k>
            if vals.value(k as usize) != format!("S{k}") {
                return Err("enum symbol".into());
            }
            V::Enum(k)
        }
        S::Union(b) => {
            let u = arr.as_any().downcast_ref::<UnionArray>().ok_or("union")?;
            let tid = u.type_id(i);
            let (fields, _) = match u.data_type() {
                DataType::Union(f, m) => (f.clone(), *m),
                _ => unreachable!(),
            };
            let pos = fields.iter().position(|(t, _)| t == tid).ok_or("type id")?;
            V::Union(pos, Box::new(extract(&b[pos], u.child(tid).as_ref(), u.value_offset(i))?))
        }
        S::Rec(fs) => {
            let st = arr.as_struct_opt().ok_or("struct")?;
            if st.num_columns() != fs.len() {
                return Err("struct arity".into());
            }
            V::Rec(fs.iter().enumerate().map(|(j, f)| extract(f, st.column(j).as_ref(), i)).collect::<Result<_, _>>()?)
        }
        S::Arr(inner) => {
            let l = arr.as_list_opt::<i32>().ok_or("list")?;
            let v = l.value(i);
            V::Arr((0..v.len()).map(|j| extract(inner, v.as_ref(), j)).collect::<Result<_, _>>()?)
        }
        S::Map(inner) => {
            let m = arr.as_map_opt().ok_or("map")?;
            let e = m.value(i);
            let ks = e.column(0).as_string_opt::<i32>().ok_or("map keys")?.clone();
            V::Map((0..e.len()).map(|j| Ok((ks.value(j).as_bytes().to_vec(), extract(inner, e.column(1).as_ref(), j)?))).collect::<Result<_, String>>()?)
        }
    })
}

fn make_batch(top: &[S], rows: &[Vec<V>]) -> (Schema, String, RecordBatch) {
    let mut k = 0;
    let json = avro_json(&S::Rec(top.to_vec()), &mut k);
    let fields: Vec<Field> = top.iter().enumerate().map(|(i, s)| field_of(&format!("f{i}"), s)).collect();
    let mut md = HashMap::new();
    md.insert(SCHEMA_METADATA_KEY.to_string(), json.clone());
    let schema = Schema::new_with_metadata(fields, md);
    let cols: Vec<ArrayRef> = top.iter().enumerate().map(|(i, s)| build(s, &rows.iter().map(|r| r[i].clone()).collect::<Vec<_>>())).collect();
    let batch = RecordBatch::try_new_with_options(Arc::new(schema.clone()), cols, &RecordBatchOptions::new().with_row_count(Some(rows.len()))).unwrap();
    (schema, json, batch)
}
fn rows_of_batches(top: &[S], batches: &[RecordBatch]) -> Result<Vec<Vec<V>>, String> {
    let mut out = vec![];
    for b in batches {
        if b.num_columns() != top.len() {
            return Err("column count".into());
        }
        for i in 0..b.num_rows() {
            out.push(top.iter().enumerate().map(|(j, s)| extract(s, b.column(j).as_ref(), i)).collect::<Result<Vec<_>, _>>()?);
        }
    }
    Ok(out)
}
fn err_class<E: std::fmt::Debug>(e: E) -> String {
    let d = format!("{:?}", e);
    if std::env::var("VERIF_TRACE").is_ok() {
        eprintln!("  error: {}", d.chars().take(400).collect::<String>());
    }
    let name: String = d.chars().take_while(|c| c.is_ascii_alphanumeric()).collect();
    format!("ERR:{}", name)
}
fn top_of(s: &S) -> Vec<S> {
    match s {
        S::Rec(f) => f.clone(),
        _ => panic!("top-level schema must be a record"),
    }
}
fn codec_of(name: &str) -> Option<CompressionCodec> {
    match name {
        "deflate" => Some(CompressionCodec::Deflate),
        "snappy" => Some(CompressionCodec::Snappy),
        "zstd" => Some(CompressionCodec::ZStandard),
        "bzip2" => Some(CompressionCodec::Bzip2),
        "xz" => Some(CompressionCodec::Xz),
        _ => None,
    }
}
fn read_varlong(b: &[u8], i: &mut usize) -> Option<i64> {
    let mut z: u64 = 0;
    let mut sh = 0;
    loop {
        let x = *b.get(*i)?;
        *i += 1;
        z |= ((x & 0x7f) as u64) << sh;
        if x & 0x80 == 0 {
            break;
        }
        sh += 7;
        if sh > 63 {
            return None;
        }
    }
    Some(((z >> 1) as i64) ^ -((z & 1) as i64))
}
fn soe_decode(json: &str, frames: &[u8]) -> Result<(Vec<RecordBatch>, Fingerprint), String> {
    let mut store = SchemaStore::new();
    let fp = store.register(AvroSchema::new(json.to_string())).map_err(err_class)?;
    let mut dec = ReaderBuilder::new().with_writer_schema_store(store).with_batch_size(1 << 20).build_decoder().map_err(err_class)?;
    let mut off = 0;
    let mut out = vec![];
    while off < frames.len() {
        let n = dec.decode(&frames[off..]).map_err(err_class)?;
        if n == 0 {
            break;
        }
        off += n;
    }
    if off != frames.len() {
        return Err("ERR:trailing".into());
    }
    if let Some(b) = dec.flush().map_err(err_class)? {
        out.push(b);
    }
    Ok((out, fp))
}
fn rabin_hex(fp: &Fingerprint) -> String {
    match fp {
        Fingerprint::Rabin(v) => hex(&v.to_le_bytes()),
        _ => panic!("fingerprint kind"),
    }
}

fn unslice(s: &S) -> S {
    match s {
        S::BoolSliced => S::Bool,
        S::Opt(n, i) => S::Opt(*n, Box::new(unslice(i))),
        S::Arr(i) => S::Arr(Box::new(unslice(i))),
        S::Map(i) => S::Map(Box::new(unslice(i))),
        S::Union(b) => S::Union(b.iter().map(unslice).collect()),
        S::Rec(b) => S::Rec(b.iter().map(unslice).collect()),
        x => x.clone(),
    }
}
/// Avro JSON schema → schema tree (names, docs and logical types ignored)
fn s_of_json(j: &serde_json::Value) -> Option<S> {
    use serde_json::Value as J;
    Some(match j {
        J::String(t) => match t.as_str() {
            "null" => S::Null,
            "boolean" => S::Bool,
            "int" => S::Int,
            "long" => S::Long,
            "float" => S::Float,
            "double" => S::Double,
            "bytes" => S::Bytes,
            "string" => S::Str,
            _ => return None,
        },
        J::Array(b) => {
            let bs: Vec<S> = b.iter().map(s_of_json).collect::<Option<_>>()?;
            if bs.len() == 2 && bs[0] == S::Null {
                S::Opt(true, Box::new(bs[1].clone()))
            } else if bs.len() == 2 && bs[1] == S::Null {
                S::Opt(false, Box::new(bs[0].clone()))
            } else {
                S::Union(bs)
            }
        }
        J::Object(o) => match o.get("type")? {
            J::String(t) => match t.as_str() {
                "record" => S::Rec(o.get("fields")?.as_array()?.iter().map(|f| s_of_json(f.get("type")?)).collect::<Option<_>>()?),
                "array" => S::Arr(Box::new(s_of_json(o.get("items")?)?)),
                "map" => S::Map(Box::new(s_of_json(o.get("values")?)?)),
                "fixed" => S::Fixed(o.get("size")?.as_u64()? as usize),
                "enum" => S::Enum(o.get("symbols")?.as_array()?.len()),
                _ => s_of_json(o.get("type")?)?,
            },
            other => s_of_json(other)?,
        },
        _ => return None,
    })
}
/// the `avro.schema` entry of an OCF header as written by `AvroOcfFormat::start_stream`
fn ocf_header_schema(bytes: &[u8]) -> Option<String> {
    let mut i = 4;
    let n = read_varlong(bytes, &mut i)?;
    for _ in 0..n {
        let kl = read_varlong(bytes, &mut i)? as usize;
        let k = bytes.get(i..i + kl)?.to_vec();
        i += kl;
        let vl = read_varlong(bytes, &mut i)? as usize;
        let v = bytes.get(i..i + vl)?.to_vec();
        i += vl;
        if k == b"avro.schema" {
            return String::from_utf8(v).ok();
        }
    }
    None
}

/// structural tags of the recorded findings, computed from the case line alone (so they are
/// the same in gen and replay mode):
///  * `kf:avro-ocf-header-schema-regenerated` — OCF write whose user-supplied `avro.schema` JSON differs
///    from the one `AvroOcfFormat::start_stream` regenerates from the Arrow schema (null-second unions, enums);
///    such a file may also make `Reader::read` spin: `kf:avro-reader-trailing-block-bytes-hang`
///  * `kf:avro-union-counts-not-reset` — a union column read in more than one batch (rows > batch size 7)
fn kf_tags(line: &str) -> String {
    let t: Vec<&str> = line.split(' ').collect();
    let si = match t.get(1).copied() {
        Some("avro") | Some("ocf") => 2,
        Some("soe") | Some("ocfz") => 3,
        _ => return String::new(),
    };
    if t.len() < si + 2 {
        return String::new();
    }
    let top = parse_s(t[si]);
    let mut out = String::new();
    // `kf:avro-list-sliced-boolean-values`: an array / map whose values child is a BooleanArray with a
    // non-zero bit offset (`Array::offset() != 0`): List/Map/FixedSizeList encoders subtract that offset
    // from row indices that are already relative to the child
    if has(&top, &|x: &S| matches!(x, S::Arr(i) | S::Map(i) if matches!(**i, S::BoolSliced) || matches!(&**i, S::Opt(_, j) if **j == S::BoolSliced))) {
        out.push_str(" kf:avro-list-sliced-boolean-values");
    }
    if t[1] != "ocf" && t[1] != "ocfz" {
        return out;
    }
    let regenerated = has(&top, &|x: &S| matches!(x, S::Opt(false, _) | S::Enum(_)));
    let rows: usize = t[si + 1].split('/').map(|b| if b == "-" { 0 } else { b.split('|').count() }).sum();
    if regenerated {
        out.push_str(" kf:avro-ocf-header-schema-regenerated kf:avro-reader-trailing-block-bytes-hang");
    } else if has(&top, &|x: &S| matches!(x, S::Union(_))) && rows > OCF_BATCH_SIZE {
        out.push_str(" kf:avro-union-counts-not-reset");
    }
    out
}
const OCF_BATCH_SIZE: usize = 7;
/// how many mis-headed files the harness still tries to read (each may cost a watchdog timeout
/// and leave a spinning thread behind)
static HANG_PROBES: std::sync::atomic::AtomicUsize = std::sync::atomic::AtomicUsize::new(0);
const MAX_HANG_PROBES: usize = 3;

fn run_case(line: &str, sink: &mut Sink, tags: &str) -> String {
    let t: Vec<&str> = line.split(' ').collect();
    assert_eq!(t[0], "C17");
    let mut oracle: Vec<(String, &str)> = vec![];
    let ans = guarded(|| match t[1] {
        "avro" => {
            let top = top_of(&parse_s(t[2]));
            let rows = parse_rows(t[3]);
            let (schema, _json, batch) = make_batch(&top, &rows);
            let mut enc = match WriterBuilder::new(schema).build_encoder::<AvroBinaryFormat>() {
                Ok(e) => e,
                Err(e) => return err_class(e),
            };
            if let Err(e) = enc.encode(&batch) {
                return err_class(e);
            }
            let er = enc.flush();
            let v: Vec<String> = er.iter().map(|b| hex(&b)).collect();
            show_list(&v)
        }
        "soe" => {
            let top = top_of(&parse_s(t[3]));
            let rows = parse_rows(t[4]);
            let (schema, json, batch) = make_batch(&top, &rows);
            let mut w = match WriterBuilder::new(schema).build::<_, AvroSoeFormat>(Vec::<u8>::new()) {
                Ok(w) => w,
                Err(e) => return err_class(e),
            };
            if let Err(e) = w.write(&batch) {
                return err_class(e);
            }
            w.finish().unwrap();
            let bytes = w.into_inner();
            match soe_decode(&json, &bytes) {
                Ok((batches, fp)) => {
                    if rabin_hex(&fp) != t[2] {
                        oracle.push((format!("fingerprint {} != case {}", rabin_hex(&fp), t[2]), ""));
                    }
                    match rows_of_batches(&top, &batches) {
                        Ok(back) if back == rows => {}
                        Ok(back) => oracle.push((format!("soe round trip: read {}", show_rows(&back)), "")),
                        Err(e) => oracle.push((format!("soe round trip: extract {e}"), "")),
                    }
                }
                Err(e) => oracle.push((format!("soe round trip: reader {e}"), "")),
            }
            hex(&bytes)
        }
        "ocf" | "ocfz" => {
            let (codec, si) = if t[1] == "ocfz" { (codec_of(t[2]), 3) } else { (None, 2) };
            let top = top_of(&parse_s(t[si]));
            let batches_rows: Vec<Vec<Vec<V>>> = t[si + 1].split('/').map(parse_rows).collect();
            let (schema, _json, _) = make_batch(&top, &[]);
            let shared = SharedBuf::default();
            let mut w = match WriterBuilder::new(schema).with_compression(codec).build::<_, AvroOcfFormat>(shared.clone()) {
                Ok(w) => w,
                Err(e) => return err_class(e),
            };
            let sync = *w.sync_marker().unwrap();
            let header_len = shared.0.borrow().len();
            for rows in batches_rows.iter() {
                let (_, _, batch) = make_batch(&top, rows);
                if let Err(e) = w.write(&batch) {
                    return err_class(e);
                }
            }
            w.finish().unwrap();
            drop(w);
            let bytes = shared.0.borrow().clone();
            if &bytes[..4] != b"Obj\x01" {
                oracle.push(("magic".into(), ""));
            }
            if &bytes[header_len - 16..header_len] != &sync[..] {
                oracle.push(("header sync".into(), ""));
            }
            // read back
            let all_rows: Vec<Vec<V>> = batches_rows.iter().flatten().cloned().collect();
            // the header must advertise the schema the body was encoded with; if it does not, reading
            // decodes the body under another schema (garbage, an error, or a non-terminating
            // `Reader::read` when a block is left with trailing bytes) — report and skip the read
            let header_s = ocf_header_schema(&bytes).and_then(|j| serde_json::from_str::<serde_json::Value>(&j).ok()).and_then(|j| s_of_json(&j));
            let header_ok = header_s == Some(unslice(&S::Rec(top.clone())));
            if !header_ok {
                oracle.push((format!("ocf header schema {} differs from the writer schema the body is encoded with", header_s.as_ref().map(show_s).unwrap_or("?".into())), "finding:ocf-header-schema"));
                // a few of these files are still handed to the reader, under a watchdog: the body is decoded under
                // the wrong schema and a block left with trailing bytes makes `Reader::read` spin forever
                if HANG_PROBES.fetch_add(1, std::sync::atomic::Ordering::SeqCst) < MAX_HANG_PROBES {
                    let (tx, rx) = std::sync::mpsc::channel();
                    let data = bytes.clone();
                    std::thread::spawn(move || {
                        let r = std::panic::catch_unwind(|| match ReaderBuilder::new().with_batch_size(OCF_BATCH_SIZE).build(std::io::Cursor::new(data)) {
                            Ok(r) => r.map(|b| b.map(|x| x.num_rows())).collect::<Result<Vec<_>, _>>().map(|v| v.iter().sum::<usize>()).map_err(|_| ()),
                            Err(_) => Err(()),
                        });
                        let _ = tx.send(r);
                    });
                    match rx.recv_timeout(std::time::Duration::from_secs(3)) {
                        Ok(_) => {}
                        Err(_) => oracle.push(("HANG: Reader::read does not terminate on the file the OCF writer produced (block with trailing bytes)".into(), "finding:reader-hang")),
                    }
                }
            }
            if header_ok {
                match ReaderBuilder::new().with_batch_size(OCF_BATCH_SIZE).build(std::io::Cursor::new(bytes.clone())) {
                    Ok(r) => {
                        let mut bs = vec![];
                        let mut failed = false;
                        for b in r {
                            match b {
                                Ok(b) => bs.push(b),
                                Err(e) => {
                                    // does the same file read back correctly as ONE batch?
                                    let one = ReaderBuilder::new().with_batch_size(1 << 20).build(std::io::Cursor::new(bytes.clone())).ok().and_then(|r| r.collect::<Result<Vec<_>, _>>().ok()).and_then(|bs| rows_of_batches(&top, &bs).ok());
                                    let multibatch = one.as_ref() == Some(&all_rows) && has(&S::Rec(top.clone()), &|x: &S| matches!(x, S::Union(_)));
                                    oracle.push((format!("ocf round trip (batch_size {}, {} rows): reader {}; single-batch read ok={}", OCF_BATCH_SIZE, all_rows.len(), err_class(e), one.as_ref() == Some(&all_rows)), if multibatch { "finding:union-multibatch" } else { "" }));
                                    failed = true;
                                    break;
                                }
                            }
                        }
                        if !failed {
                            match rows_of_batches(&top, &bs) {
                                Ok(back) if back == all_rows => {}
                                Ok(back) => oracle.push((format!("ocf round trip: read {}", show_rows(&back)), "")),
                                Err(e) => oracle.push((format!("ocf round trip: extract {e}"), "")),
                            }
                        }
                    }
                    Err(e) => oracle.push((format!("ocf round trip: open {}", err_class(e)), "")),
                }
            }
            if t[1] == "ocfz" {
                return format!("rows={}", all_rows.len());
            }
            // canonical body: every block with its sync marker checked and zeroed
            let mut body = bytes[header_len..].to_vec();
            let mut i = 0;
            while i < body.len() {
                let (c, sz) = match (read_varlong(&body, &mut i), read_varlong(&body, &mut i)) {
                    (Some(c), Some(s)) if c >= 0 && s >= 0 => (c, s as usize),
                    _ => return "ERR:framing".into(),
                };
                let _ = c;
                i += sz;
                if i + 16 > body.len() {
                    return "ERR:framing".into();
                }
                if body[i..i + 16] != sync {
                    oracle.push(("block sync".into(), ""));
                }
                body[i..i + 16].fill(0);
                i += 16;
            }
            hex(&body)
        }
        "dec" => {
            let top = top_of(&parse_s(t[2]));
            let body = unhex(t[3]);
            let mut k = 0;
            let json = avro_json(&S::Rec(top.clone()), &mut k);
            let mut store = SchemaStore::new();
            let fp = store.register(AvroSchema::new(json)).unwrap();
            let mut frame = vec![0xC3, 0x01];
            if let Fingerprint::Rabin(v) = fp {
                frame.extend_from_slice(&v.to_le_bytes());
            }
            frame.extend_from_slice(&body);
            let mut dec = ReaderBuilder::new().with_writer_schema_store(store).build_decoder().unwrap();
            let n = match dec.decode(&frame) {
                Ok(n) => n,
                Err(_) => return "ERR:parse".into(),
            };
            let batch = match dec.flush() {
                Ok(Some(b)) => b,
                Ok(None) => return "ERR:parse".into(),
                Err(_) => return "ERR:parse".into(),
            };
            if n != frame.len() {
                return "ERR:trailing".into();
            }
            match rows_of_batches(&top, &[batch]) {
                Ok(rows) if rows.len() == 1 => canon_v(&V::Rec(rows[0].clone())),
                Ok(_) => "ERR:rows".into(),
                Err(e) => format!("ERR:extract:{e}"),
            }
        }
        _ => "bad-op".into(),
    });
    for o in oracle {
        sink.oracle_failure(line.to_string(), o.0, &format!("{}{} {}", tags, kf_tags(line), o.1));
    }
    ans
}

// ---------------------------------------------------------------- generator
fn gen_schema(rng: &mut Rng, depth: usize, allow_opt: bool, allow_union: bool) -> S {
    let r = rng.below(if depth == 0 { 10 } else { 17 });
    match r {
        0 => {
            if rng.chance(1, 4) { S::BoolSliced } else { S::Bool }
        }
        1 => S::Int,
        2 => S::Long,
        3 => S::Float,
        4 => S::Double,
        5 => S::Bytes,
        6 => S::Str,
        7 => S::Fixed(*rng.pick(&[1usize, 2, 4, 12, 16])),
        8 => S::Enum(1 + rng.usize(5)),
        9 => {
            // Avro `null` as a type of its own is generated only as a union branch: the reader
            // refuses a null-typed field nested in a record / array / map (non-nullable Null child)
            if !allow_opt && !allow_union && rng.chance(1, 3) { S::Null } else { S::Long }
        }
        10 | 11 if allow_opt => {
            let inner = gen_schema(rng, depth - 1, false, false);
            if inner == S::Null { S::Opt(true, Box::new(S::Str)) } else { S::Opt(rng.bool(), Box::new(inner)) }
        }
        12 => S::Arr(Box::new(gen_schema(rng, depth - 1, true, true))),
        13 => S::Map(Box::new(gen_schema(rng, depth - 1, true, true))),
        14 => {
            let n = 1 + rng.usize(3);
            S::Rec((0..n).map(|_| gen_schema(rng, depth - 1, true, true)).collect())
        }
        15 if allow_union => {
            // distinct unnamed kinds; named kinds (fixed/enum/record) may repeat
            let mut kinds: Vec<S> = vec![];
            let n = 2 + rng.usize(3);
            let mut tries = 0;
            while kinds.len() < n && tries < 20 {
                tries += 1;
                let c = gen_schema(rng, depth - 1, false, false);
                let dup = kinds.iter().any(|k| std::mem::discriminant(&unslice(k)) == std::mem::discriminant(&unslice(&c)) && !matches!(c, S::Fixed(_) | S::Enum(_) | S::Rec(_)));
                if !dup {
                    kinds.push(c);
                }
            }
            if kinds.len() == 2 && kinds.contains(&S::Null) {
                kinds.push(S::Fixed(3));
            }
            if kinds.len() < 2 { S::Int } else { S::Union(kinds) }
        }
        _ => S::Str,
    }
}
const I32B: [i64; 12] = [0, 1, -1, 63, 64, -64, -65, 8191, 8192, i32::MAX as i64, i32::MIN as i64, 1 << 20];
const I64B: [i64; 18] = [0, 1, -1, 63, 64, -64, -65, 1 << 31, -(1 << 31) - 1, (1 << 55) - 1, 1 << 55, 1 << 56, -(1 << 56), (1 << 62), -(1 << 62) - 1, i64::MAX, i64::MIN, i64::MAX - 1];
fn gen_string(rng: &mut Rng) -> Vec<u8> {
    let n = *rng.pick(&[0usize, 1, 2, 5, 63, 64, 65, 130]);
    let mut s = String::new();
    for _ in 0..n {
        s.push(*rng.pick(&['a', ',', '"', '\n', '\r', '\\', '\u{0}', '\u{7f}', 'é', '\u{ffff}', '😀', ' ', '\u{10ffff}']));
    }
    s.into_bytes()
}
fn gen_value(rng: &mut Rng, s: &S, budget: &mut i64) -> V {
    *budget -= 1;
    match s {
        S::Null => V::Null,
        S::Bool | S::BoolSliced => V::Bool(rng.bool()),
        S::Int => V::Int(rng.pick_or(&I32B, i32::MIN as i64, i32::MAX as i64) as i32),
        S::Long => V::Long(if rng.chance(1, 2) { *rng.pick(&I64B) } else { rng.next_u64() as i64 >> rng.below(64) }),
        S::Float => V::Float(if rng.chance(1, 4) { *rng.pick(&[0u32, 0x8000_0000, 0x7f80_0000, 0xff80_0000, 0x7fc0_0001, 1, 0x3f80_0000]) } else { rng.next_u64() as u32 }),
        S::Double => V::Double(if rng.chance(1, 4) { *rng.pick(&[0u64, 1 << 63, 0x7ff0_0000_0000_0000, 0x7ff8_0000_0000_0001, 1, 0x3ff0_0000_0000_0000]) } else { rng.next_u64() }),
        S::Bytes => {
            let n = *rng.pick(&[0usize, 1, 3, 63, 64, 200]);
            V::Bytes(rng.bytes(n))
        }
        S::Str => V::Str(gen_string(rng)),
        S::Fixed(n) => V::Fixed(rng.bytes(*n)),
        S::Enum(n) => V::Enum(rng.usize(*n) as i32),
        S::Opt(_, i) => {
            if rng.chance(1, 3) { V::None } else { V::Some(Box::new(gen_value(rng, i, budget))) }
        }
        S::Union(b) => {
            let i = rng.usize(b.len());
            V::Union(i, Box::new(gen_value(rng, &b[i], budget)))
        }
        S::Rec(fs) => V::Rec(fs.iter().map(|f| gen_value(rng, f, budget)).collect()),
        S::Arr(i) => {
            let n = if *budget < 0 { 0 } else { *rng.pick(&[0usize, 0, 1, 2, 3, 5]) };
            V::Arr((0..n).map(|_| gen_value(rng, i, budget)).collect())
        }
        S::Map(i) => {
            let n = if *budget < 0 { 0 } else { *rng.pick(&[0usize, 0, 1, 2, 3]) };
            V::Map((0..n).map(|j| (format!("k{}{}", j, String::from_utf8(gen_string(rng)).unwrap().chars().take(3).collect::<String>()).into_bytes(), gen_value(rng, i, budget))).collect())
        }
    }
}
fn has(s: &S, f: &dyn Fn(&S) -> bool) -> bool {
    f(s) || match s {
        S::Opt(_, i) | S::Arr(i) | S::Map(i) => has(i, f),
        S::Union(b) | S::Rec(b) => b.iter().any(|x| has(x, f)),
        _ => false,
    }
}
fn schema_tags(top: &[S]) -> String {
    let s = S::Rec(top.to_vec());
    let mut t = String::new();
    for (name, f) in [
        ("nullable-first", (&|x: &S| matches!(x, S::Opt(true, _))) as &dyn Fn(&S) -> bool),
        ("nullable-second", &|x: &S| matches!(x, S::Opt(false, _))),
        ("union", &|x: &S| matches!(x, S::Union(_))),
        ("array", &|x: &S| matches!(x, S::Arr(_))),
        ("map", &|x: &S| matches!(x, S::Map(_))),
        ("enum", &|x: &S| matches!(x, S::Enum(_))),
        ("fixed", &|x: &S| matches!(x, S::Fixed(_))),
        ("nullcol", &|x: &S| matches!(x, S::Null)),
    ] {
        if has(&s, f) {
            t.push_str(" t:");
            t.push_str(name);
        }
    }
    if top.iter().any(|x| matches!(x, S::Rec(_))) || has(&s, &|x: &S| matches!(x, S::Arr(i) | S::Map(i) if matches!(**i, S::Rec(_) | S::Arr(_) | S::Map(_)))) {
        t.push_str(" t:nested");
    }
    t
}
/// zig-zag varint written by the harness itself (only used to build re-blocked `dec` inputs)
fn put_long(out: &mut Vec<u8>, v: i64) {
    let mut z = ((v << 1) ^ (v >> 63)) as u64;
    while z >= 0x80 {
        out.push((z as u8) | 0x80);
        z >>= 7;
    }
    out.push(z as u8);
}
fn gen_case(rng: &mut Rng) -> (String, String) {
    let nf = 1 + rng.usize(4);
    let top: Vec<S> = (0..nf).map(|_| gen_schema(rng, 2, true, true)).collect();
    let sch = show_s(&S::Rec(top.clone()));
    let nrows = *rng.pick(&[0usize, 1, 1, 2, 3, 8]);
    let mut gen_rows = |rng: &mut Rng, n: usize| -> Vec<Vec<V>> {
        (0..n)
            .map(|_| {
                let mut budget = 40;
                top.iter().map(|s| gen_value(rng, s, &mut budget)).collect()
            })
            .collect()
    };
    let st = schema_tags(&top);
    match rng.below(10) {
        0..=3 => {
            let rows = gen_rows(rng, nrows);
            (format!("C17 avro {} {}", sch, show_rows(&rows)), format!("op:avro{} {}", st, if nrows > 0 { "nt" } else { "" }))
        }
        4 | 5 => {
            let rows = gen_rows(rng, nrows);
            let mut k = 0;
            let json = avro_json(&S::Rec(top.clone()), &mut k);
            let fp = AvroSchema::new(json).fingerprint(arrow_avro::schema::FingerprintAlgorithm::Rabin).unwrap();
            (format!("C17 soe {} {} {}", rabin_hex(&fp), sch, show_rows(&rows)), format!("op:soe{} {}", st, if nrows > 0 { "nt" } else { "" }))
        }
        6 | 7 => {
            let nb = 1 + rng.usize(3);
            let b: Vec<String> = (0..nb).map(|_| { let n = *rng.pick(&[0usize, 1, 2, 9]); show_rows(&gen_rows(rng, n)) }).collect();
            (format!("C17 ocf {} {}", sch, b.join("/")), format!("op:ocf{} nt", st))
        }
        8 => {
            let codec = *rng.pick(&["deflate", "snappy", "zstd", "bzip2", "xz"]);
            let nb = 1 + rng.usize(2);
            let b: Vec<String> = (0..nb).map(|_| { let n = *rng.pick(&[0usize, 1, 3, 20]); show_rows(&gen_rows(rng, n)) }).collect();
            (format!("C17 ocfz {} {} {}", codec, sch, b.join("/")), format!("op:ocfz codec:{}{} nt", codec, st))
        }
        _ => {
            // reader-only: one array<long|int> column written by the harness in several blocks, some
            // with negative counts followed by a byte size
            let n = rng.usize(7);
            let vals: Vec<i64> = (0..n).map(|_| *rng.pick(&I32B)).collect();
            let mut body = vec![];
            let mut i = 0;
            let mut neg = false;
            while i < n {
                let k = 1 + rng.usize(n - i);
                let mut items = vec![];
                for v in &vals[i..i + k] {
                    put_long(&mut items, *v);
                }
                if rng.bool() {
                    neg = true;
                    put_long(&mut body, -(k as i64));
                    put_long(&mut body, items.len() as i64);
                } else {
                    put_long(&mut body, k as i64);
                }
                body.extend(items);
                i += k;
            }
            put_long(&mut body, 0);
            let long = rng.bool();
            if rng.chance(1, 10) {
                body.pop();
            }
            (format!("C17 dec r(a{}) {}", if long { "l" } else { "i" }, hex(&body)), format!("op:dec {} {}", if neg { "negative-block" } else { "" }, if n > 0 { "nt" } else { "" }))
        }
    }
}

fn main() {
    let args = parse_args();
    if std::env::var("VERIF_LOUD").is_err() {
        quiet_panics();
    }
    let mut sink = Sink::new(&args.out);
    if args.mode == "replay" {
        for line in read_cases(args.replay.as_ref().unwrap()) {
            let tags = format!("replay{}", kf_tags(&line));
            let a = run_case(&line, &mut sink, "replay");
            sink.case(line, a, &tags);
        }
    } else {
        let mut rng = Rng::new(args.seed ^ 0xC17A);
        let n = n_cases(&args, 1500, 40000);
        for _ in 0..n {
            // the property quantifies over batches the writer accepts: a schema the writer refuses
            // at construction time (SchemaError / NYI / InvalidArgument) is counted and re-drawn
            let mut tries = 0;
            loop {
                let (line, tags) = gen_case(&mut rng);
                let tags = format!("{}{}", tags, kf_tags(&line));
                if std::env::var("VERIF_TRACE").is_ok() {
                    eprintln!("{}", line);
                }
                let a = run_case(&line, &mut sink, &tags);
                tries += 1;
                if (a == "ERR:SchemaError" || a == "ERR:NYI" || a == "ERR:InvalidArgument") && tries < 50 {
                    sink.count(&format!("redrawn:writer-rejects:{}", line.split(' ').nth(1).unwrap_or("")));
                    continue;
                }
                sink.case(line, a, &tags);
                break;
            }
        }
    }
    sink.finish();
}
