//! C17 correspondence harness, Avro part: arrow-avro writer → bytes → arrow-avro reader.
//!
//! Case lines (grammar shared with lean/ArrowModel/C17/Driver.lean):
//!   C17 avro <schema> <rows>          raw record bodies (AvroBinaryFormat encoder), one hex per row
//!   C17 soe  <fp> <schema> <rows>     single-object stream (C3 01 + Rabin fingerprint + body per row)
//!   C17 ocf  <schema> <rows>/<rows>…  object container file, no codec: block bytes with the sync zeroed
//!   C17 ocfz <codec> <schema> <rows>  object container file with a compression codec (round trip only)
//!   C17 dec  <schema> <hex>           reader only: one SOE-framed record body, e.g. re-blocked arrays
//!
//!   schema  S ::= n b i l f d y s x<N> e<N> ?S !S u(S,…) r(S,…) aS mS
//!   value   V ::= N T F i<int>; l<int>; f<hex8>; d<hex16>; y<hex>; s<hex>; x<hex>; e<int>; _ +V u<i>:V r(V…) a(V…) m(s<hex>;V…)
//!
//! Oracles checked directly on the implementation (reported as impl-vs-oracle):
//!   * reader(writer(batch)) == batch as value trees, for SOE and OCF (every codec);
//!   * the sync marker after every OCF block equals `writer.sync_marker()`, the file starts with `Obj\x01`.
use arrow_array::builder::*;
use arrow_array::cast::AsArray;
use arrow_array::types::*;
use arrow_array::*;
use arrow_avro::compression::CompressionCodec;
use arrow_avro::reader::ReaderBuilder;
use arrow_avro::schema::{AvroSchema, Fingerprint, SCHEMA_METADATA_KEY, SchemaStore};
use arrow_avro::writer::format::{AvroBinaryFormat, AvroOcfFormat, AvroSoeFormat};
use arrow_avro::writer::WriterBuilder;
use arrow_buffer::{IntervalMonthDayNano, NullBuffer, OffsetBuffer, ScalarBuffer, i256};
use arrow_schema::{DataType, Field, Fields, Schema, TimeUnit, UnionFields, UnionMode};
use std::collections::HashMap;
use std::sync::Arc;
use vcommon::*;

#[derive(Clone, Debug, PartialEq)]
enum S {
    Null,
    Bool,
    /// boolean column held as a *sliced* BooleanArray (bit offset 3): same Avro type, other physical layout
    BoolSliced,
    Int,
    Long,
    Float,
    Double,
    Bytes,
    Str,
    Fixed(usize),
    Enum(usize),
    /// Avro decimal(precision, scale): bytes-backed (`None`) or fixed(n)-backed; Arrow Decimal128 for
    /// precision <= 38, Decimal256 above (what the reader produces without `small_decimals`)
    Dec(u8, i8, Option<usize>),
    /// logical types over int / long: 1 date, 2 time-millis, 3 time-micros, 4/5 timestamp-millis/micros,
    /// 6/7 local-timestamp-millis/micros, 8/9 timestamp-nanos / local-timestamp-nanos
    Logical(u8),
    /// uuid: Arrow FixedSizeBinary(16) with `logicalType=uuid` field metadata <-> Avro string
    Uuid,
    /// duration: Arrow Interval(MonthDayNano) <-> Avro fixed(12)
    Duration,
    /// same Avro type, other Arrow physical type on the WRITER side (the reader always produces the base type):
    /// b'S' LargeUtf8, b'V' Utf8View, b'Y' LargeBinary, b'W' BinaryView, b'A' LargeList, b'L' ListView,
    /// b'F' FixedSizeList (of size .1)
    Layout(u8, usize, Box<S>),
    Opt(bool, Box<S>), // null_first, inner
    Union(Vec<S>),
    Rec(Vec<S>),
    Arr(Box<S>),
    Map(Box<S>),
}

#[derive(Clone, Debug, PartialEq)]
enum V {
    Null,
    Bool(bool),
    Int(i32),
    Long(i64),
    Float(u32),
    Double(u64),
    Bytes(Vec<u8>),
    Str(Vec<u8>),
    Fixed(Vec<u8>),
    Enum(i32),
    /// unscaled value and the byte width of the Arrow decimal type (16 or 32)
    Dec(i256, usize),
    Dur(u32, u32, u32),
    None,
    Some(Box<V>),
    Union(usize, Box<V>),
    Rec(Vec<V>),
    Arr(Vec<V>),
    Map(Vec<(Vec<u8>, V)>),
}

// ---------------------------------------------------------------- grammar
fn show_s(s: &S) -> String {
    match s {
        S::Null => "n".into(),
        S::Bool => "b".into(),
        S::BoolSliced => "B".into(),
        S::Int => "i".into(),
        S::Long => "l".into(),
        S::Float => "f".into(),
        S::Double => "d".into(),
        S::Bytes => "y".into(),
        S::Str => "s".into(),
        S::Fixed(n) => format!("x{n}"),
        S::Enum(n) => format!("e{n}"),
        S::Dec(p, sc, None) => format!("D{p}.{sc}"),
        S::Dec(p, sc, Some(n)) => format!("G{n}.{p}.{sc}"),
        S::Logical(k) => format!("t{k}"),
        S::Uuid => "U".into(),
        S::Duration => "I".into(),
        S::Layout(k, n, i) => match (k, &**i) {
            (b'F', S::Arr(x)) => format!("F{}{}", n, show_s(x)),
            (_, S::Arr(x)) => format!("{}{}", *k as char, show_s(x)),
            _ => format!("{}", *k as char),
        },
        S::Opt(true, i) => format!("?{}", show_s(i)),
        S::Opt(false, i) => format!("!{}", show_s(i)),
        S::Union(b) => format!("u({})", b.iter().map(show_s).collect::<Vec<_>>().join(",")),
        S::Rec(b) => format!("r({})", b.iter().map(show_s).collect::<Vec<_>>().join(",")),
        S::Arr(i) => format!("a{}", show_s(i)),
        S::Map(i) => format!("m{}", show_s(i)),
    }
}
fn hx(b: &[u8]) -> String {
    b.iter().map(|x| format!("{:02x}", x)).collect()
}
fn show_v(v: &V) -> String {
    match v {
        V::Null => "N".into(),
        V::Bool(true) => "T".into(),
        V::Bool(false) => "F".into(),
        V::Int(i) => format!("i{i};"),
        V::Long(i) => format!("l{i};"),
        V::Float(b) => format!("f{:08x};", b),
        V::Double(b) => format!("d{:016x};", b),
        V::Bytes(b) => format!("y{};", hx(b)),
        V::Str(b) => format!("s{};", hx(b)),
        V::Fixed(b) => format!("x{};", hx(b)),
        V::Enum(i) => format!("e{i};"),
        V::Dec(v, w) => format!("D{w}:{v};"),
        V::Dur(m, d, ms) => format!("I{m}.{d}.{ms};"),
        V::None => "_".into(),
        V::Some(v) => format!("+{}", show_v(v)),
        V::Union(i, v) => format!("u{i}:{}", show_v(v)),
        V::Rec(vs) => format!("r({})", vs.iter().map(show_v).collect::<String>()),
        V::Arr(vs) => format!("a({})", vs.iter().map(show_v).collect::<String>()),
        V::Map(es) => format!("m({})", es.iter().map(|(k, v)| format!("s{};{}", hx(k), show_v(v))).collect::<String>()),
    }
}
/// the rendering `showValue` of the Lean driver produces
fn canon_v(v: &V) -> String {
    match v {
        V::Null => "N".into(),
        V::Bool(true) => "T".into(),
        V::Bool(false) => "F".into(),
        V::Int(i) | V::Enum(i) => format!("i{i};"),
        V::Long(i) => format!("l{i};"),
        V::Float(b) => format!("f{};", b),
        V::Double(b) => format!("d{};", b),
        V::Bytes(b) | V::Str(b) => format!("y{};", hx(b)),
        V::Fixed(b) => format!("x{};", hx(b)),
        V::Dec(v, w) => format!("D{};", if *w == 16 { hx(&v.to_i128().unwrap().to_be_bytes()) } else { hx(&v.to_be_bytes()) }),
        V::Dur(m, d, ms) => format!("x{}{}{};", hx(&m.to_le_bytes()), hx(&d.to_le_bytes()), hx(&ms.to_le_bytes())),
        V::None => "_".into(),
        V::Some(v) => format!("+{}", canon_v(v)),
        V::Union(i, v) => format!("u{i}:{}", canon_v(v)),
        V::Rec(vs) | V::Arr(vs) => format!("({})", vs.iter().map(canon_v).collect::<String>()),
        V::Map(es) => format!("({})", es.iter().map(|(k, v)| format!("(y{};{})", hx(k), canon_v(v))).collect::<String>()),
    }
}
#[derive(Clone, Default)]
struct SharedBuf(std::rc::Rc<std::cell::RefCell<Vec<u8>>>);
impl std::io::Write for SharedBuf {
    fn write(&mut self, b: &[u8]) -> std::io::Result<usize> {
        self.0.borrow_mut().extend_from_slice(b);
        Ok(b.len())
    }
    fn flush(&mut self) -> std::io::Result<()> {
        Ok(())
    }
}
struct P<'a> {
    b: &'a [u8],
    i: usize,
}
impl<'a> P<'a> {
    fn peek(&self) -> u8 {
        *self.b.get(self.i).unwrap_or(&0)
    }
    fn next(&mut self) -> u8 {
        let c = self.peek();
        self.i += 1;
        c
    }
    fn until(&mut self, stop: u8) -> &'a str {
        let st = self.i;
        while self.peek() != stop {
            self.i += 1;
        }
        let r = std::str::from_utf8(&self.b[st..self.i]).unwrap();
        self.i += 1;
        r
    }
    fn digits(&mut self) -> usize {
        let st = self.i;
        while self.peek().is_ascii_digit() {
            self.i += 1;
        }
        std::str::from_utf8(&self.b[st..self.i]).unwrap().parse().unwrap()
    }
    fn schema(&mut self) -> S {
        match self.next() {
            b'n' => S::Null,
            b'b' => S::Bool,
            b'B' => S::BoolSliced,
            b'i' => S::Int,
            b'l' => S::Long,
            b'f' => S::Float,
            b'd' => S::Double,
            b'y' => S::Bytes,
            b's' => S::Str,
            b'x' => S::Fixed(self.digits()),
            b'e' => S::Enum(self.digits()),
            b'D' => {
                let p = self.digits();
                assert_eq!(self.next(), b'.');
                S::Dec(p as u8, self.digits() as i8, None)
            }
            b'G' => {
                let n = self.digits();
                assert_eq!(self.next(), b'.');
                let p = self.digits();
                assert_eq!(self.next(), b'.');
                S::Dec(p as u8, self.digits() as i8, Some(n))
            }
            b't' => S::Logical(self.digits() as u8),
            b'U' => S::Uuid,
            b'I' => S::Duration,
            k @ (b'S' | b'V') => S::Layout(k, 0, Box::new(S::Str)),
            k @ (b'Y' | b'W') => S::Layout(k, 0, Box::new(S::Bytes)),
            k @ (b'A' | b'L') => S::Layout(k, 0, Box::new(S::Arr(Box::new(self.schema())))),
            b'F' => {
                let n = self.digits();
                S::Layout(b'F', n, Box::new(S::Arr(Box::new(self.schema()))))
            }
            b'?' => S::Opt(true, Box::new(self.schema())),
            b'!' => S::Opt(false, Box::new(self.schema())),
            b'a' => S::Arr(Box::new(self.schema())),
            b'm' => S::Map(Box::new(self.schema())),
            c @ (b'u' | b'r') => {
                assert_eq!(self.next(), b'(');
                let mut v = vec![];
                loop {
                    match self.peek() {
                        b')' => {
                            self.i += 1;
                            break;
                        }
                        b',' => self.i += 1,
                        _ => v.push(self.schema()),
                    }
                }
                if c == b'u' { S::Union(v) } else { S::Rec(v) }
            }
            c => panic!("bad schema char {c}"),
        }
    }
    fn hextok(&mut self) -> Vec<u8> {
        let t = self.until(b';');
        if t.is_empty() { vec![] } else { unhex(t) }
    }
    fn value(&mut self) -> V {
        match self.next() {
            b'N' => V::Null,
            b'T' => V::Bool(true),
            b'F' => V::Bool(false),
            b'_' => V::None,
            b'+' => V::Some(Box::new(self.value())),
            b'i' => V::Int(self.until(b';').parse().unwrap()),
            b'e' => V::Enum(self.until(b';').parse().unwrap()),
            b'l' => V::Long(self.until(b';').parse().unwrap()),
            b'f' => V::Float(u32::from_str_radix(self.until(b';'), 16).unwrap()),
            b'd' => V::Double(u64::from_str_radix(self.until(b';'), 16).unwrap()),
            b'y' => V::Bytes(self.hextok()),
            b's' => V::Str(self.hextok()),
            b'x' => V::Fixed(self.hextok()),
            b'D' => {
                let w: usize = self.until(b':').parse().unwrap();
                V::Dec(i256::from_string(self.until(b';')).expect("decimal"), w)
            }
            b'I' => {
                let p: Vec<u32> = self.until(b';').split('.').map(|x| x.parse().unwrap()).collect();
                V::Dur(p[0], p[1], p[2])
            }
            b'u' => {
                let i = self.until(b':').parse().unwrap();
                V::Union(i, Box::new(self.value()))
            }
            c @ (b'r' | b'a') => {
                assert_eq!(self.next(), b'(');
                let mut v = vec![];
                while self.peek() != b')' {
                    v.push(self.value());
                }
                self.i += 1;
                if c == b'r' { V::Rec(v) } else { V::Arr(v) }
            }
            b'm' => {
                assert_eq!(self.next(), b'(');
                let mut v = vec![];
                while self.peek() != b')' {
                    let k = match self.value() {
                        V::Str(k) => k,
                        _ => panic!("map key"),
                    };
                    v.push((k, self.value()));
                }
                self.i += 1;
                V::Map(v)
            }
            c => panic!("bad value char {c}"),
        }
    }
}
fn parse_s(t: &str) -> S {
    P { b: t.as_bytes(), i: 0 }.schema()
}
fn parse_rows(t: &str) -> Vec<Vec<V>> {
    if t == "-" {
        return vec![];
    }
    t.split('|')
        .map(|r| match (P { b: r.as_bytes(), i: 0 }).value() {
            V::Rec(v) => v,
            _ => panic!("row"),
        })
        .collect()
}
fn show_rows(rows: &[Vec<V>]) -> String {
    if rows.is_empty() { "-".into() } else { rows.iter().map(|r| show_v(&V::Rec(r.clone()))).collect::<Vec<_>>().join("|") }
}

// ---------------------------------------------------------------- schema → Avro JSON / Arrow
fn avro_json(s: &S, k: &mut usize) -> String {
    match s {
        S::Null => "\"null\"".into(),
        S::Bool | S::BoolSliced => "\"boolean\"".into(),
        S::Int => "\"int\"".into(),
        S::Long => "\"long\"".into(),
        S::Float => "\"float\"".into(),
        S::Double => "\"double\"".into(),
        S::Bytes => "\"bytes\"".into(),
        S::Str => "\"string\"".into(),
        S::Fixed(n) => {
            *k += 1;
            format!("{{\"type\":\"fixed\",\"name\":\"X{}\",\"size\":{}}}", k, n)
        }
        S::Enum(n) => {
            *k += 1;
            let syms: Vec<String> = (0..*n).map(|i| format!("\"S{i}\"")).collect();
            format!("{{\"type\":\"enum\",\"name\":\"E{}\",\"symbols\":[{}]}}", k, syms.join(","))
        }
        S::Dec(p, sc, None) => format!("{{\"type\":\"bytes\",\"logicalType\":\"decimal\",\"precision\":{},\"scale\":{}}}", p, sc),
        S::Dec(p, sc, Some(n)) => {
            *k += 1;
            format!("{{\"type\":\"fixed\",\"name\":\"X{}\",\"size\":{},\"logicalType\":\"decimal\",\"precision\":{},\"scale\":{}}}", k, n, p, sc)
        }
        S::Logical(t) => {
            let (base, lt) = logical_names(*t);
            format!("{{\"type\":\"{}\",\"logicalType\":\"{}\"}}", base, lt)
        }
        S::Uuid => "{\"type\":\"string\",\"logicalType\":\"uuid\"}".into(),
        S::Duration => {
            *k += 1;
            format!("{{\"type\":\"fixed\",\"name\":\"X{}\",\"size\":12,\"logicalType\":\"duration\"}}", k)
        }
        S::Layout(_, _, i) => avro_json(i, k),
        S::Opt(true, i) => format!("[\"null\",{}]", avro_json(i, k)),
        S::Opt(false, i) => format!("[{},\"null\"]", avro_json(i, k)),
        S::Union(b) => format!("[{}]", b.iter().map(|x| avro_json(x, k)).collect::<Vec<_>>().join(",")),
        S::Rec(fs) => {
            *k += 1;
            let name = *k;
            let f: Vec<String> = fs.iter().enumerate().map(|(i, x)| format!("{{\"name\":\"f{}\",\"type\":{}}}", i, avro_json(x, k))).collect();
            format!("{{\"type\":\"record\",\"name\":\"R{}\",\"fields\":[{}]}}", name, f.join(","))
        }
        S::Arr(i) => format!("{{\"type\":\"array\",\"items\":{}}}", avro_json(i, k)),
        S::Map(i) => format!("{{\"type\":\"map\",\"values\":{}}}", avro_json(i, k)),
    }
}
fn logical_names(t: u8) -> (&'static str, &'static str) {
    match t {
        1 => ("int", "date"),
        2 => ("int", "time-millis"),
        3 => ("long", "time-micros"),
        4 => ("long", "timestamp-millis"),
        5 => ("long", "timestamp-micros"),
        6 => ("long", "local-timestamp-millis"),
        7 => ("long", "local-timestamp-micros"),
        8 => ("long", "timestamp-nanos"),
        _ => ("long", "local-timestamp-nanos"),
    }
}
fn field_of(name: &str, s: &S) -> Field {
    match s {
        S::Uuid => Field::new(name, dtype(s), false).with_metadata(HashMap::from([("logicalType".to_string(), "uuid".to_string())])),
        S::Opt(_, i) if **i == S::Uuid => Field::new(name, dtype(i), true).with_metadata(HashMap::from([("logicalType".to_string(), "uuid".to_string())])),
        S::Opt(_, i) => Field::new(name, dtype(i), true),
        S::Null => Field::new(name, DataType::Null, true),
        // a union with a null branch has logical nulls: Arrow requires the field to be nullable
        S::Union(b) if b.contains(&S::Null) => Field::new(name, dtype(s), true),
        _ => Field::new(name, dtype(s), false),
    }
}
fn union_fields(b: &[S]) -> UnionFields {
    UnionFields::try_new((0..b.len() as i8).collect::<Vec<_>>(), b.iter().enumerate().map(|(i, x)| field_of(&format!("b{i}"), x)).collect::<Vec<_>>()).unwrap()
}
fn dtype(s: &S) -> DataType {
    match s {
        S::Null => DataType::Null,
        S::Bool | S::BoolSliced => DataType::Boolean,
        S::Int => DataType::Int32,
        S::Long => DataType::Int64,
        S::Float => DataType::Float32,
        S::Double => DataType::Float64,
        S::Bytes => DataType::Binary,
        S::Str => DataType::Utf8,
        S::Fixed(n) => DataType::FixedSizeBinary(*n as i32),
        S::Enum(_) => DataType::Dictionary(Box::new(DataType::Int32), Box::new(DataType::Utf8)),
        S::Dec(p, sc, _) => if *p <= 38 { DataType::Decimal128(*p, *sc) } else { DataType::Decimal256(*p, *sc) },
        S::Logical(t) => match t {
            1 => DataType::Date32,
            2 => DataType::Time32(TimeUnit::Millisecond),
            3 => DataType::Time64(TimeUnit::Microsecond),
            4 => DataType::Timestamp(TimeUnit::Millisecond, Some(EXPECT_TZ.with(|t| t.get()).into())),
            5 => DataType::Timestamp(TimeUnit::Microsecond, Some(EXPECT_TZ.with(|t| t.get()).into())),
            6 => DataType::Timestamp(TimeUnit::Millisecond, None),
            7 => DataType::Timestamp(TimeUnit::Microsecond, None),
            8 => DataType::Timestamp(TimeUnit::Nanosecond, Some(EXPECT_TZ.with(|t| t.get()).into())),
            _ => DataType::Timestamp(TimeUnit::Nanosecond, None),
        },
        S::Uuid => DataType::FixedSizeBinary(16),
        S::Duration => DataType::Interval(arrow_schema::IntervalUnit::MonthDayNano),
        S::Layout(k, n, i) => match (k, &**i) {
            (b'S', _) => DataType::LargeUtf8,
            (b'V', _) => DataType::Utf8View,
            (b'Y', _) => DataType::LargeBinary,
            (b'W', _) => DataType::BinaryView,
            (b'A', S::Arr(x)) => DataType::LargeList(Arc::new(field_of("item", x))),
            (b'L', S::Arr(x)) => DataType::ListView(Arc::new(field_of("item", x))),
            (_, S::Arr(x)) => DataType::FixedSizeList(Arc::new(field_of("item", x)), *n as i32),
            _ => unreachable!(),
        },
        S::Opt(_, i) => dtype(i),
        S::Union(b) => DataType::Union(union_fields(b), UnionMode::Dense),
        S::Rec(fs) => DataType::Struct(Fields::from(fs.iter().enumerate().map(|(i, x)| field_of(&format!("f{i}"), x)).collect::<Vec<_>>())),
        S::Arr(i) => DataType::List(Arc::new(field_of("item", i))),
        S::Map(i) => DataType::Map(Arc::new(Field::new("entries", DataType::Struct(Fields::from(vec![Field::new("key", DataType::Utf8, false), field_of("value", i)])), false)), false),
    }
}
fn default_v(s: &S) -> V {
    match s {
        S::Null => V::Null,
        S::Bool | S::BoolSliced => V::Bool(false),
        S::Int => V::Int(0),
        S::Long => V::Long(0),
        S::Float => V::Float(0),
        S::Double => V::Double(0),
        S::Bytes => V::Bytes(vec![]),
        S::Str => V::Str(vec![]),
        S::Fixed(n) => V::Fixed(vec![0; *n]),
        S::Enum(_) => V::Enum(0),
        S::Dec(p, _, _) => V::Dec(i256::ZERO, if *p <= 38 { 16 } else { 32 }),
        S::Logical(t) => if *t <= 2 { V::Int(0) } else { V::Long(0) },
        S::Uuid => V::Fixed(vec![0; 16]),
        S::Duration => V::Dur(0, 0, 0),
        S::Layout(b'F', n, i) => match &**i {
            S::Arr(x) => V::Arr(vec![default_v(x); *n]),
            _ => unreachable!(),
        },
        S::Layout(_, _, i) => default_v(i),
        S::Opt(_, _) => V::None,
        S::Union(b) => V::Union(0, Box::new(default_v(&b[0]))),
        S::Rec(fs) => V::Rec(fs.iter().map(default_v).collect()),
        S::Arr(_) => V::Arr(vec![]),
        S::Map(_) => V::Map(vec![]),
    }
}
/// what sits in the value slot of a null entry
fn garbage_v(s: &S) -> V {
    match s {
        S::Int => V::Int(0x5a5a_5a5a),
        S::Long => V::Long(0x5a5a_5a5a_5a5a_5a5a),
        S::Float => V::Float(0x5a5a_5a5a),
        S::Double => V::Double(0x5a5a_5a5a_5a5a_5a5a),
        S::Bool => V::Bool(true),
        S::Bytes => V::Bytes(vec![0x5a; 3]),
        S::Str => V::Str(b"zz".to_vec()),
        S::Fixed(n) => V::Fixed(vec![0x5a; *n]),
        S::Dec(p, _, _) => V::Dec(i256::from_i128(if *p >= 2 { 90 } else { 9 }), if *p <= 38 { 16 } else { 32 }),
        S::Logical(t) => if *t <= 2 { V::Int(0x5a5a) } else { V::Long(0x5a5a_5a5a) },
        S::Layout(b'F', n, i) => match &**i {
            S::Arr(x) => V::Arr(vec![garbage_v(x); *n]),
            _ => unreachable!(),
        },
        S::Layout(_, _, i) if !matches!(**i, S::Arr(_)) => garbage_v(i),
        S::Arr(i) if !matches!(**i, S::Null) => V::Arr(vec![garbage_v(i)]),
        S::Rec(fs) => V::Rec(fs.iter().map(garbage_v).collect()),
        _ => default_v(s),
    }
}
/// build the Arrow array holding `vals` (each of schema `s`)
fn build(s: &S, vals: &[V]) -> ArrayRef {
    match s {
        S::Null => Arc::new(NullArray::new(vals.len())),
        S::Bool => Arc::new(BooleanArray::from(vals.iter().map(|v| matches!(v, V::Bool(true))).collect::<Vec<_>>())),
        S::BoolSliced => {
            let mut padded = vec![true, false, true];
            padded.extend(vals.iter().map(|v| matches!(v, V::Bool(true))));
            Arc::new(BooleanArray::from(padded).slice(3, vals.len()))
        }
        S::Int => Arc::new(Int32Array::from(vals.iter().map(|v| if let V::Int(i) = v { *i } else { panic!("int") }).collect::<Vec<_>>())),
        S::Long => Arc::new(Int64Array::from(vals.iter().map(|v| if let V::Long(i) = v { *i } else { panic!("long") }).collect::<Vec<_>>())),
        S::Float => Arc::new(Float32Array::from(vals.iter().map(|v| if let V::Float(i) = v { f32::from_bits(*i) } else { panic!("float") }).collect::<Vec<_>>())),
        S::Double => Arc::new(Float64Array::from(vals.iter().map(|v| if let V::Double(i) = v { f64::from_bits(*i) } else { panic!("double") }).collect::<Vec<_>>())),
        S::Bytes => Arc::new(BinaryArray::from_iter_values(vals.iter().map(|v| if let V::Bytes(b) = v { b.clone() } else { panic!("bytes") }))),
        S::Str => Arc::new(StringArray::from_iter_values(vals.iter().map(|v| if let V::Str(b) = v { String::from_utf8(b.clone()).unwrap() } else { panic!("str") }))),
        S::Fixed(n) => {
            let mut b = FixedSizeBinaryBuilder::new(*n as i32);
            for v in vals {
                if let V::Fixed(x) = v { b.append_value(x).unwrap() } else { panic!("fixed") }
            }
            Arc::new(b.finish())
        }
        S::Enum(n) => {
            let keys = Int32Array::from(vals.iter().map(|v| if let V::Enum(i) = v { *i } else { panic!("enum") }).collect::<Vec<_>>());
            let values = StringArray::from_iter_values((0..*n).map(|i| format!("S{i}")));
            Arc::new(DictionaryArray::<Int32Type>::try_new(keys, Arc::new(values)).unwrap())
        }
        S::Dec(p, sc, _) => {
            let vs = vals.iter().map(|v| if let V::Dec(x, _) = v { *x } else { panic!("dec") });
            if *p <= 38 {
                Arc::new(Decimal128Array::from_iter_values(vs.map(|x| x.to_i128().expect("i128"))).with_precision_and_scale(*p, *sc).unwrap())
            } else {
                Arc::new(Decimal256Array::from_iter_values(vs).with_precision_and_scale(*p, *sc).unwrap())
            }
        }
        S::Logical(t) => {
            let i32s = || vals.iter().map(|v| if let V::Int(i) = v { *i } else { panic!("logical int") }).collect::<Vec<i32>>();
            let i64s = || vals.iter().map(|v| if let V::Long(i) = v { *i } else { panic!("logical long") }).collect::<Vec<i64>>();
            match t {
                1 => Arc::new(Date32Array::from(i32s())),
                2 => Arc::new(Time32MillisecondArray::from(i32s())),
                3 => Arc::new(Time64MicrosecondArray::from(i64s())),
                4 => Arc::new(TimestampMillisecondArray::from(i64s()).with_timezone("+00:00")),
                5 => Arc::new(TimestampMicrosecondArray::from(i64s()).with_timezone("+00:00")),
                6 => Arc::new(TimestampMillisecondArray::from(i64s())),
                7 => Arc::new(TimestampMicrosecondArray::from(i64s())),
                8 => Arc::new(TimestampNanosecondArray::from(i64s()).with_timezone("+00:00")),
                _ => Arc::new(TimestampNanosecondArray::from(i64s())),
            }
        }
        S::Uuid => {
            let mut b = FixedSizeBinaryBuilder::new(16);
            for v in vals {
                if let V::Fixed(x) = v { b.append_value(x).unwrap() } else { panic!("uuid") }
            }
            Arc::new(b.finish())
        }
        S::Duration => Arc::new(IntervalMonthDayNanoArray::from(vals.iter().map(|v| if let V::Dur(m, d, ms) = v { IntervalMonthDayNano::new(*m as i32, *d as i32, *ms as i64 * 1_000_000) } else { panic!("dur") }).collect::<Vec<_>>())),
        S::Layout(k, n, inner) => {
            let strs = || vals.iter().map(|v| if let V::Str(b) = v { String::from_utf8(b.clone()).unwrap() } else { panic!("str") });
            let bins = || vals.iter().map(|v| if let V::Bytes(b) = v { b.clone() } else { panic!("bytes") });
            match (k, &**inner) {
                (b'S', _) => Arc::new(LargeStringArray::from_iter_values(strs())),
                (b'V', _) => Arc::new(StringViewArray::from_iter_values(strs())),
                (b'Y', _) => Arc::new(LargeBinaryArray::from_iter_values(bins())),
                (b'W', _) => Arc::new(BinaryViewArray::from_iter_values(bins())),
                (_, S::Arr(x)) => {
                    let mut flat = vec![];
                    let mut lens = vec![];
                    for v in vals {
                        if let V::Arr(y) = v {
                            lens.push(y.len());
                            flat.extend(y.iter().cloned());
                        } else {
                            panic!("arr")
                        }
                    }
                    let child = build(x, &flat);
                    let f = Arc::new(field_of("item", x));
                    match k {
                        b'A' => Arc::new(LargeListArray::new(f, OffsetBuffer::<i64>::from_lengths(lens), child, None)),
                        b'L' => {
                            let mut offs = vec![];
                            let mut o = 0i32;
                            for l in &lens {
                                offs.push(o);
                                o += *l as i32;
                            }
                            Arc::new(ListViewArray::new(f, ScalarBuffer::from(offs), ScalarBuffer::from(lens.iter().map(|l| *l as i32).collect::<Vec<_>>()), child, None))
                        }
                        _ => {
                            assert!(lens.iter().all(|l| l == n));
                            Arc::new(FixedSizeListArray::new(f, *n as i32, child, None))
                        }
                    }
                }
                _ => unreachable!(),
            }
        }
        S::Opt(_, inner) if **inner == S::BoolSliced => {
            // nullable boolean column held as a sliced array: validity and values share the bit offset 3
            let mut padded: Vec<Option<bool>> = vec![Some(true), None, Some(false)];
            padded.extend(vals.iter().map(|v| match v {
                V::Some(x) => Some(matches!(**x, V::Bool(true))),
                _ => None,
            }));
            Arc::new(BooleanArray::from(padded).slice(3, vals.len()))
        }
        S::Opt(_, inner) => {
            // payload under null slots is arbitrary non-zero data, never a tidy default
            let d = garbage_v(inner);
            let filled: Vec<V> = vals.iter().map(|v| match v { V::Some(x) => (**x).clone(), V::None => d.clone(), _ => panic!("opt") }).collect();
            let valid: Vec<bool> = vals.iter().map(|v| matches!(v, V::Some(_))).collect();
            let arr = build(inner, &filled);
            if valid.iter().all(|x| *x) && !(vals.len() % 2 == 1) {
                // no null buffer at all on some all-valid columns (NullableNoNulls path)
                return arr;
            }
            let data = arr.to_data().into_builder().nulls(Some(NullBuffer::from(valid))).build().unwrap();
            make_array(data)
        }
        S::Union(b) => {
            let mut type_ids = vec![];
            let mut offsets = vec![];
            let mut per: Vec<Vec<V>> = vec![vec![]; b.len()];
            for v in vals {
                if let V::Union(i, x) = v {
                    type_ids.push(*i as i8);
                    offsets.push(per[*i].len() as i32);
                    per[*i].push((**x).clone());
                } else {
                    panic!("union")
                }
            }
            let children: Vec<ArrayRef> = b.iter().zip(per.iter()).map(|(s, v)| build(s, v)).collect();
            Arc::new(UnionArray::try_new(union_fields(b), ScalarBuffer::from(type_ids), Some(ScalarBuffer::from(offsets)), children).unwrap())
        }
        S::Rec(fs) => {
            let cols: Vec<ArrayRef> = fs
                .iter()
                .enumerate()
                .map(|(i, f)| build(f, &vals.iter().map(|v| if let V::Rec(r) = v { r[i].clone() } else { panic!("rec") }).collect::<Vec<_>>()))
                .collect();
            let fields = match dtype(s) {
                DataType::Struct(f) => f,
                _ => unreachable!(),
            };
            if fs.is_empty() {
                Arc::new(StructArray::new_empty_fields(vals.len(), None))
            } else {
                Arc::new(StructArray::new(fields, cols, None))
            }
        }
        S::Arr(inner) => {
            let mut flat = vec![];
            let mut lens = vec![];
            for v in vals {
                if let V::Arr(x) = v {
                    lens.push(x.len());
                    flat.extend(x.iter().cloned());
                } else {
                    panic!("arr")
                }
            }
            let child = build(inner, &flat);
            Arc::new(ListArray::new(Arc::new(field_of("item", inner)), OffsetBuffer::from_lengths(lens), child, None))
        }
        S::Map(inner) => {
            let mut keys = vec![];
            let mut flat = vec![];
            let mut lens = vec![];
            for v in vals {
                if let V::Map(x) = v {
                    lens.push(x.len());
                    for (k, y) in x {
                        keys.push(String::from_utf8(k.clone()).unwrap());
                        flat.push(y.clone());
                    }
                } else {
                    panic!("map")
                }
            }
            let child = build(inner, &flat);
            let (entries_field, sf) = match dtype(s) {
                DataType::Map(e, _) => match e.data_type() {
                    DataType::Struct(f) => (e.clone(), f.clone()),
                    _ => unreachable!(),
                },
                _ => unreachable!(),
            };
            let entries = StructArray::new(sf, vec![Arc::new(StringArray::from(keys)) as ArrayRef, child], None);
            Arc::new(MapArray::new(entries_field, OffsetBuffer::from_lengths(lens), entries, None, false))
        }
    }
}
/// read the value at row `i` of `arr` as a value tree of schema `s` (names and metadata ignored)
fn extract(s: &S, arr: &dyn Array, i: usize) -> Result<V, String> {
    Ok(match s {
        S::Layout(_, _, inner) => return extract(inner, arr, i),
        S::Opt(_, inner) => {
            if arr.is_null(i) { V::None } else { V::Some(Box::new(extract(inner, arr, i)?)) }
        }
        S::Null => {
            if matches!(arr.data_type(), DataType::Null) { V::Null } else { return Err(format!("null: {:?}", arr.data_type())) }
        }
        _ if arr.is_null(i) => return Err("unexpected null".into()),
        S::Bool | S::BoolSliced => V::Bool(arr.as_boolean_opt().ok_or("bool")?.value(i)),
        S::Int => V::Int(arr.as_primitive_opt::<Int32Type>().ok_or("int")?.value(i)),
        S::Long => V::Long(arr.as_primitive_opt::<Int64Type>().ok_or("long")?.value(i)),
        S::Float => V::Float(arr.as_primitive_opt::<Float32Type>().ok_or("float")?.value(i).to_bits()),
        S::Double => V::Double(arr.as_primitive_opt::<Float64Type>().ok_or("double")?.value(i).to_bits()),
        S::Bytes => V::Bytes(arr.as_binary_opt::<i32>().ok_or("bytes")?.value(i).to_vec()),
        S::Str => match arr.data_type() {
            DataType::Utf8 => V::Str(arr.as_string::<i32>().value(i).as_bytes().to_vec()),
            DataType::Utf8View => V::Str(arr.as_string_view().value(i).as_bytes().to_vec()),
            t => return Err(format!("str: {t:?}")),
        },
        S::Fixed(_) => V::Fixed(arr.as_fixed_size_binary_opt().ok_or("fixed")?.value(i).to_vec()),
        S::Dec(..) | S::Logical(_) | S::Duration if arr.data_type() != &dtype(s) => return Err(format!("type {:?}, expected {:?}", arr.data_type(), dtype(s))),
        S::Dec(p, _, _) => {
            if *p <= 38 {
                V::Dec(i256::from_i128(arr.as_primitive::<Decimal128Type>().value(i)), 16)
            } else {
                V::Dec(arr.as_primitive::<Decimal256Type>().value(i), 32)
            }
        }
        S::Logical(t) => match t {
            1 => V::Int(arr.as_primitive::<Date32Type>().value(i)),
            2 => V::Int(arr.as_primitive::<Time32MillisecondType>().value(i)),
            3 => V::Long(arr.as_primitive::<Time64MicrosecondType>().value(i)),
            4 | 6 => V::Long(arr.as_primitive::<TimestampMillisecondType>().value(i)),
            5 | 7 => V::Long(arr.as_primitive::<TimestampMicrosecondType>().value(i)),
            _ => V::Long(arr.as_primitive::<TimestampNanosecondType>().value(i)),
        },
        S::Uuid => V::Fixed(arr.as_fixed_size_binary_opt().ok_or("uuid")?.value(i).to_vec()),
        S::Duration => {
            let x = arr.as_primitive::<IntervalMonthDayNanoType>().value(i);
            if x.nanoseconds % 1_000_000 != 0 || x.nanoseconds < 0 {
                return Err("duration nanos".into());
            }
            V::Dur(x.months as u32, x.days as u32, (x.nanoseconds / 1_000_000) as u32)
        }
        S::Enum(_) => {
            let d = arr.as_dictionary_opt::<Int32Type>().ok_or("enum")?;
            let k = d.keys().value(i);
            let vals = d.values().as_string_opt::<i32>().ok_or("enum values")?;
            // the symbol the key points at must be S<k>
            if vals.value(k as usize) != format!("S{k}") {
                return Err("enum symbol".into());
            }
            V::Enum(k)
        }
        S::Union(b) => {
            let u = arr.as_any().downcast_ref::<UnionArray>().ok_or("union")?;
            let tid = u.type_id(i);
            let (fields, _) = match u.data_type() {
                DataType::Union(f, m) => (f.clone(), *m),
                _ => unreachable!(),
            };
            let pos = fields.iter().position(|(t, _)| t == tid).ok_or("type id")?;
            V::Union(pos, Box::new(extract(&b[pos], u.child(tid).as_ref(), u.value_offset(i))?))
        }
        S::Rec(fs) => {
            let st = arr.as_struct_opt().ok_or("struct")?;
            if st.num_columns() != fs.len() {
                return Err("struct arity".into());
            }
            V::Rec(fs.iter().enumerate().map(|(j, f)| extract(f, st.column(j).as_ref(), i)).collect::<Result<_, _>>()?)
        }
        S::Arr(inner) => {
            let l = arr.as_list_opt::<i32>().ok_or("list")?;
            let v = l.value(i);
            V::Arr((0..v.len()).map(|j| extract(inner, v.as_ref(), j)).collect::<Result<_, _>>()?)
        }
        S::Map(inner) => {
            let m = arr.as_map_opt().ok_or("map")?;
            let e = m.value(i);
            let ks = e.column(0).as_string_opt::<i32>().ok_or("map keys")?.clone();
            V::Map((0..e.len()).map(|j| Ok((ks.value(j).as_bytes().to_vec(), extract(inner, e.column(1).as_ref(), j)?))).collect::<Result<_, String>>()?)
        }
    })
}

fn make_batch(top: &[S], rows: &[Vec<V>]) -> (Schema, String, RecordBatch) {
    let mut k = 0;
    let json = avro_json(&S::Rec(top.to_vec()), &mut k);
    let fields: Vec<Field> = top.iter().enumerate().map(|(i, s)| field_of(&format!("f{i}"), s)).collect();
    let mut md = HashMap::new();
    md.insert(SCHEMA_METADATA_KEY.to_string(), json.clone());
    let schema = Schema::new_with_metadata(fields, md);
    let cols: Vec<ArrayRef> = top.iter().enumerate().map(|(i, s)| build(s, &rows.iter().map(|r| r[i].clone()).collect::<Vec<_>>())).collect();
    let batch = RecordBatch::try_new_with_options(Arc::new(schema.clone()), cols, &RecordBatchOptions::new().with_row_count(Some(rows.len()))).unwrap();
    (schema, json, batch)
}
fn rows_of_batches(top: &[S], batches: &[RecordBatch]) -> Result<Vec<Vec<V>>, String> {
    let mut out = vec![];
    for b in batches {
        if b.num_columns() != top.len() {
            return Err("column count".into());
        }
        for i in 0..b.num_rows() {
            out.push(top.iter().enumerate().map(|(j, s)| extract(s, b.column(j).as_ref(), i)).collect::<Result<Vec<_>, _>>()?);
        }
    }
    Ok(out)
}
fn err_class<E: std::fmt::Debug>(e: E) -> String {
    let d = format!("{:?}", e);
    if std::env::var("VERIF_TRACE").is_ok() {
        eprintln!("  error: {}", d.chars().take(400).collect::<String>());
    }
    let name: String = d.chars().take_while(|c| c.is_ascii_alphanumeric()).collect();
    format!("ERR:{}", name)
}
fn top_of(s: &S) -> Vec<S> {
    match s {
        S::Rec(f) => f.clone(),
        _ => panic!("top-level schema must be a record"),
    }
}
fn codec_of(name: &str) -> Option<CompressionCodec> {
    match name {
        "deflate" => Some(CompressionCodec::Deflate),
        "snappy" => Some(CompressionCodec::Snappy),
        "zstd" => Some(CompressionCodec::ZStandard),
        "bzip2" => Some(CompressionCodec::Bzip2),
        "xz" => Some(CompressionCodec::Xz),
        _ => None,
    }
}
fn read_varlong(b: &[u8], i: &mut usize) -> Option<i64> {
    let mut z: u64 = 0;
    let mut sh = 0;
    loop {
        let x = *b.get(*i)?;
        *i += 1;
        z |= ((x & 0x7f) as u64) << sh;
        if x & 0x80 == 0 {
            break;
        }
        sh += 7;
        if sh > 63 {
            return None;
        }
    }
    Some(((z >> 1) as i64) ^ -((z & 1) as i64))
}
thread_local! {
    /// timezone id the reader is configured to produce for `timestamp-*` columns
    static EXPECT_TZ: std::cell::Cell<&'static str> = const { std::cell::Cell::new("+00:00") };
}
/// reader options, chosen deterministically from the case line: 0 defaults, 1 `with_utf8_view(true)`,
/// 2 `with_strict_mode(true)` (only when the schema has no `[T,"null"]` union, which strict mode refuses),
/// 3 `with_tz(Tz::Utc)`
fn reader_variant(line: &str, top: &[S]) -> u8 {
    let h = line.bytes().fold(0xcbf29ce484222325u64, |h, b| (h ^ b as u64).wrapping_mul(0x100000001b3));
    let v = (h % 4) as u8;
    if v == 2 && has(&S::Rec(top.to_vec()), &|x: &S| matches!(x, S::Opt(false, _))) { 0 } else { v }
}
/// equal, except that a null of the input may have come back as an empty string
fn eq_mod_null_empty(a: &V, b: &V) -> bool {
    match (a, b) {
        (V::None, V::Some(x)) => matches!(&**x, V::Str(s) if s.is_empty()),
        (V::Some(x), V::Some(y)) => eq_mod_null_empty(x, y),
        (V::Union(i, x), V::Union(j, y)) => i == j && eq_mod_null_empty(x, y),
        (V::Rec(xs), V::Rec(ys)) | (V::Arr(xs), V::Arr(ys)) => xs.len() == ys.len() && xs.iter().zip(ys).all(|(x, y)| eq_mod_null_empty(x, y)),
        (V::Map(xs), V::Map(ys)) => xs.len() == ys.len() && xs.iter().zip(ys).all(|((k, x), (l, y))| k == l && eq_mod_null_empty(x, y)),
        (x, y) => x == y,
    }
}
fn rows_eq_mod_null_empty(a: &[Vec<V>], b: &[Vec<V>]) -> bool {
    a.len() == b.len() && a.iter().zip(b).all(|(x, y)| eq_mod_null_empty(&V::Rec(x.clone()), &V::Rec(y.clone())))
}
fn reader_builder(variant: u8) -> ReaderBuilder {
    EXPECT_TZ.with(|t| t.set(if variant == 3 { "UTC" } else { "+00:00" }));
    match variant {
        1 => ReaderBuilder::new().with_utf8_view(true),
        2 => ReaderBuilder::new().with_strict_mode(true),
        3 => ReaderBuilder::new().with_tz(arrow_avro::codec::Tz::Utc),
        _ => ReaderBuilder::new(),
    }
}
fn soe_decode(json: &str, frames: &[u8], variant: u8, id: Option<u32>) -> Result<(Vec<RecordBatch>, Fingerprint), String> {
    let (store, fp) = match id {
        None => {
            let mut store = SchemaStore::new();
            let fp = store.register(AvroSchema::new(json.to_string())).map_err(err_class)?;
            (store, fp)
        }
        Some(id) => {
            let mut store = SchemaStore::new_with_type(arrow_avro::schema::FingerprintAlgorithm::Id);
            let fp = store.set(Fingerprint::Id(id), AvroSchema::new(json.to_string())).map_err(err_class)?;
            (store, fp)
        }
    };
    let mut dec = reader_builder(variant).with_writer_schema_store(store).with_batch_size(1 << 20).build_decoder().map_err(err_class)?;
    let mut off = 0;
    let mut out = vec![];
    while off < frames.len() {
        let n = dec.decode(&frames[off..]).map_err(err_class)?;
        if n == 0 {
            break;
        }
        off += n;
    }
    if off != frames.len() {
        return Err("ERR:trailing".into());
    }
    if let Some(b) = dec.flush().map_err(err_class)? {
        out.push(b);
    }
    Ok((out, fp))
}
fn rabin_hex(fp: &Fingerprint) -> String {
    match fp {
        Fingerprint::Rabin(v) => hex(&v.to_le_bytes()),
        _ => panic!("fingerprint kind"),
    }
}

fn unslice(s: &S) -> S {
    match s {
        S::BoolSliced => S::Bool,
        S::Layout(_, _, i) => unslice(i),
        S::Opt(n, i) => S::Opt(*n, Box::new(unslice(i))),
        S::Arr(i) => S::Arr(Box::new(unslice(i))),
        S::Map(i) => S::Map(Box::new(unslice(i))),
        S::Union(b) => S::Union(b.iter().map(unslice).collect()),
        S::Rec(b) => S::Rec(b.iter().map(unslice).collect()),
        x => x.clone(),
    }
}
/// Avro JSON schema → schema tree (names, docs and logical types ignored)
fn s_of_json(j: &serde_json::Value) -> Option<S> {
    use serde_json::Value as J;
    Some(match j {
        J::String(t) => match t.as_str() {
            "null" => S::Null,
            "boolean" => S::Bool,
            "int" => S::Int,
            "long" => S::Long,
            "float" => S::Float,
            "double" => S::Double,
            "bytes" => S::Bytes,
            "string" => S::Str,
            _ => return None,
        },
        J::Array(b) => {
            let bs: Vec<S> = b.iter().map(s_of_json).collect::<Option<_>>()?;
            if bs.len() == 2 && bs[0] == S::Null {
                S::Opt(true, Box::new(bs[1].clone()))
            } else if bs.len() == 2 && bs[1] == S::Null {
                S::Opt(false, Box::new(bs[0].clone()))
            } else {
                S::Union(bs)
            }
        }
        J::Object(o) if o.get("logicalType").and_then(|x| x.as_str()).is_some_and(|lt| lt == "decimal" || lt == "uuid" || lt == "duration" || (1..=9).any(|t| logical_names(t).1 == lt)) => {
            let lt = o.get("logicalType")?.as_str()?;
            match lt {
                "decimal" => S::Dec(o.get("precision")?.as_u64()? as u8, o.get("scale").and_then(|x| x.as_u64()).unwrap_or(0) as i8, if o.get("type")?.as_str()? == "fixed" { Some(o.get("size")?.as_u64()? as usize) } else { None }),
                "uuid" => S::Uuid,
                "duration" => S::Duration,
                _ => S::Logical((1..=9).find(|t| logical_names(*t).1 == lt)?),
            }
        }
        J::Object(o) => match o.get("type")? {
            J::String(t) => match t.as_str() {
                "record" => S::Rec(o.get("fields")?.as_array()?.iter().map(|f| s_of_json(f.get("type")?)).collect::<Option<_>>()?),
                "array" => S::Arr(Box::new(s_of_json(o.get("items")?)?)),
                "map" => S::Map(Box::new(s_of_json(o.get("values")?)?)),
                "fixed" => S::Fixed(o.get("size")?.as_u64()? as usize),
                "enum" => S::Enum(o.get("symbols")?.as_array()?.len()),
                _ => s_of_json(o.get("type")?)?,
            },
            other => s_of_json(other)?,
        },
        _ => return None,
    })
}
/// the `avro.schema` entry of an OCF header as written by `AvroOcfFormat::start_stream`
fn ocf_header_schema(bytes: &[u8]) -> Option<String> {
    let mut i = 4;
    let n = read_varlong(bytes, &mut i)?;
    for _ in 0..n {
        let kl = read_varlong(bytes, &mut i)? as usize;
        let k = bytes.get(i..i + kl)?.to_vec();
        i += kl;
        let vl = read_varlong(bytes, &mut i)? as usize;
        let v = bytes.get(i..i + vl)?.to_vec();
        i += vl;
        if k == b"avro.schema" {
            return String::from_utf8(v).ok();
        }
    }
    None
}

/// structural tags of the recorded findings, computed from the case line alone (so they are
/// the same in gen and replay mode):
///  * `kf:avro-ocf-header-schema-regenerated` — OCF write whose user-supplied `avro.schema` JSON differs
///    from the one `AvroOcfFormat::start_stream` regenerates from the Arrow schema (null-second unions, enums,
///    fixed-backed decimals, which are regenerated as bytes-backed);
///    such a file may also make `Reader::read` spin: `kf:avro-reader-trailing-block-bytes-hang`
///  * `kf:avro-union-counts-not-reset` — a union column read in more than one batch (rows > batch size 7)
fn kf_tags(line: &str) -> String {
    let t: Vec<&str> = line.split(' ').collect();
    let si = match t.get(1).copied() {
        Some("avro") | Some("ocf") => 2,
        Some("soe") | Some("conf") | Some("ocfz") => 3,
        _ => return String::new(),
    };
    if t.len() < si + 2 {
        return String::new();
    }
    let top = parse_s(t[si]);
    let mut out = String::new();
    // `kf:avro-list-sliced-boolean-values`: an array / map whose values child is a BooleanArray with a
    // non-zero bit offset (`Array::offset() != 0`): List/Map/FixedSizeList encoders subtract that offset
    // from row indices that are already relative to the child
    if has(&top, &|x: &S| matches!(x, S::Arr(i) | S::Map(i) if matches!(**i, S::BoolSliced) || matches!(&**i, S::Opt(_, j) if **j == S::BoolSliced))) {
        out.push_str(" kf:avro-list-sliced-boolean-values");
    }
    // reader option `with_utf8_view(true)` (reader variant 1 of this case line):
    //  `kf:avro-utf8view-drops-nulls` — a nullable string column: Decoder::StringView::flush rebuilds the array
    //   from `Vec<&str>` and loses the validity buffer (nulls come back as empty strings);
    //  `kf:avro-utf8view-uuid-as-string` — a uuid column: the `uuid` logical type is only recognised on
    //   Codec::Utf8, so with the option the column comes back as a Utf8View string, not FixedSizeBinary(16)
    if t[1] != "avro" && reader_variant(line, &top_of(&top)) == 1 {
        if has(&top, &|x: &S| matches!(x, S::Opt(_, i) if unslice(i) == S::Str)) {
            out.push_str(" kf:avro-utf8view-drops-nulls");
        }
        if has(&top, &|x: &S| matches!(x, S::Uuid)) {
            out.push_str(" kf:avro-utf8view-uuid-as-string");
        }
    }
    if t[1] != "ocf" && t[1] != "ocfz" {
        return out;
    }
    let regenerated = has(&top, &|x: &S| matches!(x, S::Opt(false, _) | S::Enum(_) | S::Dec(_, _, Some(_))));
    let rows: usize = t[si + 1].split('/').map(|b| if b == "-" { 0 } else { b.split('|').count() }).sum();
    if regenerated {
        out.push_str(" kf:avro-ocf-header-schema-regenerated kf:avro-reader-trailing-block-bytes-hang");
    } else if has(&top, &|x: &S| matches!(x, S::Union(_))) && rows > OCF_BATCH_SIZE {
        out.push_str(" kf:avro-union-counts-not-reset");
    }
    out
}
const OCF_BATCH_SIZE: usize = 7;
/// how many mis-headed files the harness still tries to read (each may cost a watchdog timeout
/// and leave a spinning thread behind)
static HANG_PROBES: std::sync::atomic::AtomicUsize = std::sync::atomic::AtomicUsize::new(0);
const MAX_HANG_PROBES: usize = 3;

fn run_case(line: &str, sink: &mut Sink, tags: &str) -> String {
    let t: Vec<&str> = line.split(' ').collect();
    assert_eq!(t[0], "C17");
    let mut oracle: Vec<(String, &str)> = vec![];
    let ans = guarded(|| match t[1] {
        "avro" => {
            let top = top_of(&parse_s(t[2]));
            let rows = parse_rows(t[3]);
            let (schema, _json, batch) = make_batch(&top, &rows);
            let mut enc = match WriterBuilder::new(schema).build_encoder::<AvroBinaryFormat>() {
                Ok(e) => e,
                Err(e) => return err_class(e),
            };
            // two `encode` calls before one `flush` when there are at least two rows
            let _ = batch;
            let cut = if rows.len() >= 2 { rows.len() / 2 } else { rows.len() };
            for part in [&rows[..cut], &rows[cut..]] {
                if part.is_empty() && !rows.is_empty() {
                    continue;
                }
                let (_, _, b) = make_batch(&top, part);
                if let Err(e) = enc.encode(&b) {
                    return err_class(e);
                }
            }
            let er = enc.flush();
            let v: Vec<String> = er.iter().map(|b| hex(&b)).collect();
            show_list(&v)
        }
        "soe" | "conf" => {
            // `soe <rabin fp> …`: single-object framing; `conf <id> …`: Confluent wire format (00 + 4-byte BE id)
            let top = top_of(&parse_s(t[3]));
            let rows = parse_rows(t[4]);
            let id: Option<u32> = if t[1] == "conf" { Some(t[2].parse().unwrap()) } else { None };
            EXPECT_TZ.with(|t| t.set("+00:00"));
            let (schema, json, _) = make_batch(&top, &rows);
            let mut b = WriterBuilder::new(schema);
            if let Some(id) = id {
                b = b.with_fingerprint_strategy(arrow_avro::schema::FingerprintStrategy::Id(id));
            }
            let mut w = match b.build::<_, AvroSoeFormat>(Vec::<u8>::new()) {
                Ok(w) => w,
                Err(e) => return err_class(e),
            };
            // two `write` calls through the same writer when there are at least two rows
            let cut = if rows.len() >= 2 { rows.len() / 2 } else { rows.len() };
            for part in [&rows[..cut], &rows[cut..]] {
                if part.is_empty() && !rows.is_empty() {
                    continue;
                }
                let (_, _, batch) = make_batch(&top, part);
                if let Err(e) = w.write(&batch) {
                    return err_class(e);
                }
            }
            w.finish().unwrap();
            let bytes = w.into_inner();
            let variant = reader_variant(line, &top);
            match soe_decode(&json, &bytes, variant, id) {
                Ok((batches, fp)) => {
                    if id.is_none() && rabin_hex(&fp) != t[2] {
                        oracle.push((format!("fingerprint {} != case {}", rabin_hex(&fp), t[2]), ""));
                    }
                    match rows_of_batches(&top, &batches) {
                        Ok(back) if back == rows => {}
                        Ok(back) => oracle.push((format!("soe round trip (reader variant {variant}): read {}", show_rows(&back)), if variant == 1 && rows_eq_mod_null_empty(&rows, &back) { "finding:utf8view-null-as-empty" } else { "" })),
                        Err(e) => oracle.push((format!("soe round trip (reader variant {variant}): extract {e}"), if variant == 1 && e == "uuid" { "finding:utf8view-uuid-type" } else { "" })),
                    }
                }
                Err(e) => oracle.push((format!("soe round trip (reader variant {variant}): reader {e}"), "")),
            }
            EXPECT_TZ.with(|t| t.set("+00:00"));
            hex(&bytes)
        }
        "ocf" | "ocfz" => {
            let (codec, si) = if t[1] == "ocfz" { (codec_of(t[2]), 3) } else { (None, 2) };
            let top = top_of(&parse_s(t[si]));
            let batches_rows: Vec<Vec<Vec<V>>> = t[si + 1].split('/').map(parse_rows).collect();
            let (schema, _json, _) = make_batch(&top, &[]);
            let shared = SharedBuf::default();
            let mut w = match WriterBuilder::new(schema).with_compression(codec).build::<_, AvroOcfFormat>(shared.clone()) {
                Ok(w) => w,
                Err(e) => return err_class(e),
            };
            let sync = *w.sync_marker().unwrap();
            let header_len = shared.0.borrow().len();
            for rows in batches_rows.iter() {
                let (_, _, batch) = make_batch(&top, rows);
                if let Err(e) = w.write(&batch) {
                    return err_class(e);
                }
            }
            w.finish().unwrap();
            drop(w);
            let bytes = shared.0.borrow().clone();
            if &bytes[..4] != b"Obj\x01" {
                oracle.push(("magic".into(), ""));
            }
            if &bytes[header_len - 16..header_len] != &sync[..] {
                oracle.push(("header sync".into(), ""));
            }
            // read back
            let all_rows: Vec<Vec<V>> = batches_rows.iter().flatten().cloned().collect();
            // the header must advertise the schema the body was encoded with; if it does not, reading
            // decodes the body under another schema (garbage, an error, or a non-terminating
            // `Reader::read` when a block is left with trailing bytes) — report and skip the read
            let header_s = ocf_header_schema(&bytes).and_then(|j| serde_json::from_str::<serde_json::Value>(&j).ok()).and_then(|j| s_of_json(&j));
            let header_ok = header_s == Some(unslice(&S::Rec(top.clone())));
            if !header_ok {
                oracle.push((format!("ocf header schema {} differs from the writer schema the body is encoded with", header_s.as_ref().map(show_s).unwrap_or("?".into())), "finding:ocf-header-schema"));
                // a few of these files are still handed to the reader, under a watchdog: the body is decoded under
                // the wrong schema and a block left with trailing bytes makes `Reader::read` spin forever
                if HANG_PROBES.fetch_add(1, std::sync::atomic::Ordering::SeqCst) < MAX_HANG_PROBES {
                    let (tx, rx) = std::sync::mpsc::channel();
                    let data = bytes.clone();
                    std::thread::spawn(move || {
                        let r = std::panic::catch_unwind(|| match ReaderBuilder::new().with_batch_size(OCF_BATCH_SIZE).build(std::io::Cursor::new(data)) {
                            Ok(r) => r.map(|b| b.map(|x| x.num_rows())).collect::<Result<Vec<_>, _>>().map(|v| v.iter().sum::<usize>()).map_err(|_| ()),
                            Err(_) => Err(()),
                        });
                        let _ = tx.send(r);
                    });
                    match rx.recv_timeout(std::time::Duration::from_secs(3)) {
                        Ok(_) => {}
                        Err(_) => oracle.push(("HANG: Reader::read does not terminate on the file the OCF writer produced (block with trailing bytes)".into(), "finding:reader-hang")),
                    }
                }
            }
            if header_ok {
                // reader options vary with the case; files with more than 1000 rows are read with the DEFAULT
                // batch size (1024), smaller ones in batches of 7
                let variant = reader_variant(line, &top);
                let rb = if all_rows.len() > 1000 { reader_builder(variant) } else { reader_builder(variant).with_batch_size(OCF_BATCH_SIZE) };
                match rb.build(std::io::Cursor::new(bytes.clone())) {
                    Ok(r) => {
                        let mut bs = vec![];
                        let mut failed = false;
                        for b in r {
                            match b {
                                Ok(b) => bs.push(b),
                                Err(e) => {
                                    // does the same file read back correctly as ONE batch?
                                    let one = ReaderBuilder::new().with_batch_size(1 << 20).build(std::io::Cursor::new(bytes.clone())).ok().and_then(|r| r.collect::<Result<Vec<_>, _>>().ok()).and_then(|bs| rows_of_batches(&top, &bs).ok());
                                    let multibatch = one.as_ref() == Some(&all_rows) && has(&S::Rec(top.clone()), &|x: &S| matches!(x, S::Union(_)));
                                    oracle.push((format!("ocf round trip (batch_size {}, {} rows): reader {}; single-batch read ok={}", OCF_BATCH_SIZE, all_rows.len(), err_class(e), one.as_ref() == Some(&all_rows)), if multibatch { "finding:union-multibatch" } else { "" }));
                                    failed = true;
                                    break;
                                }
                            }
                        }
                        if !failed {
                            match rows_of_batches(&top, &bs) {
                                Ok(back) if back == all_rows => {}
                                Ok(back) => oracle.push((format!("ocf round trip (reader variant {variant}): read {}", show_rows(&back)), if variant == 1 && rows_eq_mod_null_empty(&all_rows, &back) { "finding:utf8view-null-as-empty" } else { "" })),
                                Err(e) => oracle.push((format!("ocf round trip (reader variant {variant}): extract {e}"), if variant == 1 && e == "uuid" { "finding:utf8view-uuid-type" } else { "" })),
                            }
                        }
                    }
                    Err(e) => oracle.push((format!("ocf round trip: open {}", err_class(e)), "")),
                }
            }
            EXPECT_TZ.with(|t| t.set("+00:00"));
            if t[1] == "ocfz" {
                return format!("rows={}", all_rows.len());
            }
            // canonical body: every block with its sync marker checked and zeroed
            let mut body = bytes[header_len..].to_vec();
            let mut i = 0;
            while i < body.len() {
                let (c, sz) = match (read_varlong(&body, &mut i), read_varlong(&body, &mut i)) {
                    (Some(c), Some(s)) if c >= 0 && s >= 0 => (c, s as usize),
                    _ => return "ERR:framing".into(),
                };
                let _ = c;
                i += sz;
                if i + 16 > body.len() {
                    return "ERR:framing".into();
                }
                if body[i..i + 16] != sync {
                    oracle.push(("block sync".into(), ""));
                }
                body[i..i + 16].fill(0);
                i += 16;
            }
            hex(&body)
        }
        "dec" => {
            let top = top_of(&parse_s(t[2]));
            let body = unhex(t[3]);
            let mut k = 0;
            let json = avro_json(&S::Rec(top.clone()), &mut k);
            let mut store = SchemaStore::new();
            let fp = store.register(AvroSchema::new(json)).unwrap();
            let mut frame = vec![0xC3, 0x01];
            if let Fingerprint::Rabin(v) = fp {
                frame.extend_from_slice(&v.to_le_bytes());
            }
            frame.extend_from_slice(&body);
            let mut dec = ReaderBuilder::new().with_writer_schema_store(store).build_decoder().unwrap();
            let n = match dec.decode(&frame) {
                Ok(n) => n,
                Err(_) => return "ERR:parse".into(),
            };
            let batch = match dec.flush() {
                Ok(Some(b)) => b,
                Ok(None) => return "ERR:parse".into(),
                Err(_) => return "ERR:parse".into(),
            };
            if n != frame.len() {
                return "ERR:trailing".into();
            }
            match rows_of_batches(&top, &[batch]) {
                Ok(rows) if rows.len() == 1 => canon_v(&V::Rec(rows[0].clone())),
                Ok(_) => "ERR:rows".into(),
                Err(e) => format!("ERR:extract:{e}"),
            }
        }
        _ => "bad-op".into(),
    });
    for o in oracle {
        sink.oracle_failure(line.to_string(), o.0.replace(['\n', '\r', '\t'], " "), &format!("{}{} {}", tags, kf_tags(line), o.1));
    }
    ans
}

// ---------------------------------------------------------------- generator
fn gen_schema(rng: &mut Rng, depth: usize, allow_opt: bool, allow_union: bool) -> S {
    // the logical types the writer supports: decimal (bytes / fixed backed, Decimal128 / Decimal256),
    // date, time, timestamps, uuid, duration — one leaf in four
    if rng.chance(1, 4) {
        return match rng.below(10) {
            0..=3 => gen_decimal_schema(rng),
            4..=7 => S::Logical(1 + rng.below(9) as u8),
            8 => S::Uuid,
            _ => S::Duration,
        };
    }
    let r = rng.below(if depth == 0 { 10 } else { 17 });
    match r {
        0 => {
            if rng.chance(1, 4) { S::BoolSliced } else { S::Bool }
        }
        1 => S::Int,
        2 => S::Long,
        3 => S::Float,
        4 => S::Double,
        5 => match rng.below(6) {
            0 => S::Layout(b'Y', 0, Box::new(S::Bytes)),
            1 => S::Layout(b'W', 0, Box::new(S::Bytes)),
            _ => S::Bytes,
        },
        6 => match rng.below(6) {
            0 => S::Layout(b'S', 0, Box::new(S::Str)),
            1 => S::Layout(b'V', 0, Box::new(S::Str)),
            _ => S::Str,
        },
        7 => S::Fixed(*rng.pick(&[1usize, 2, 4, 12, 16])),
        8 => S::Enum(1 + rng.usize(5)),
        9 => {
            // Avro `null` as a type of its own is generated only as a union branch: the reader
            // refuses a null-typed field nested in a record / array / map (non-nullable Null child)
            if !allow_opt && !allow_union && rng.chance(1, 3) { S::Null } else { S::Long }
        }
        10 | 11 if allow_opt => {
            let inner = gen_schema(rng, depth - 1, false, false);
            if inner == S::Null { S::Opt(true, Box::new(S::Str)) } else { S::Opt(rng.bool(), Box::new(inner)) }
        }
        12 => {
            let a = S::Arr(Box::new(gen_schema(rng, depth - 1, true, true)));
            match rng.below(8) {
                0 => S::Layout(b'A', 0, Box::new(a)),
                1 => S::Layout(b'L', 0, Box::new(a)),
                2 => S::Layout(b'F', 1 + rng.usize(3), Box::new(a)),
                _ => a,
            }
        }
        13 => S::Map(Box::new(gen_schema(rng, depth - 1, true, true))),
        14 => {
            let n = 1 + rng.usize(3);
            S::Rec((0..n).map(|_| gen_schema(rng, depth - 1, true, true)).collect())
        }
        15 if allow_union => {
            // distinct unnamed kinds; named kinds (fixed/enum/record) may repeat
            let mut kinds: Vec<S> = vec![];
            let n = 2 + rng.usize(3);
            let mut tries = 0;
            while kinds.len() < n && tries < 20 {
                tries += 1;
                let c = gen_schema(rng, depth - 1, false, false);
                let dup = kinds.iter().any(|k| avro_kind(k) == avro_kind(&c) && avro_kind(&c) != 255);
                if !dup {
                    kinds.push(c);
                }
            }
            if kinds.len() == 2 && kinds.contains(&S::Null) {
                kinds.push(S::Fixed(3));
            }
            if kinds.len() < 2 { S::Int } else { S::Union(kinds) }
        }
        _ => S::Str,
    }
}
/// the unnamed Avro type a schema node is (two of the same kind cannot share a union); 255 = named type
fn avro_kind(s: &S) -> u8 {
    match s {
        S::Null => 0,
        S::Bool | S::BoolSliced => 1,
        S::Int => 2,
        S::Logical(t) => if *t <= 2 { 2 } else { 3 },
        S::Long => 3,
        S::Float => 4,
        S::Double => 5,
        S::Bytes | S::Dec(_, _, None) => 6,
        S::Str | S::Uuid => 7,
        S::Arr(_) => 8,
        S::Map(_) => 9,
        S::Layout(_, _, i) => avro_kind(i),
        S::Opt(..) | S::Union(_) => 10,
        S::Fixed(_) | S::Enum(_) | S::Rec(_) | S::Dec(_, _, Some(_)) | S::Duration => 255,
    }
}
/// smallest fixed size whose capacity covers `p` digits (Avro: max precision = floor(log10(2^(8n-1)-1)))
fn min_fixed_for_precision(p: u8) -> usize {
    const MAX_P: [u8; 32] = [2, 4, 6, 9, 11, 14, 16, 18, 21, 23, 26, 28, 31, 33, 35, 38, 40, 43, 45, 47, 50, 52, 55, 57, 59, 62, 64, 67, 69, 71, 74, 76];
    1 + MAX_P.iter().position(|m| *m >= p).unwrap()
}
fn gen_decimal_schema(rng: &mut Rng) -> S {
    let p = *rng.pick(&[1u8, 2, 3, 5, 9, 10, 18, 19, 28, 38, 39, 50, 76]);
    let sc = *rng.pick(&[0i8, 0, 1, 2]).min(&(p as i8));
    match rng.below(3) {
        0 => {
            // fixed-backed: the minimal size, a wider one (sign extension), exactly 16 / 32, or wider than the Arrow type
            let lo = min_fixed_for_precision(p);
            let w = if p <= 38 { 16 } else { 32 };
            let n = *rng.pick(&[lo, lo + 1, w, (w + 4).min(32), lo.max(w.min(lo + 7))]);
            S::Dec(p, sc, Some(n.clamp(lo, 32)))
        }
        _ => S::Dec(p, sc, None),
    }
}
fn pow_i256(base: i128, e: u32) -> i256 {
    let mut r = i256::ONE;
    for _ in 0..e {
        r = r.checked_mul(i256::from_i128(base)).unwrap();
    }
    r
}
/// decimal values at the two's-complement length boundaries: ±2^(8k-1) and neighbours, ±255/±256, ±(2^(8k)-1),
/// 0x80FF.., 10^p-1; everything is kept inside the declared precision
fn gen_decimal_value(rng: &mut Rng, p: u8) -> i256 {
    let max = pow_i256(10, p as u32).checked_sub(i256::ONE).unwrap();
    let bits_max = if p <= 38 { 15 } else { 31 };
    for _ in 0..8 {
        let k = 1 + rng.below(bits_max) as u32;
        let half = pow_i256(2, 8 * k - 1); // 2^(8k-1)
        let full = pow_i256(2, 8 * k);
        let cand = match rng.below(14) {
            0 => half,                                                    // 128, 32768, … needs the 0x00 sign byte
            1 => half.checked_sub(i256::ONE).unwrap(),                    // 127, 32767
            2 => half.checked_add(i256::ONE).unwrap(),                    // 129
            3 => half.wrapping_neg(),                                     // -128
            4 => half.wrapping_neg().checked_sub(i256::ONE).unwrap(),     // -129 needs the 0xFF sign byte
            5 => half.wrapping_neg().checked_sub(i256::from_i128(2)).unwrap(),
            6 => half.checked_sub(i256::from_i128(2)).unwrap(),               // 126
            7 => half.checked_add(half.checked_sub(i256::ONE).unwrap()).unwrap(),              // 2^(8k) - 1  (255, 65535)
            8 => full,                                                                           // 256
            9 => full.wrapping_neg(),
            10 => half.checked_add(pow_i256(2, 8 * (k - 1)).checked_sub(i256::ONE).unwrap()).unwrap(), // 0x80FF… (33023)
            11 => half.checked_add(pow_i256(2, 8 * (k - 1))).unwrap(),                                   // 0x8100… (33024)
            12 => half.checked_add(pow_i256(2, 8 * (k - 1))).unwrap().wrapping_neg().checked_sub(i256::ONE).unwrap(), // -33025
            _ => half.checked_add(pow_i256(2, 8 * (k - 1)).checked_sub(i256::ONE).unwrap()).unwrap().wrapping_neg().checked_sub(i256::ONE).unwrap(), // -33024
        };
        if cand <= max && cand >= max.wrapping_neg() {
            return cand;
        }
    }
    match rng.below(6) {
        0 => max,
        1 => max.wrapping_neg(),
        2 => i256::ZERO,
        3 => i256::ONE,
        4 => i256::MINUS_ONE,
        _ => {
            let r = i256::from_parts(((rng.next_u64() as u128) << 64) | rng.next_u64() as u128, (((rng.next_u64() as u128) << 64) | rng.next_u64() as u128) as i128 >> 1);
            let m = r.checked_rem(max.checked_add(i256::ONE).unwrap()).unwrap();
            m
        }
    }
}
const I32B: [i64; 12] = [0, 1, -1, 63, 64, -64, -65, 8191, 8192, i32::MAX as i64, i32::MIN as i64, 1 << 20];
const I64B: [i64; 18] = [0, 1, -1, 63, 64, -64, -65, 1 << 31, -(1 << 31) - 1, (1 << 55) - 1, 1 << 55, 1 << 56, -(1 << 56), (1 << 62), -(1 << 62) - 1, i64::MAX, i64::MIN, i64::MAX - 1];
thread_local! {
    static MAX_SIZE: std::cell::Cell<usize> = const { std::cell::Cell::new(0) };
}
fn size_tag() -> &'static str {
    match MAX_SIZE.with(|m| m.replace(0)) {
        0..=30 => "sz:small",
        31..=66 => "sz:31-66",
        67..=130 => "sz:127-130",
        131..=258 => "sz:255-258",
        259..=514 => "sz:511-514",
        515..=1026 => "sz:1023-1026",
        1027..=5000 => "sz:4k",
        _ => "sz:64k",
    }
}
/// byte length of a string / bytes value: short, or on a size class crossing a buffer / varint-length boundary
/// (31..33, 63..66 = 1→2 byte length prefix, 127..130, 255..258, 511..514, 1023..1026, 8191..8193 = 2→3 byte
/// prefix), rarely ~4 KiB / ~64 KiB
fn size_class(rng: &mut Rng) -> usize {
    let n = match rng.below(1000) {
        0..=599 => *rng.pick(&[0usize, 1, 2, 3, 5]),
        600..=719 => 63 + rng.usize(4),
        720..=789 => 31 + rng.usize(3),
        790..=859 => 127 + rng.usize(4),
        860..=919 => 255 + rng.usize(4),
        920..=954 => 511 + rng.usize(4),
        955..=984 => 1023 + rng.usize(4),
        985..=992 => 4094 + rng.usize(5),
        993..=996 => 8191 + rng.usize(3),
        _ => 65534 + rng.usize(4),
    };
    MAX_SIZE.with(|m| m.set(m.get().max(n)));
    n
}
/// a string of exactly `size_class` bytes, ASCII only or mixed with 2/3/4-byte characters
fn gen_string(rng: &mut Rng) -> Vec<u8> {
    let target = size_class(rng);
    let ascii = rng.bool();
    let mut s = String::new();
    while s.len() < target {
        let c = *rng.pick(&['a', ',', '"', '\n', '\r', '\\', '\u{0}', '\u{7f}', 'é', '\u{ffff}', '😀', ' ', '\u{10ffff}']);
        if (ascii && !c.is_ascii()) || s.len() + c.len_utf8() > target {
            s.push('a');
        } else {
            s.push(c);
        }
    }
    s.into_bytes()
}
fn gen_value(rng: &mut Rng, s: &S, budget: &mut i64) -> V {
    *budget -= 1;
    match s {
        S::Null => V::Null,
        S::Bool | S::BoolSliced => V::Bool(rng.bool()),
        S::Int => V::Int(rng.pick_or(&I32B, i32::MIN as i64, i32::MAX as i64) as i32),
        S::Long => V::Long(if rng.chance(1, 2) { *rng.pick(&I64B) } else { rng.next_u64() as i64 >> rng.below(64) }),
        S::Float => V::Float(if rng.chance(1, 4) { *rng.pick(&[0u32, 0x8000_0000, 0x7f80_0000, 0xff80_0000, 0x7fc0_0001, 1, 0x3f80_0000]) } else { rng.next_u64() as u32 }),
        S::Double => V::Double(if rng.chance(1, 4) { *rng.pick(&[0u64, 1 << 63, 0x7ff0_0000_0000_0000, 0x7ff8_0000_0000_0001, 1, 0x3ff0_0000_0000_0000]) } else { rng.next_u64() }),
        S::Bytes => {
            let n = size_class(rng);
            V::Bytes(rng.bytes(n))
        }
        S::Str => V::Str(gen_string(rng)),
        S::Fixed(n) => V::Fixed(rng.bytes(*n)),
        S::Enum(n) => V::Enum(rng.usize(*n) as i32),
        S::Dec(p, _, _) => V::Dec(gen_decimal_value(rng, *p), if *p <= 38 { 16 } else { 32 }),
        S::Logical(t) => match t {
            1 => V::Int(rng.pick_or(&I32B, i32::MIN as i64, i32::MAX as i64) as i32),
            2 => V::Int(rng.pick_or(&[0, 1, 86_399_999, 63, 64, 8192], 0, 86_399_999) as i32),
            3 => V::Long(rng.pick_or(&[0, 1, 86_399_999_999, 63, 64, 1 << 31], 0, 86_399_999_999)),
            _ => V::Long(if rng.chance(1, 2) { *rng.pick(&I64B) } else { rng.next_u64() as i64 >> rng.below(64) }),
        },
        S::Layout(b'F', n, i) => match &**i {
            S::Arr(x) => V::Arr((0..*n).map(|_| gen_value(rng, x, budget)).collect()),
            _ => unreachable!(),
        },
        S::Layout(_, _, i) => gen_value(rng, i, budget),
        S::Uuid => V::Fixed(if rng.chance(1, 4) { vec![*rng.pick(&[0u8, 0xff, 0x0a, 0xa0]); 16] } else { rng.bytes(16) }),
        S::Duration => V::Dur(*rng.pick(&[0u32, 1, 12, 255, i32::MAX as u32]), *rng.pick(&[0u32, 1, 31, 65536, i32::MAX as u32]), *rng.pick(&[0u32, 1, 999, 86_400_000, u32::MAX])),
        S::Opt(_, i) => {
            if rng.chance(1, 3) { V::None } else { V::Some(Box::new(gen_value(rng, i, budget))) }
        }
        S::Union(b) => {
            let i = rng.usize(b.len());
            V::Union(i, Box::new(gen_value(rng, &b[i], budget)))
        }
        S::Rec(fs) => V::Rec(fs.iter().map(|f| gen_value(rng, f, budget)).collect()),
        S::Arr(i) => {
            // element counts: tiny, or around 64 / 128 / 256 (1→2 byte block count at 64) for scalar items
            let scalar = !matches!(**i, S::Arr(_) | S::Map(_) | S::Rec(_) | S::Union(_) | S::Str | S::Bytes);
            let n = if *budget < 0 { 0 } else if scalar && rng.chance(1, 8) { let c = *rng.pick(&[63usize, 64, 65, 127, 128, 129, 255, 256, 257]); MAX_SIZE.with(|m| m.set(m.get().max(c))); c } else { *rng.pick(&[0usize, 0, 1, 2, 3, 5]) };
            V::Arr((0..n).map(|_| gen_value(rng, i, budget)).collect())
        }
        S::Map(i) => {
            let scalar = !matches!(**i, S::Arr(_) | S::Map(_) | S::Rec(_) | S::Union(_) | S::Str | S::Bytes);
            let n = if *budget < 0 { 0 } else if scalar && rng.chance(1, 12) { let c = *rng.pick(&[63usize, 64, 65, 127, 128, 129]); MAX_SIZE.with(|m| m.set(m.get().max(c))); c } else { *rng.pick(&[0usize, 0, 1, 2, 3]) };
            V::Map((0..n).map(|j| (format!("k{}{}", j, String::from_utf8(gen_string(rng)).unwrap().chars().take(3).collect::<String>()).into_bytes(), gen_value(rng, i, budget))).collect())
        }
    }
}
fn has(s: &S, f: &dyn Fn(&S) -> bool) -> bool {
    f(s) || match s {
        S::Opt(_, i) | S::Arr(i) | S::Map(i) | S::Layout(_, _, i) => has(i, f),
        S::Union(b) | S::Rec(b) => b.iter().any(|x| has(x, f)),
        _ => false,
    }
}
fn schema_tags(top: &[S]) -> String {
    let s = S::Rec(top.to_vec());
    let mut t = String::new();
    for (name, f) in [
        ("nullable-first", (&|x: &S| matches!(x, S::Opt(true, _))) as &dyn Fn(&S) -> bool),
        ("nullable-second", &|x: &S| matches!(x, S::Opt(false, _))),
        ("union", &|x: &S| matches!(x, S::Union(_))),
        ("array", &|x: &S| matches!(x, S::Arr(_))),
        ("map", &|x: &S| matches!(x, S::Map(_))),
        ("enum", &|x: &S| matches!(x, S::Enum(_))),
        ("fixed", &|x: &S| matches!(x, S::Fixed(_))),
        ("nullcol", &|x: &S| matches!(x, S::Null)),
        ("decimal-bytes-128", &|x: &S| matches!(x, S::Dec(p, _, None) if *p <= 38)),
        ("decimal-bytes-256", &|x: &S| matches!(x, S::Dec(p, _, None) if *p > 38)),
        ("decimal-fixed-128", &|x: &S| matches!(x, S::Dec(p, _, Some(_)) if *p <= 38)),
        ("decimal-fixed-256", &|x: &S| matches!(x, S::Dec(p, _, Some(_)) if *p > 38)),
        ("date-time", &|x: &S| matches!(x, S::Logical(1..=3))),
        ("timestamp-utc", &|x: &S| matches!(x, S::Logical(4 | 5 | 8))),
        ("timestamp-local", &|x: &S| matches!(x, S::Logical(6 | 7 | 9))),
        ("uuid", &|x: &S| matches!(x, S::Uuid)),
        ("duration", &|x: &S| matches!(x, S::Duration)),
        ("large-utf8", &|x: &S| matches!(x, S::Layout(b'S', ..))),
        ("utf8-view", &|x: &S| matches!(x, S::Layout(b'V', ..))),
        ("large-binary", &|x: &S| matches!(x, S::Layout(b'Y', ..))),
        ("binary-view", &|x: &S| matches!(x, S::Layout(b'W', ..))),
        ("large-list", &|x: &S| matches!(x, S::Layout(b'A', ..))),
        ("list-view", &|x: &S| matches!(x, S::Layout(b'L', ..))),
        ("fixed-size-list", &|x: &S| matches!(x, S::Layout(b'F', ..))),
    ] {
        if has(&s, f) {
            t.push_str(" t:");
            t.push_str(name);
        }
    }
    if top.iter().any(|x| matches!(x, S::Rec(_))) || has(&s, &|x: &S| matches!(x, S::Arr(i) | S::Map(i) if matches!(**i, S::Rec(_) | S::Arr(_) | S::Map(_)))) {
        t.push_str(" t:nested");
    }
    t
}
/// zig-zag varint written by the harness itself (only used to build re-blocked `dec` inputs)
fn put_long(out: &mut Vec<u8>, v: i64) {
    let mut z = ((v << 1) ^ (v >> 63)) as u64;
    while z >= 0x80 {
        out.push((z as u8) | 0x80);
        z >>= 7;
    }
    out.push(z as u8);
}
fn gen_case(rng: &mut Rng) -> (String, String) {
    let nf = 1 + rng.usize(4);
    let top: Vec<S> = if rng.chance(1, 5) {
        // decimal-centric schema (dense, every run): plain, nullable, in arrays, maps and records
        (0..nf)
            .map(|_| {
                let d = gen_decimal_schema(rng);
                match rng.below(6) {
                    0 | 1 => d,
                    2 => S::Opt(rng.chance(3, 4), Box::new(d)),
                    3 => S::Arr(Box::new(d)),
                    4 => S::Rec(vec![d, gen_decimal_schema(rng)]),
                    _ => S::Map(Box::new(S::Opt(true, Box::new(d)))),
                }
            })
            .collect()
    } else {
        (0..nf).map(|_| gen_schema(rng, 2, true, true)).collect()
    };
    let sch = show_s(&S::Rec(top.clone()));
    let nrows = *rng.pick(&[0usize, 1, 1, 2, 3, 8]);
    let mut gen_rows = |rng: &mut Rng, n: usize| -> Vec<Vec<V>> {
        (0..n)
            .map(|_| {
                let mut budget = 40;
                top.iter().map(|s| gen_value(rng, s, &mut budget)).collect()
            })
            .collect()
    };
    let st = schema_tags(&top);
    match rng.below(10) {
        0..=3 => {
            let rows = gen_rows(rng, nrows);
            (format!("C17 avro {} {}", sch, show_rows(&rows)), format!("op:avro{} {}", st, if nrows > 0 { "nt" } else { "" }))
        }
        4 if rng.chance(1, 3) => {
            let rows = gen_rows(rng, nrows);
            let id = *rng.pick(&[0u32, 1, 255, 256, 0x01020304, u32::MAX]);
            (format!("C17 conf {} {} {}", id, sch, show_rows(&rows)), format!("op:conf{} {}", st, if nrows > 0 { "nt" } else { "" }))
        }
        4 | 5 => {
            let rows = gen_rows(rng, nrows);
            let mut k = 0;
            let json = avro_json(&S::Rec(top.clone()), &mut k);
            let fp = AvroSchema::new(json).fingerprint(arrow_avro::schema::FingerprintAlgorithm::Rabin).unwrap();
            (format!("C17 soe {} {} {}", rabin_hex(&fp), sch, show_rows(&rows)), format!("op:soe{} {}", st, if nrows > 0 { "nt" } else { "" }))
        }
        6 | 7 => {
            let nb = 1 + rng.usize(3);
            let b: Vec<String> = (0..nb).map(|_| { let n = *rng.pick(&[0usize, 1, 2, 9]); show_rows(&gen_rows(rng, n)) }).collect();
            (format!("C17 ocf {} {}", sch, b.join("/")), format!("op:ocf{} nt", st))
        }
        8 => {
            let codec = *rng.pick(&["deflate", "snappy", "zstd", "bzip2", "xz"]);
            let nb = 1 + rng.usize(2);
            let b: Vec<String> = (0..nb).map(|_| { let n = *rng.pick(&[0usize, 1, 3, 20]); show_rows(&gen_rows(rng, n)) }).collect();
            (format!("C17 ocfz {} {} {}", codec, sch, b.join("/")), format!("op:ocfz codec:{}{} nt", codec, st))
        }
        _ => {
            // reader-only: one array<long|int> column written by the harness in several blocks, some
            // with negative counts followed by a byte size
            let n = rng.usize(7);
            let vals: Vec<i64> = (0..n).map(|_| *rng.pick(&I32B)).collect();
            let mut body = vec![];
            let mut i = 0;
            let mut neg = false;
            while i < n {
                let k = 1 + rng.usize(n - i);
                let mut items = vec![];
                for v in &vals[i..i + k] {
                    put_long(&mut items, *v);
                }
                if rng.bool() {
                    neg = true;
                    put_long(&mut body, -(k as i64));
                    put_long(&mut body, items.len() as i64);
                } else {
                    put_long(&mut body, k as i64);
                }
                body.extend(items);
                i += k;
            }
            put_long(&mut body, 0);
            let long = rng.bool();
            if rng.chance(1, 10) {
                body.pop();
            }
            (format!("C17 dec r(a{}) {}", if long { "l" } else { "i" }, hex(&body)), format!("op:dec {} {}", if neg { "negative-block" } else { "" }, if n > 0 { "nt" } else { "" }))
        }
    }
}

/// a deterministic block of boundary cases emitted at the start of every run
fn fixed_block() -> Vec<String> {
    let mut out = vec![];
    // zig-zag varint byte-length boundaries of long / int: ±2^(7k-1) and neighbours
    let mut longs: Vec<i64> = vec![0, 1, -1, i64::MAX, i64::MIN, i64::MAX - 1, i64::MIN + 1];
    for k in 1..=9u32 {
        let b = 1i64 << (7 * k - 1);
        longs.extend([b - 1, b, b + 1, -b - 1, -b, -b + 1]);
    }
    out.push(format!("C17 avro r(l) {}", longs.iter().map(|v| format!("r(l{v};)")).collect::<Vec<_>>().join("|")));
    let ints: Vec<i64> = longs.iter().copied().filter(|v| *v >= i32::MIN as i64 && *v <= i32::MAX as i64).chain([i32::MAX as i64, i32::MIN as i64]).collect();
    out.push(format!("C17 avro r(i,t1,?i) {}", ints.iter().map(|v| format!("r(i{v};i{v};+i{v};)")).collect::<Vec<_>>().join("|")));
    // 10-byte varints followed by fewer / more than 10 bytes (slow path vs unrolled path of read_varint)
    out.push("C17 dec r(al) 02ffffffffffffffffff0100".to_string());
    out.push("C17 dec r(al,al) 02ffffffffffffffffff010002feffffffffffffffff0100".to_string());
    // decimals: every two's-complement length boundary, bytes- and fixed-backed, 128- and 256-bit
    for (sch, w, kmax) in [("D38.0", 16usize, 15u32), ("G16.38.0", 16, 15), ("D76.0", 32, 31), ("G32.76.0", 32, 31), ("G20.38.2", 16, 15)] {
        let mut rows = vec![];
        for k in 1..=kmax {
            let half = pow_i256(2, 8 * k - 1);
            for v in [half.checked_sub(i256::ONE).unwrap(), half, half.checked_add(i256::ONE).unwrap(), half.wrapping_neg(), half.wrapping_neg().checked_sub(i256::ONE).unwrap(), half.wrapping_neg().checked_add(i256::ONE).unwrap()] {
                rows.push(format!("r(D{w}:{v};)"));
            }
        }
        let max = pow_i256(10, if w == 16 { 38 } else { 76 }).checked_sub(i256::ONE).unwrap();
        for v in [i256::ZERO, i256::ONE, i256::MINUS_ONE, max, max.wrapping_neg()] {
            rows.push(format!("r(D{w}:{v};)"));
        }
        out.push(format!("C17 avro r({sch}) {}", rows.join("|")));
    }
    // string / bytes lengths at the 1→2→3 byte length-prefix boundaries, array counts at 63/64/65
    for n in [0usize, 1, 63, 64, 65, 8191, 8192] {
        out.push(format!("C17 avro r(s,y,V,W) r(s{0};y{0};s{0};y{0};)", "61".repeat(n)));
    }
    for n in [63usize, 64, 65, 128] {
        let items = "i1;".repeat(n);
        let bools: String = (0..n).map(|i| if i % 3 == 0 { 'T' } else { 'F' }).collect();
        out.push(format!("C17 avro r(ai,Ai,Li,ab) r(a({items})a({items})a({items})a({bools}))"));
    }
    // more rows than the reader's default batch size (1024) in one file, and 8 rows at batch size 7
    out.push(format!("C17 ocf r(i,?s) {}", (0..1030).map(|i| format!("r(i{};{})", i, if i % 5 == 0 { "_".to_string() } else { format!("+s{:02x};", 0x61 + i % 26) })).collect::<Vec<_>>().join("|")));
    out.push(format!("C17 ocfz snappy r(l,u(d,s)) {}", (0..1030).map(|i| format!("r(l{};u{}:{})", i, i % 2, if i % 2 == 0 { "d3ff0000000000000;" } else { "s61;" })).collect::<Vec<_>>().join("|")));
    out
}

fn main() {
    let args = parse_args();
    if std::env::var("VERIF_LOUD").is_err() {
        quiet_panics();
    }
    let mut sink = Sink::new(&args.out);
    if args.mode == "replay" {
        for line in read_cases(args.replay.as_ref().unwrap()) {
            let tags = format!("replay{}", kf_tags(&line));
            let a = run_case(&line, &mut sink, "replay");
            sink.case(line, a, &tags);
        }
    } else {
        for line in fixed_block() {
            let tags = format!("fixed nt{}", kf_tags(&line));
            let a = run_case(&line, &mut sink, &tags);
            sink.case(line, a, &tags);
        }
        let mut rng = Rng::new(args.seed ^ 0xC17A);
        let n = n_cases(&args, 1500, 40000);
        for _ in 0..n {
            // the property quantifies over batches the writer accepts: a schema the writer refuses
            // at construction time (SchemaError / NYI / InvalidArgument) is counted and re-drawn
            let mut tries = 0;
            loop {
                MAX_SIZE.with(|m| m.set(0));
                let (line, tags) = gen_case(&mut rng);
                let tags = format!("{}{} {}", tags, kf_tags(&line), size_tag());
                if std::env::var("VERIF_TRACE").is_ok() {
                    eprintln!("{}", line);
                }
                let a = run_case(&line, &mut sink, &tags);
                tries += 1;
                if (a == "ERR:SchemaError" || a == "ERR:NYI" || a == "ERR:InvalidArgument") && tries < 50 {
                    sink.count(&format!("redrawn:writer-rejects:{}", line.split(' ').nth(1).unwrap_or("")));
                    continue;
                }
                sink.case(line, a, &tags);
                break;
            }
        }
    }
    sink.finish();
}
