//! C08 correspondence + corruption-search harness, Arrow IPC and Avro side.
//!
//! Case lines:
//!   C08 avlq <hex>                 Avro `read_varint` + zig-zag through an OCF block holding one record {a: long}
//!                                  (the varint is the last thing in the buffer: one-byte and slow paths, fast path only for 10 bytes)
//!   C08 avlqf <hex>                the same with a 12-byte fixed field after it (>= 10 bytes available: `read_varint_array`)
//!                                  answer `ok <i64> <bytes consumed>` / `ERR`; the driver treats both as op `avlq`
//!   C08 ipcslice <body> <off> <len> <rows>   `read_record_batch` of one Int32 column whose values buffer is (off, len)
//!   C08 ipc <file> <mutation>      corrupted IPC stream/file through StreamReader / FileReader     (search only)
//!   C08 ipcraw <s|f> <hex>         the same on explicit bytes                                      (search only)
//!   C08 ocf <file> <mutation>      corrupted Avro object container file through the Avro Reader     (search only)
//!   C08 ocfraw <hex>               the same on explicit bytes                                      (search only)
//! Every case runs in a worker process under a watchdog and a capping allocator (c08_infra.rs).
use std::collections::HashMap;
use std::io::Cursor;

use arrow_array::builder::{Int32Builder, ListBuilder, StringDictionaryBuilder};
use arrow_array::types::Int8Type;
use arrow_array::{Array, ArrayRef, BooleanArray, Int32Array, Int64Array, RecordBatch, StringArray, StructArray};
use arrow_buffer::Buffer;
use arrow_schema::{DataType, Field, Schema};
use vcommon::*;

include!("../../../h-parquet/src/c08_infra.rs");

#[global_allocator]
static GLOBAL: CapAlloc = CapAlloc;

fn validate_batch(b: &RecordBatch) -> Result<(), String> {
    for (i, c) in b.columns().iter().enumerate() {
        if c.len() != b.num_rows() {
            return Err(format!("col{}:len", i));
        }
        c.to_data().validate_full().map_err(|e| format!("col{}:{}", i, slug(&e.to_string())))?;
    }
    Ok(())
}

// ------------------------------------------------------------------ Avro

fn zz(v: i64) -> Vec<u8> {
    let mut n = ((v << 1) ^ (v >> 63)) as u64;
    let mut o = vec![];
    while n >= 0x80 {
        o.push(n as u8 | 0x80);
        n >>= 7;
    }
    o.push(n as u8);
    o
}

const SYNC: [u8; 16] = [7, 1, 2, 3, 4, 5, 6, 7, 8, 9, 10, 11, 12, 13, 14, 15];

fn ocf_header(schema_json: &str) -> Vec<u8> {
    let mut f = b"Obj\x01".to_vec();
    f.extend(zz(1));
    f.extend(zz(11));
    f.extend(b"avro.schema");
    f.extend(zz(schema_json.len() as i64));
    f.extend(schema_json.as_bytes());
    f.extend(zz(0));
    f.extend(SYNC);
    f
}

fn read_ocf(bytes: Vec<u8>) -> Result<Vec<RecordBatch>, String> {
    let r = arrow_avro::reader::ReaderBuilder::new().with_batch_size(16).build(Cursor::new(bytes)).map_err(|_| "ERR".to_string())?;
    let mut out = vec![];
    let mut rows = 0usize;
    for b in r {
        let b = b.map_err(|_| "ERR".to_string())?;
        validate_batch(&b).map_err(|e| format!("INVALID:{}", e))?;
        rows += b.num_rows();
        if rows > 1_000_000 {
            return Err("INVALID:rows-unbounded".into());
        }
        out.push(b);
    }
    Ok(out)
}

fn avlq(bytes: &[u8], fast: bool) -> String {
    let schema = if fast {
        r#"{"type":"record","name":"r","fields":[{"name":"a","type":"long"},{"name":"p","type":{"type":"fixed","name":"f","size":12}}]}"#
    } else {
        r#"{"type":"record","name":"r","fields":[{"name":"a","type":"long"}]}"#
    };
    let head = ocf_header(schema);
    for k in 1..=bytes.len() {
        let mut data = bytes[..k].to_vec();
        if fast {
            data.extend([0u8; 12]);
        }
        let mut f = head.clone();
        f.extend(zz(1));
        f.extend(zz(data.len() as i64));
        f.extend(&data);
        f.extend(SYNC);
        if let Ok(bs) = read_ocf(f) {
            if bs.len() == 1 && bs[0].num_rows() == 1 {
                if let Some(a) = bs[0].column(0).as_any().downcast_ref::<Int64Array>() {
                    return format!("ok {} {}", a.value(0), k);
                }
            }
            return "ok-unexpected-shape".into();
        }
    }
    "ERR".into()
}

fn avro_batch() -> RecordBatch {
    let rows = 12;
    let i: Int32Array = (0..rows).map(|i| if i % 5 == 3 { None } else { Some(i * 37 - 3) }).collect();
    let l: Int64Array = (0..rows).map(|i| Some(1_000_000_007i64 * i as i64 - 5)).collect();
    let s: StringArray = (0..rows).map(|i| if i % 7 == 2 { None } else { Some(["a", "bb", "héllo", "", "zzzz"][i as usize % 5]) }).collect();
    let b: BooleanArray = (0..rows).map(|i| Some(i % 3 == 0)).collect();
    let mut lb = ListBuilder::new(Int32Builder::new());
    for i in 0..rows {
        for j in 0..(i % 3) {
            lb.values().append_value(i + j);
        }
        lb.append(true);
    }
    RecordBatch::try_from_iter_with_nullable(vec![
        ("i", std::sync::Arc::new(i) as ArrayRef, true),
        ("l", std::sync::Arc::new(l) as ArrayRef, false),
        ("s", std::sync::Arc::new(s) as ArrayRef, true),
        ("b", std::sync::Arc::new(b) as ArrayRef, false),
        ("li", std::sync::Arc::new(lb.finish()) as ArrayRef, false),
    ])
    .unwrap()
}

const N_OCF: usize = 3;
fn build_ocf(id: usize) -> Vec<u8> {
    use arrow_avro::compression::CompressionCodec;
    let batch = avro_batch();
    let codec = match id {
        0 => None,
        1 => Some(CompressionCodec::Deflate),
        _ => Some(CompressionCodec::Snappy),
    };
    let mut w = arrow_avro::writer::WriterBuilder::new(batch.schema().as_ref().clone())
        .with_compression(codec)
        .build::<_, arrow_avro::writer::format::AvroOcfFormat>(Vec::new())
        .unwrap();
    w.write(&batch).unwrap();
    w.write(&batch.slice(2, 5)).unwrap();
    w.finish().unwrap();
    w.into_inner()
}
fn ocf_file(id: usize) -> Vec<u8> {
    static FILES: std::sync::OnceLock<Vec<Vec<u8>>> = std::sync::OnceLock::new();
    FILES.get_or_init(|| (0..N_OCF).map(build_ocf).collect())[id % N_OCF].clone()
}

// ------------------------------------------------------------------ IPC

fn ipc_batch() -> RecordBatch {
    let rows = 10;
    let i: Int32Array = (0..rows).map(|i| if i % 5 == 3 { None } else { Some(i * 37 - 3) }).collect();
    let s: StringArray = (0..rows).map(|i| if i % 7 == 2 { None } else { Some(["a", "bb", "héllo", "", "zzzz"][i as usize % 5]) }).collect();
    let b: BooleanArray = (0..rows).map(|i| Some(i % 3 == 0)).collect();
    let mut lb = ListBuilder::new(Int32Builder::new());
    for i in 0..rows {
        if i % 4 == 1 {
            lb.append(false);
        } else {
            for j in 0..(i % 3) {
                lb.values().append_value(i + j);
            }
            lb.append(true);
        }
    }
    let mut db = StringDictionaryBuilder::<Int8Type>::new();
    for i in 0..rows {
        db.append_value(["x", "yy", "zzz"][i as usize % 3]);
    }
    let x: Int64Array = (0..rows).map(|i| Some(i as i64 * 1_000_003)).collect();
    let st = StructArray::from(vec![(std::sync::Arc::new(Field::new("x", DataType::Int64, true)), std::sync::Arc::new(x) as ArrayRef)]);
    RecordBatch::try_from_iter_with_nullable(vec![
        ("i", std::sync::Arc::new(i) as ArrayRef, true),
        ("s", std::sync::Arc::new(s) as ArrayRef, true),
        ("b", std::sync::Arc::new(b) as ArrayRef, false),
        ("li", std::sync::Arc::new(lb.finish()) as ArrayRef, true),
        ("d", std::sync::Arc::new(db.finish()) as ArrayRef, false),
        ("st", std::sync::Arc::new(st) as ArrayRef, false),
    ])
    .unwrap()
}

const N_IPC: usize = 2;
/// 0 = stream format, 1 = file format
fn build_ipc(id: usize) -> Vec<u8> {
    let batch = ipc_batch();
    if id == 0 {
        let mut w = arrow_ipc::writer::StreamWriter::try_new(Vec::new(), &batch.schema()).unwrap();
        w.write(&batch).unwrap();
        w.write(&batch.slice(1, 4)).unwrap();
        w.finish().unwrap();
        w.into_inner().unwrap()
    } else {
        let mut w = arrow_ipc::writer::FileWriter::try_new(Vec::new(), &batch.schema()).unwrap();
        w.write(&batch).unwrap();
        w.write(&batch.slice(1, 4)).unwrap();
        w.finish().unwrap();
        w.into_inner().unwrap()
    }
}
fn ipc_file(id: usize) -> Vec<u8> {
    static FILES: std::sync::OnceLock<Vec<Vec<u8>>> = std::sync::OnceLock::new();
    FILES.get_or_init(|| (0..N_IPC).map(build_ipc).collect())[id % N_IPC].clone()
}

fn read_ipc(kind: usize, bytes: Vec<u8>) -> String {
    let mut rows = 0usize;
    let mut check = |b: Result<RecordBatch, arrow_schema::ArrowError>| -> Result<(), String> {
        let b = b.map_err(|_| "ERR".to_string())?;
        validate_batch(&b).map_err(|e| format!("INVALID:{}", e))?;
        rows += b.num_rows();
        if rows > 1_000_000 {
            return Err("INVALID:rows-unbounded".into());
        }
        Ok(())
    };
    if kind == 0 {
        let r = match arrow_ipc::reader::StreamReader::try_new(Cursor::new(bytes), None) {
            Ok(r) => r,
            Err(_) => return "ERR".into(),
        };
        for b in r {
            if let Err(e) = check(b) {
                return e;
            }
        }
    } else {
        let r = match arrow_ipc::reader::FileReader::try_new(Cursor::new(bytes), None) {
            Ok(r) => r,
            Err(_) => return "ERR".into(),
        };
        for b in r {
            if let Err(e) = check(b) {
                return e;
            }
        }
    }
    format!("ok:{}", rows)
}

/// `read_record_batch` on a one-column Int32 batch whose values buffer entry is patched to (off, len)
fn ipcslice(body_len: usize, off: i64, len: i64, rows: usize) -> String {
    let rows = rows.max(1);
    let vals: Int32Array = (0..rows as i32).map(Some).collect();
    let schema = std::sync::Arc::new(Schema::new(vec![Field::new("a", DataType::Int32, false)]));
    let batch = RecordBatch::try_new(schema.clone(), vec![std::sync::Arc::new(vals) as ArrayRef]).unwrap();
    let mut w = arrow_ipc::writer::StreamWriter::try_new(Vec::new(), &schema).unwrap();
    w.write(&batch).unwrap();
    w.finish().unwrap();
    let s = w.into_inner().unwrap();
    // framing: [0xFFFFFFFF][meta_len i32][meta][body] ; first message = schema, second = record batch
    let mut pos = 0usize;
    let mut metas = vec![];
    while pos + 8 <= s.len() {
        let ml = i32::from_le_bytes([s[pos + 4], s[pos + 5], s[pos + 6], s[pos + 7]]) as usize;
        if ml == 0 {
            break;
        }
        let meta = s[pos + 8..pos + 8 + ml].to_vec();
        let msg = arrow_ipc::root_as_message(&meta).unwrap();
        let bl = msg.bodyLength() as usize;
        metas.push(meta);
        pos += 8 + ml + bl;
    }
    let mut meta = metas[1].clone();
    // locate the second entry (the values buffer) of the buffers vector inside the message bytes
    let at = {
        let msg = arrow_ipc::root_as_message(&meta).unwrap();
        let rb = msg.header_as_record_batch().unwrap();
        let bufs = rb.buffers().unwrap();
        if bufs.len() != 2 {
            return format!("harness-error:buffers:{}", bufs.len());
        }
        let p: &arrow_ipc::Buffer = bufs.get(1);
        (p as *const arrow_ipc::Buffer as usize) - (meta.as_ptr() as usize) - 16
    };
    meta[at + 16..at + 24].copy_from_slice(&off.to_le_bytes());
    meta[at + 24..at + 32].copy_from_slice(&len.to_le_bytes());
    let msg = arrow_ipc::root_as_message(&meta).unwrap();
    let rb = msg.header_as_record_batch().unwrap();
    let body = Buffer::from_vec(vec![0u8; body_len]);
    match arrow_ipc::reader::read_record_batch(&body, rb, schema, &HashMap::new(), None, &arrow_ipc::MetadataVersion::V5) {
        Ok(b) => match validate_batch(&b) {
            Ok(()) => "ok".into(),
            Err(e) => format!("INVALID:{}", e),
        },
        Err(_) => "ERR".into(),
    }
}

// ------------------------------------------------------------------ mutations

/// set:<off>:<hex byte>  xor:<off>:<hex mask>  trunc:<len>  splice:<off>:<del>:<hex>
/// le32:<off>:<value>  le64:<off>:<value>  cross:<other>:<src>:<len>:<dst>
fn mutate(mut f: Vec<u8>, spec: &str, other: &dyn Fn(usize) -> Vec<u8>) -> Vec<u8> {
    let t: Vec<&str> = spec.split(':').collect();
    let us = |s: &str| s.parse::<usize>().unwrap_or(0);
    match t[0] {
        "set" => {
            let o = us(t[1]);
            if o < f.len() {
                f[o] = u8::from_str_radix(t[2], 16).unwrap_or(0);
            }
        }
        "xor" => {
            let o = us(t[1]);
            if o < f.len() {
                f[o] ^= u8::from_str_radix(t[2], 16).unwrap_or(0);
            }
        }
        "trunc" => f.truncate(us(t[1])),
        "splice" => {
            let (o, d) = (us(t[1]).min(f.len()), us(t[2]));
            let e = (o + d).min(f.len());
            f.splice(o..e, unhex(t[3]));
        }
        "le32" => {
            let o = us(t[1]);
            let v = t[2].parse::<i64>().unwrap_or(0) as u32;
            if o + 4 <= f.len() {
                f[o..o + 4].copy_from_slice(&v.to_le_bytes());
            }
        }
        "le64" => {
            let o = us(t[1]);
            let v = t[2].parse::<i64>().unwrap_or(0);
            if o + 8 <= f.len() {
                f[o..o + 8].copy_from_slice(&v.to_le_bytes());
            }
        }
        "cross" => {
            let src = other(us(t[1]));
            let (so, l, d) = (us(t[2]), us(t[3]), us(t[4]));
            for i in 0..l {
                if so + i < src.len() && d + i < f.len() {
                    f[d + i] = src[so + i];
                }
            }
        }
        _ => {}
    }
    f
}

fn run_case(line: &str) -> String {
    let t: Vec<&str> = line.split(' ').collect();
    if t.len() < 2 || t[0] != "C08" {
        return "bad-case".into();
    }
    let arg = |i: usize| t.get(i).copied().unwrap_or("-");
    match t[1] {
        "avlq" | "avlqf" => {
            let b = unhex(arg(2));
            let fast = t[1] == "avlqf";
            guarded(move || avlq(&b, fast))
        }
        "ipcslice" => {
            let bl = arg(2).parse::<usize>().unwrap_or(0).min(1 << 20);
            let off = arg(3).parse::<i64>().unwrap_or(0);
            let len = arg(4).parse::<i64>().unwrap_or(0);
            let rows = arg(5).parse::<usize>().unwrap_or(1).min(1 << 16);
            guarded(move || ipcslice(bl, off, len, rows))
        }
        "ipc" => {
            let id = arg(2).trim_start_matches('f').parse::<usize>().unwrap_or(0) % N_IPC;
            let spec = arg(3).to_string();
            guarded(move || read_ipc(id, mutate(ipc_file(id), &spec, &|i| ipc_file(i % N_IPC))))
        }
        "ipcraw" => {
            let kind = if arg(2) == "f" { 1 } else { 0 };
            let b = unhex(arg(3));
            guarded(move || read_ipc(kind, b))
        }
        "ocf" => {
            let id = arg(2).trim_start_matches('f').parse::<usize>().unwrap_or(0) % N_OCF;
            let spec = arg(3).to_string();
            guarded(move || match read_ocf(mutate(ocf_file(id), &spec, &|i| ocf_file(i % N_OCF))) {
                Ok(bs) => format!("ok:{}", bs.iter().map(|b| b.num_rows()).sum::<usize>()),
                Err(e) => e,
            })
        }
        "ocfraw" => {
            let b = unhex(arg(2));
            guarded(move || match read_ocf(b) {
                Ok(bs) => format!("ok:{}", bs.iter().map(|b| b.num_rows()).sum::<usize>()),
                Err(e) => e,
            })
        }
        _ => "bad-op".into(),
    }
}

// ------------------------------------------------------------------ generators

fn uleb(mut v: u64) -> Vec<u8> {
    let mut o = vec![];
    while v >= 0x80 {
        o.push(v as u8 | 0x80);
        v >>= 7;
    }
    o.push(v as u8);
    o
}

fn gen_varint(rng: &mut Rng) -> (Vec<u8>, &'static str) {
    let v = match rng.below(6) {
        0 => rng.below(300),
        1 => 1u64 << rng.below(64),
        2 => (1u64 << rng.below(64)).wrapping_sub(1),
        3 => u64::MAX - rng.below(3),
        4 => rng.next_u64() >> rng.below(64),
        _ => rng.next_u64(),
    };
    let mut b = uleb(v);
    let class = match rng.below(10) {
        0 | 1 | 2 | 3 => "canon",
        4 => {
            let total = b.len() + 1 + rng.usize(12);
            let n = b.len();
            b[n - 1] |= 0x80;
            while b.len() < total - 1 {
                b.push(0x80);
            }
            b.push(0x00);
            "padded"
        }
        5 => {
            let k = rng.usize(b.len());
            b.truncate(k);
            for x in b.iter_mut() {
                *x |= 0x80;
            }
            "truncated"
        }
        6 => {
            let n = 9 + rng.usize(3);
            b = (0..n).map(|_| 0x80 | rng.next_u64() as u8).collect();
            b.push(rng.below(0x80) as u8);
            "overflow"
        }
        7 => {
            let n = rng.usize(14);
            b = vec![0xff; n];
            if rng.bool() {
                b.push(*rng.pick(&[0x00u8, 0x01, 0x02, 0x7f]));
            }
            "ones"
        }
        8 => {
            let n = rng.usize(13);
            b = rng.bytes(n);
            "random"
        }
        _ => {
            let n = rng.usize(4);
            b.extend(rng.bytes(n));
            "trailing"
        }
    };
    (b, class)
}

fn gen_unit(rng: &mut Rng) -> (String, String, usize) {
    match rng.below(3) {
        0 | 1 => {
            let (b, c) = gen_varint(rng);
            let op = if rng.bool() { "avlq" } else { "avlqf" };
            (format!("C08 {} {}", op, hex(&b)), format!("op:{} vc:{} {}", op, c, if b.len() >= 2 { "nt" } else { "" }), b.len())
        }
        _ => {
            let rows = 1 + rng.usize(8);
            let need = rows as i64 * 4;
            let body = *rng.pick(&[0usize, 8, 32, 64, 100]) + rng.usize(9);
            let off = match rng.below(8) {
                0 => -1,
                1 => -8,
                2 => i64::MAX,
                3 => i64::MIN,
                4 => body as i64,
                5 => body as i64 + 8,
                _ => 8 * rng.range(0, 6),
            };
            let len = match rng.below(8) {
                0 => -1,
                1 => i64::MAX,
                2 => i64::MAX - off.max(0) + rng.range(0, 2),
                3 => body as i64 - off.clamp(0, body as i64) + rng.range(0, 1),
                4 => need - 1,
                5 => 0,
                _ => need + 4 * rng.range(0, 4),
            };
            let class = if off < 0 || len < 0 {
                "negative"
            } else if (off as i128 + len as i128) > body as i128 {
                "oob"
            } else if len < need {
                "short"
            } else {
                "fits"
            };
            (format!("C08 ipcslice {} {} {} {}", body, off, len, rows), format!("op:ipcslice sc:{} nt", class), body)
        }
    }
}

fn sweep(args: &Args, rng: &mut Rng) -> Vec<(String, String, usize)> {
    let mut out = vec![];
    let thorough = args.tier == "thorough";
    let kinds: [(&str, usize, fn(usize) -> Vec<u8>); 2] = [("ipc", N_IPC, ipc_file), ("ocf", N_OCF, ocf_file)];
    for (op, nfiles, get) in kinds {
        for id in 0..nfiles {
            let f = get(id);
            let n = f.len();
            let mut push = |spec: String, class: &str, out: &mut Vec<(String, String, usize)>| {
                out.push((format!("C08 {} f{} {}", op, id, spec), format!("op:{} file:{}{} mut:{} nt", op, op, id, class), n));
            };
            push("xor:0:00".into(), "none", &mut out);
            for off in 0..n {
                let vals: &[&str] = if thorough {
                    &["set:ff", "set:00", "xor:01", "xor:80", "set:7f", "xor:10"]
                } else if off % 4 == id % 4 {
                    &["set:ff", "set:00", "xor:01", "xor:80"]
                } else {
                    &["xor:01"]
                };
                for v in vals {
                    let (k, x) = v.split_once(':').unwrap();
                    push(format!("{}:{}:{}", k, off, x), "byte", &mut out);
                }
            }
            let tstride = if thorough { 1 } else { 3 };
            for len in (0..n).step_by(tstride) {
                push(format!("trunc:{}", len), "trunc", &mut out);
            }
            if op == "ipc" {
                // flatbuffer scalars are 4/8-byte little-endian: inflate every aligned word
                let vs64: &[i64] = if thorough { &[-1, i64::MAX, 1 << 40, n as i64, n as i64 * 8] } else { &[-1, i64::MAX, n as i64] };
                for off in (0..n.saturating_sub(8)).step_by(if thorough { 4 } else { 8 }) {
                    for v in vs64 {
                        push(format!("le64:{}:{}", off, v), "inflate-i64", &mut out);
                    }
                }
                let vs32: &[i64] = if thorough { &[-1, 0x7fffffff, n as i64] } else { &[-1, 0x7fffffff] };
                for off in (0..n.saturating_sub(4)).step_by(if thorough { 4 } else { 8 }) {
                    for v in vs32 {
                        push(format!("le32:{}:{}", off, v), "inflate-i32", &mut out);
                    }
                }
            } else {
                // Avro lengths/counts are zig-zag varints: replace every byte by a huge / negative / over-long varint
                for off in (0..n).step_by(if thorough { 1 } else { 2 }) {
                    push(format!("splice:{}:1:feffffffffffffffff01", off), "inflate-varint-i64max", &mut out);
                    push(format!("splice:{}:1:feffffff0f", off), "inflate-varint-i32max", &mut out);
                    push(format!("splice:{}:1:01", off), "negative-varint", &mut out);
                    if thorough || off % 4 == 0 {
                        push(format!("splice:{}:0:ffffffffffffffffffffff", off), "insert-overlong", &mut out);
                        push(format!("splice:{}:1:80808008", off), "inflate-varint-16m", &mut out);
                    }
                }
            }
            let ncross = if thorough { 400 } else { 40 };
            for _ in 0..ncross {
                let other = (id + 1 + rng.usize(nfiles - 1)) % nfiles;
                let l = 1 + rng.usize(64);
                let (a, b) = (rng.usize(n), rng.usize(n));
                push(format!("cross:{}:{}:{}:{}", other, a, l, b), "cross", &mut out);
            }
        }
    }
    out
}

fn witnesses() -> Vec<(String, String, usize)> {
    vec![
        ("C08 ipcslice 8 0 9 1".to_string(), "op:ipcslice witness:ipc-slice-oob nt".to_string(), 8),
        ("C08 ipcslice 8 -1 0 1".to_string(), "op:ipcslice witness:ipc-slice-oob nt".to_string(), 8),
        ("C08 avlqf ffffffffffffffffff01".to_string(), "op:avlqf witness:u64-max nt".to_string(), 10),
        ("C08 avlqf ffffffffffffffffff02".to_string(), "op:avlqf witness:overflow nt".to_string(), 10),
    ]
}

fn main() {
    let argv: Vec<String> = std::env::args().collect();
    if argv.get(1).map(|s| s.as_str()) == Some("worker") {
        worker_main();
        return;
    }
    let args = parse_args();
    let mut sink = Sink::new(&args.out);
    let timeout = Duration::from_secs(if args.tier == "thorough" { 20 } else { 6 });
    let mut w = Worker::spawn(timeout);
    if args.mode == "replay" {
        for line in read_cases(args.replay.as_ref().unwrap()) {
            let n = line.split(' ').last().map(|h| h.len() / 2).unwrap_or(0);
            run_and_record(&mut w, &mut sink, line, "replay", n);
        }
    } else {
        let mut rng = Rng::new(args.seed ^ 0xC08E);
        for (line, tags, n) in witnesses() {
            run_and_record(&mut w, &mut sink, line, &tags, n);
        }
        let n = n_cases(&args, 3000, 100000);
        for _ in 0..n {
            let (line, tags, len) = gen_unit(&mut rng);
            run_and_record(&mut w, &mut sink, line, &tags, len);
        }
        if args.cases.is_none() {
            for (line, tags, len) in sweep(&args, &mut rng) {
                run_and_record(&mut w, &mut sink, line, &tags, len);
            }
        }
    }
    drop(w);
    remove_site_cache();
    sink.finish();
}
