//! C08 correspondence + corruption-search harness, Arrow IPC and Avro side.
//!
//! Case lines:
//!   C08 avlq <hex>                 Avro `read_varint` + zig-zag through an OCF block holding one record {a: long}
//!                                  (the varint is the last thing in the buffer: one-byte and slow paths, fast path only for 10 bytes)
//!   C08 avlqf <hex>                the same with a 12-byte fixed field after it (>= 10 bytes available: `read_varint_array`)
//!                                  answer `ok <i64> <bytes consumed>` / `ERR`; the driver treats both as op `avlq`
//!   C08 ipcslice <body> <off> <len> <rows>   `read_record_batch` of one Int32 column whose values buffer is (off, len)
//!   C08 ipc <file> <mutation>      corrupted IPC stream/file through StreamReader / FileReader     (search only)
//!   C08 ipcraw <s|f> <hex>         the same on explicit bytes                                      (search only)
//!   C08 ocf <file> <mutation>      corrupted Avro object container file through the Avro Reader     (search only)
//!   C08 ocfraw <hex>               the same on explicit bytes                                      (search only)
//!   C08 avrodec <mutation>         single-object-encoded stream (C3 01 + fingerprint + body) through the push `Decoder`, two schemas (search only)
//!   C08 flight <h|b|d|r><i>:<mutation>   corrupted FlightData header/body bytes through FlightRecordBatchStream and flight_data_to_batches
//! Every case runs in a worker process under a watchdog and a capping allocator (c08_infra.rs).
use std::collections::HashMap;
use std::io::Cursor;

use arrow_array::builder::{Int32Builder, ListBuilder, StringDictionaryBuilder};
use arrow_array::types::Int8Type;
use arrow_array::{Array, ArrayRef, BooleanArray, Int32Array, Int64Array, RecordBatch, StringArray, StructArray};
use arrow_buffer::Buffer;
use arrow_schema::{DataType, Field, Schema};
use vcommon::*;

include!("../../../h-parquet/src/c08_infra.rs");

#[global_allocator]
static GLOBAL: CapAlloc = CapAlloc;

fn validate_batch(b: &RecordBatch) -> Result<(), String> {
    for (i, c) in b.columns().iter().enumerate() {
        if c.len() != b.num_rows() {
            return Err(format!("col{}:len", i));
        }
        c.to_data().validate_full().map_err(|e| format!("col{}:{}", i, slug(&e.to_string())))?;
    }
    Ok(())
}

// ------------------------------------------------------------------ Avro

fn zz(v: i64) -> Vec<u8> {
    let mut n = ((v << 1) ^ (v >> 63)) as u64;
    let mut o = vec![];
    while n >= 0x80 {
        o.push(n as u8 | 0x80);
        n >>= 7;
    }
    o.push(n as u8);
    o
}

const SYNC: [u8; 16] = [7, 1, 2, 3, 4, 5, 6, 7, 8, 9, 10, 11, 12, 13, 14, 15];

fn ocf_header(schema_json: &str) -> Vec<u8> {
    let mut f = b"Obj\x01".to_vec();
    f.extend(zz(1));
    f.extend(zz(11));
    f.extend(b"avro.schema");
    f.extend(zz(schema_json.len() as i64));
    f.extend(schema_json.as_bytes());
    f.extend(zz(0));
    f.extend(SYNC);
    f
}

fn read_ocf(bytes: Vec<u8>) -> Result<Vec<RecordBatch>, String> {
    let r = arrow_avro::reader::ReaderBuilder::new().with_batch_size(16).build(Cursor::new(bytes)).map_err(|_| "ERR".to_string())?;
    let mut out = vec![];
    let mut rows = 0usize;
    for b in r {
        let b = b.map_err(|_| "ERR".to_string())?;
        validate_batch(&b).map_err(|e| format!("INVALID:{}", e))?;
        rows += b.num_rows();
        if rows > 1_000_000 {
            return Err("INVALID:rows-unbounded".into());
        }
        out.push(b);
    }
    Ok(out)
}

fn avlq(bytes: &[u8], fast: bool) -> String {
    let schema = if fast {
        r#"{"type":"record","name":"r","fields":[{"name":"a","type":"long"},{"name":"p","type":{"type":"fixed","name":"f","size":12}}]}"#
    } else {
        r#"{"type":"record","name":"r","fields":[{"name":"a","type":"long"}]}"#
    };
    let head = ocf_header(schema);
    for k in 1..=bytes.len() {
        let mut data = bytes[..k].to_vec();
        if fast {
            data.extend([0u8; 12]);
        }
        let mut f = head.clone();
        f.extend(zz(1));
        f.extend(zz(data.len() as i64));
        f.extend(&data);
        f.extend(SYNC);
        if let Ok(bs) = read_ocf(f) {
            if bs.len() == 1 && bs[0].num_rows() == 1 {
                if let Some(a) = bs[0].column(0).as_any().downcast_ref::<Int64Array>() {
                    return format!("ok {} {}", a.value(0), k);
                }
            }
            return "ok-unexpected-shape".into();
        }
    }
    "ERR".into()
}

fn avro_batch() -> RecordBatch {
    let rows = 12;
    let i: Int32Array = (0..rows).map(|i| if i % 5 == 3 { None } else { Some(i * 37 - 3) }).collect();
    let l: Int64Array = (0..rows).map(|i| Some(1_000_000_007i64 * i as i64 - 5)).collect();
    let s: StringArray = (0..rows).map(|i| if i % 7 == 2 { None } else { Some(["a", "bb", "héllo", "", "zzzz"][i as usize % 5]) }).collect();
    let b: BooleanArray = (0..rows).map(|i| Some(i % 3 == 0)).collect();
    let mut lb = ListBuilder::new(Int32Builder::new());
    for i in 0..rows {
        for j in 0..(i % 3) {
            lb.values().append_value(i + j);
        }
        lb.append(true);
    }
    RecordBatch::try_from_iter_with_nullable(vec![
        ("i", std::sync::Arc::new(i) as ArrayRef, true),
        ("l", std::sync::Arc::new(l) as ArrayRef, false),
        ("s", std::sync::Arc::new(s) as ArrayRef, true),
        ("b", std::sync::Arc::new(b) as ArrayRef, false),
        ("li", std::sync::Arc::new(lb.finish()) as ArrayRef, false),
    ])
    .unwrap()
}

/// a second schema: the Avro types the first one lacks (float/double, bytes, fixed, decimal,
/// date/time/timestamp logical types, enum-like dictionary, nested record, map, uuid-free)
fn avro_batch_rich() -> RecordBatch {
    use arrow_array::builder::{MapBuilder, StringBuilder};
    use arrow_array::{BinaryArray, Date32Array, Decimal128Array, FixedSizeBinaryArray, Float32Array, Float64Array, Time32MillisecondArray, TimestampMicrosecondArray};
    let rows = 9usize;
    let f32s: Float32Array = (0..rows).map(|i| Some(i as f32 * 0.5)).collect();
    let f64s: Float64Array = (0..rows).map(|i| if i % 4 == 1 { None } else { Some(i as f64 * -1.25e100) }).collect();
    let bins: BinaryArray = (0..rows).map(|i| if i % 3 == 2 { None } else { Some(vec![i as u8; i % 4]) }).collect();
    let fixed = FixedSizeBinaryArray::try_from_iter((0..rows).map(|i| vec![i as u8; 5])).unwrap();
    let dec = Decimal128Array::from_iter_values((0..rows).map(|i| i as i128 * 1_000_003 - 7)).with_precision_and_scale(20, 3).unwrap();
    let d32: Date32Array = (0..rows).map(|i| Some(i as i32 * 365 - 1000)).collect();
    let t32 = Time32MillisecondArray::from_iter_values((0..rows).map(|i| i as i32 * 1000));
    let ts = TimestampMicrosecondArray::from_iter_values((0..rows).map(|i| i as i64 * 1_000_000_007)).with_timezone("+00:00");
    let x: Int64Array = (0..rows).map(|i| Some(i as i64)).collect();
    let y: StringArray = (0..rows).map(|i| if i % 2 == 0 { Some("yy") } else { None }).collect();
    let st = StructArray::from(vec![
        (std::sync::Arc::new(Field::new("x", DataType::Int64, true)), std::sync::Arc::new(x) as ArrayRef),
        (std::sync::Arc::new(Field::new("y", DataType::Utf8, true)), std::sync::Arc::new(y) as ArrayRef),
    ]);
    let mut mb = MapBuilder::new(None, StringBuilder::new(), Int32Builder::new());
    for i in 0..rows {
        for j in 0..(i % 3) {
            mb.keys().append_value(format!("k{}", j));
            mb.values().append_value((i + j) as i32);
        }
        mb.append(true).unwrap();
    }
    RecordBatch::try_from_iter_with_nullable(vec![
        ("f32", std::sync::Arc::new(f32s) as ArrayRef, false),
        ("f64", std::sync::Arc::new(f64s) as ArrayRef, true),
        ("bin", std::sync::Arc::new(bins) as ArrayRef, true),
        ("fx", std::sync::Arc::new(fixed) as ArrayRef, false),
        ("dec", std::sync::Arc::new(dec) as ArrayRef, false),
        ("d", std::sync::Arc::new(d32) as ArrayRef, true),
        ("t", std::sync::Arc::new(t32) as ArrayRef, false),
        ("ts", std::sync::Arc::new(ts) as ArrayRef, false),
        ("st", std::sync::Arc::new(st) as ArrayRef, false),
        ("m", std::sync::Arc::new(mb.finish()) as ArrayRef, false),
    ])
    .unwrap()
}

/// hand-encoded OCF for the Avro shapes the Arrow writer does not produce: enum, a three-way
/// union, arrays written in several blocks including a negative block count with a byte size,
/// a map, and a default-less nested record
fn build_ocf_handmade() -> Vec<u8> {
    let schema = r#"{"type":"record","name":"r","fields":[{"name":"e","type":{"type":"enum","name":"c","symbols":["A","B","C"]}},{"name":"u","type":["null","int","string"]},{"name":"arr","type":{"type":"array","items":"long"}},{"name":"m","type":{"type":"map","values":"int"}},{"name":"n","type":{"type":"record","name":"n","fields":[{"name":"f","type":"float"},{"name":"b","type":"bytes"}]}}]}"#;
    let mut f = ocf_header(schema);
    let mut data = vec![];
    let rows = 6i64;
    for i in 0..rows {
        data.extend(zz(i % 3)); // enum index
        match i % 3 {
            0 => data.extend(zz(0)),
            1 => {
                data.extend(zz(1));
                data.extend(zz(i * 1000 - 7));
            }
            _ => {
                data.extend(zz(2));
                data.extend(zz(2));
                data.extend(b"hi");
            }
        }
        // array: one positive block, one negative-count block (with byte size), terminator
        data.extend(zz(2));
        data.extend(zz(i));
        data.extend(zz(-i));
        let items = [zz(1 << 40), zz(-1)].concat();
        data.extend(zz(-2));
        data.extend(zz(items.len() as i64));
        data.extend(items);
        data.extend(zz(0));
        // map with one entry
        data.extend(zz(1));
        data.extend(zz(1));
        data.extend(b"k");
        data.extend(zz(i));
        data.extend(zz(0));
        // nested record: float + bytes
        data.extend((i as f32).to_le_bytes());
        data.extend(zz(3));
        data.extend([1u8, 2, 3]);
    }
    f.extend(zz(rows));
    f.extend(zz(data.len() as i64));
    f.extend(&data);
    f.extend(SYNC);
    assert!(read_ocf(f.clone()).is_ok(), "hand-made OCF does not read back");
    f
}

const N_OCF: usize = 8;
fn build_ocf(id: usize) -> Vec<u8> {
    if id == 7 {
        return build_ocf_handmade();
    }
    use arrow_avro::compression::CompressionCodec;
    let batch = if id == 3 { avro_batch_rich() } else { avro_batch() };
    let codec = match id {
        0 | 3 => None,
        1 => Some(CompressionCodec::Deflate),
        2 => Some(CompressionCodec::Snappy),
        4 => Some(CompressionCodec::ZStandard),
        5 => Some(CompressionCodec::Bzip2),
        _ => Some(CompressionCodec::Xz),
    };
    let mut w = arrow_avro::writer::WriterBuilder::new(batch.schema().as_ref().clone())
        .with_compression(codec)
        .build::<_, arrow_avro::writer::format::AvroOcfFormat>(Vec::new())
        .unwrap();
    w.write(&batch).unwrap();
    w.write(&batch.slice(2, 5)).unwrap();
    w.finish().unwrap();
    let out = w.into_inner();
    // the base file itself must read back
    assert!(read_ocf(out.clone()).is_ok(), "base OCF {} does not read back", id);
    out
}
fn ocf_file(id: usize) -> Vec<u8> {
    static FILES: std::sync::OnceLock<Vec<Vec<u8>>> = std::sync::OnceLock::new();
    FILES.get_or_init(|| (0..N_OCF).map(build_ocf).collect())[id % N_OCF].clone()
}

// ------------------------------------------------------------------ IPC

fn ipc_batch() -> RecordBatch {
    let rows = 10;
    let i: Int32Array = (0..rows).map(|i| if i % 5 == 3 { None } else { Some(i * 37 - 3) }).collect();
    let s: StringArray = (0..rows).map(|i| if i % 7 == 2 { None } else { Some(["a", "bb", "héllo", "", "zzzz"][i as usize % 5]) }).collect();
    let b: BooleanArray = (0..rows).map(|i| Some(i % 3 == 0)).collect();
    let mut lb = ListBuilder::new(Int32Builder::new());
    for i in 0..rows {
        if i % 4 == 1 {
            lb.append(false);
        } else {
            for j in 0..(i % 3) {
                lb.values().append_value(i + j);
            }
            lb.append(true);
        }
    }
    let mut db = StringDictionaryBuilder::<Int8Type>::new();
    for i in 0..rows {
        db.append_value(["x", "yy", "zzz"][i as usize % 3]);
    }
    let x: Int64Array = (0..rows).map(|i| Some(i as i64 * 1_000_003)).collect();
    let st = StructArray::from(vec![(std::sync::Arc::new(Field::new("x", DataType::Int64, true)), std::sync::Arc::new(x) as ArrayRef)]);
    RecordBatch::try_from_iter_with_nullable(vec![
        ("i", std::sync::Arc::new(i) as ArrayRef, true),
        ("s", std::sync::Arc::new(s) as ArrayRef, true),
        ("b", std::sync::Arc::new(b) as ArrayRef, false),
        ("li", std::sync::Arc::new(lb.finish()) as ArrayRef, true),
        ("d", std::sync::Arc::new(db.finish()) as ArrayRef, false),
        ("st", std::sync::Arc::new(st) as ArrayRef, false),
    ])
    .unwrap()
}

/// the layouts the first batch lacks: views (variadic buffers), dense and sparse unions, map,
/// fixed-size list / binary, run-end encoded, decimals, large offsets, null type
fn ipc_batch_rich() -> RecordBatch {
    use arrow_array::builder::{FixedSizeListBuilder, LargeListBuilder, MapBuilder, StringBuilder, StringViewBuilder};
    use arrow_array::{Decimal128Array, FixedSizeBinaryArray, LargeStringArray, NullArray, RunArray, UnionArray};
    use arrow_buffer::ScalarBuffer;
    use arrow_schema::{UnionFields, UnionMode};
    let rows = 8usize;
    let mut sv = StringViewBuilder::new();
    for i in 0..rows {
        if i % 3 == 1 {
            sv.append_null();
        } else {
            sv.append_value(["short", "a string that is longer than twelve bytes", "", "exactly12byt", "thirteen byte"][i % 5]);
        }
    }
    let ints: Int32Array = (0..rows as i32).map(Some).collect();
    let strs: StringArray = (0..rows).map(|i| Some(["p", "qq"][i % 2])).collect();
    let uf = UnionFields::try_new(vec![0, 1], vec![Field::new("i", DataType::Int32, true), Field::new("s", DataType::Utf8, true)]).unwrap();
    let type_ids: ScalarBuffer<i8> = (0..rows).map(|i| (i % 2) as i8).collect();
    let sparse = UnionArray::try_new(uf.clone(), type_ids.clone(), None, vec![std::sync::Arc::new(ints.clone()) as ArrayRef, std::sync::Arc::new(strs.clone()) as ArrayRef]).unwrap();
    let offsets: ScalarBuffer<i32> = (0..rows).map(|i| (i / 2) as i32).collect();
    let dense = UnionArray::try_new(uf, type_ids, Some(offsets), vec![std::sync::Arc::new(ints.slice(0, 4)) as ArrayRef, std::sync::Arc::new(strs.slice(0, 4)) as ArrayRef]).unwrap();
    let mut mb = MapBuilder::new(None, StringBuilder::new(), Int32Builder::new());
    for i in 0..rows {
        for j in 0..(i % 3) {
            mb.keys().append_value(format!("k{}", j));
            mb.values().append_value((i + j) as i32);
        }
        mb.append(i % 4 != 3).unwrap();
    }
    let mut fsl = FixedSizeListBuilder::new(Int32Builder::new(), 2);
    for i in 0..rows {
        fsl.values().append_value(i as i32);
        fsl.values().append_value(-(i as i32));
        fsl.append(i % 5 != 2);
    }
    let fsb = FixedSizeBinaryArray::try_from_iter((0..rows).map(|i| vec![i as u8; 3])).unwrap();
    let run_ends = Int32Array::from(vec![3, 5, 8]);
    let run_vals = StringArray::from(vec![Some("r1"), None, Some("r3")]);
    let ree = RunArray::<arrow_array::types::Int32Type>::try_new(&run_ends, &run_vals).unwrap();
    let dec = Decimal128Array::from_iter_values((0..rows).map(|i| i as i128 * 1_000_003 - 7)).with_precision_and_scale(20, 3).unwrap();
    let ls: LargeStringArray = (0..rows).map(|i| if i % 4 == 0 { None } else { Some("large") }).collect();
    let mut ll = LargeListBuilder::new(Int32Builder::new());
    for i in 0..rows {
        for j in 0..(i % 3) {
            ll.values().append_value((i + j) as i32);
        }
        ll.append(true);
    }
    RecordBatch::try_from_iter_with_nullable(vec![
        ("sv", std::sync::Arc::new(sv.finish()) as ArrayRef, true),
        ("us", std::sync::Arc::new(sparse) as ArrayRef, false),
        ("ud", std::sync::Arc::new(dense) as ArrayRef, false),
        ("m", std::sync::Arc::new(mb.finish()) as ArrayRef, true),
        ("fsl", std::sync::Arc::new(fsl.finish()) as ArrayRef, true),
        ("fsb", std::sync::Arc::new(fsb) as ArrayRef, false),
        ("ree", std::sync::Arc::new(ree) as ArrayRef, true),
        ("dec", std::sync::Arc::new(dec) as ArrayRef, false),
        ("ls", std::sync::Arc::new(ls) as ArrayRef, true),
        ("ll", std::sync::Arc::new(ll.finish()) as ArrayRef, false),
        ("nul", std::sync::Arc::new(NullArray::new(rows)) as ArrayRef, true),
    ])
    .unwrap()
}

const N_IPC: usize = 4;
/// 0 = stream format, 1 = file format; 2 / 3 = the same with the second set of types
fn build_ipc(id: usize) -> Vec<u8> {
    let batch = if id >= 2 { ipc_batch_rich() } else { ipc_batch() };
    let id = id % 2;
    if id == 0 {
        let mut w = arrow_ipc::writer::StreamWriter::try_new(Vec::new(), &batch.schema()).unwrap();
        w.write(&batch).unwrap();
        w.write(&batch.slice(1, 4)).unwrap();
        w.finish().unwrap();
        w.into_inner().unwrap()
    } else {
        let mut w = arrow_ipc::writer::FileWriter::try_new(Vec::new(), &batch.schema()).unwrap();
        w.write(&batch).unwrap();
        w.write(&batch.slice(1, 4)).unwrap();
        w.finish().unwrap();
        w.into_inner().unwrap()
    }
}
fn ipc_file(id: usize) -> Vec<u8> {
    static FILES: std::sync::OnceLock<Vec<Vec<u8>>> = std::sync::OnceLock::new();
    FILES.get_or_init(|| (0..N_IPC).map(build_ipc).collect())[id % N_IPC].clone()
}

fn drain_batches<I: Iterator<Item = Result<RecordBatch, arrow_schema::ArrowError>>>(it: I) -> Result<usize, String> {
    let mut rows = 0usize;
    for b in it {
        let b = b.map_err(|_| "ERR".to_string())?;
        validate_batch(&b).map_err(|e| format!("INVALID:{}", e))?;
        rows += b.num_rows();
        if rows > 1_000_000 {
            return Err("INVALID:rows-unbounded".into());
        }
    }
    Ok(rows)
}

/// second entry point to the same format: the push-based `StreamDecoder`, fed in chunks
fn read_stream_decoder(bytes: &[u8], chunk: usize) -> String {
    let mut d = arrow_ipc::reader::StreamDecoder::new();
    let mut rows = 0usize;
    let mut steps = 0usize;
    for c in bytes.chunks(chunk.max(1)) {
        let mut b = Buffer::from(c.to_vec());
        while !b.is_empty() {
            steps += 1;
            if steps > 1_000_000 {
                return "INVALID:decoder-no-progress".into();
            }
            match d.decode(&mut b) {
                Ok(Some(rb)) => {
                    if let Err(e) = validate_batch(&rb) {
                        return format!("INVALID:{}", e);
                    }
                    rows += rb.num_rows();
                }
                Ok(None) => {}
                Err(_) => return "ERR".into(),
            }
        }
    }
    match d.finish() {
        Ok(()) => format!("ok:{}", rows),
        Err(_) => "ERR".into(),
    }
}

fn read_ipc(kind: usize, bytes: Vec<u8>) -> String {
    // further entry points over the same bytes: schema-only decoding, projected readers, random access
    let _ = arrow_ipc::convert::try_schema_from_ipc_buffer(&bytes);
    if bytes.len() > 8 {
        let _ = arrow_ipc::convert::try_schema_from_flatbuffer_bytes(&bytes[8..]);
    }
    {
        let proj = Some(vec![1usize, 3]);
        let r: Result<usize, String> = if kind == 0 {
            match arrow_ipc::reader::StreamReader::try_new(Cursor::new(bytes.clone()), proj) {
                Ok(r) => drain_batches(r),
                Err(_) => Err("ERR".into()),
            }
        } else {
            match arrow_ipc::reader::FileReader::try_new(Cursor::new(bytes.clone()), proj) {
                Ok(mut r) => {
                    // random access to the last batch first, then the rest
                    let n = r.num_batches();
                    if n > 0 && r.set_index(n - 1).is_err() {
                        Err("ERR".into())
                    } else {
                        drain_batches(r)
                    }
                }
                Err(_) => Err("ERR".into()),
            }
        };
        if let Err(e) = r {
            if e.starts_with("INVALID") {
                return e;
            }
        }
    }
    if kind == 0 {
        // all three must be safe; the reader's verdict is the answer
        for chunk in [usize::MAX, 13] {
            let a = read_stream_decoder(&bytes, chunk.min(bytes.len().max(1)));
            if a.starts_with("INVALID") {
                return a;
            }
        }
    }
    let mut rows = 0usize;
    let mut check = |b: Result<RecordBatch, arrow_schema::ArrowError>| -> Result<(), String> {
        let b = b.map_err(|_| "ERR".to_string())?;
        validate_batch(&b).map_err(|e| format!("INVALID:{}", e))?;
        rows += b.num_rows();
        if rows > 1_000_000 {
            return Err("INVALID:rows-unbounded".into());
        }
        Ok(())
    };
    if kind == 0 {
        let r = match arrow_ipc::reader::StreamReader::try_new(Cursor::new(bytes), None) {
            Ok(r) => r,
            Err(_) => return "ERR".into(),
        };
        for b in r {
            if let Err(e) = check(b) {
                return e;
            }
        }
    } else {
        let r = match arrow_ipc::reader::FileReader::try_new(Cursor::new(bytes), None) {
            Ok(r) => r,
            Err(_) => return "ERR".into(),
        };
        for b in r {
            if let Err(e) = check(b) {
                return e;
            }
        }
    }
    format!("ok:{}", rows)
}

/// `read_record_batch` on a one-column Int32 batch whose values buffer entry is patched to (off, len)
fn ipcslice(body_len: usize, off: i64, len: i64, rows: usize) -> String {
    let rows = rows.max(1);
    let vals: Int32Array = (0..rows as i32).map(Some).collect();
    let schema = std::sync::Arc::new(Schema::new(vec![Field::new("a", DataType::Int32, false)]));
    let batch = RecordBatch::try_new(schema.clone(), vec![std::sync::Arc::new(vals) as ArrayRef]).unwrap();
    let mut w = arrow_ipc::writer::StreamWriter::try_new(Vec::new(), &schema).unwrap();
    w.write(&batch).unwrap();
    w.finish().unwrap();
    let s = w.into_inner().unwrap();
    // framing: [0xFFFFFFFF][meta_len i32][meta][body] ; first message = schema, second = record batch
    let mut pos = 0usize;
    let mut metas = vec![];
    while pos + 8 <= s.len() {
        let ml = i32::from_le_bytes([s[pos + 4], s[pos + 5], s[pos + 6], s[pos + 7]]) as usize;
        if ml == 0 {
            break;
        }
        let meta = s[pos + 8..pos + 8 + ml].to_vec();
        let msg = arrow_ipc::root_as_message(&meta).unwrap();
        let bl = msg.bodyLength() as usize;
        metas.push(meta);
        pos += 8 + ml + bl;
    }
    let mut meta = metas[1].clone();
    // locate the second entry (the values buffer) of the buffers vector inside the message bytes
    let at = {
        let msg = arrow_ipc::root_as_message(&meta).unwrap();
        let rb = msg.header_as_record_batch().unwrap();
        let bufs = rb.buffers().unwrap();
        if bufs.len() != 2 {
            return format!("harness-error:buffers:{}", bufs.len());
        }
        let p: &arrow_ipc::Buffer = bufs.get(1);
        (p as *const arrow_ipc::Buffer as usize) - (meta.as_ptr() as usize) - 16
    };
    meta[at + 16..at + 24].copy_from_slice(&off.to_le_bytes());
    meta[at + 24..at + 32].copy_from_slice(&len.to_le_bytes());
    let msg = arrow_ipc::root_as_message(&meta).unwrap();
    let rb = msg.header_as_record_batch().unwrap();
    let body = Buffer::from_vec(vec![0u8; body_len]);
    match arrow_ipc::reader::read_record_batch(&body, rb, schema, &HashMap::new(), None, &arrow_ipc::MetadataVersion::V5) {
        Ok(b) => match validate_batch(&b) {
            Ok(()) => "ok".into(),
            Err(e) => format!("INVALID:{}", e),
        },
        Err(_) => "ERR".into(),
    }
}

// ------------------------------------------------------------------ Avro streaming decoder (single-object encoding)

const SOE_SCHEMAS: [&str; 2] = [
    r#"{"type":"record","name":"r","fields":[{"name":"a","type":"long"},{"name":"s","type":"string"},{"name":"n","type":["null","int"]}]}"#,
    r#"{"type":"record","name":"r","fields":[{"name":"a","type":"long"},{"name":"s","type":"string"},{"name":"n","type":["null","int"]},{"name":"x","type":{"type":"array","items":"double"}}]}"#,
];

fn soe_store() -> (arrow_avro::schema::SchemaStore, Vec<u64>) {
    use arrow_avro::schema::{AvroSchema, Fingerprint, SchemaStore};
    let mut store = SchemaStore::new();
    let mut fps = vec![];
    for s in SOE_SCHEMAS {
        match store.register(AvroSchema::new(s.to_string())).unwrap() {
            Fingerprint::Rabin(v) => fps.push(v),
            _ => fps.push(0),
        }
    }
    (store, fps)
}

/// six messages: four with the first schema, two with the second (a schema switch mid-stream)
fn soe_base() -> Vec<u8> {
    let (_, fps) = soe_store();
    let mut out = vec![];
    for i in 0..6i64 {
        let which = if i >= 4 { 1 } else { 0 };
        out.extend([0xC3, 0x01]);
        out.extend(fps[which].to_le_bytes());
        out.extend(zz(i * 1_000_003 - 2));
        let s = ["a", "héllo", "", "zzzz"][i as usize % 4];
        out.extend(zz(s.len() as i64));
        out.extend(s.as_bytes());
        if i % 2 == 0 {
            out.extend(zz(0));
        } else {
            out.extend(zz(1));
            out.extend(zz(i));
        }
        if which == 1 {
            out.extend(zz(2));
            out.extend(1.5f64.to_le_bytes());
            out.extend((-2.5f64).to_le_bytes());
            out.extend(zz(0));
        }
    }
    out
}

fn read_soe(bytes: &[u8]) -> String {
    use arrow_avro::schema::Fingerprint;
    let mut verdicts = vec![];
    for chunk in [usize::MAX, 5] {
        let (store, fps) = soe_store();
        let mut d = match arrow_avro::reader::ReaderBuilder::new()
            .with_batch_size(3)
            .with_writer_schema_store(store)
            .with_active_fingerprint(Fingerprint::Rabin(fps[0]))
            .build_decoder()
        {
            Ok(d) => d,
            Err(_) => return "harness-error:decoder".into(),
        };
        let mut rows = 0usize;
        let mut pending: Vec<u8> = vec![];
        let mut verdict = String::new();
        'outer: for c in bytes.chunks(chunk.min(bytes.len().max(1))) {
            pending.extend_from_slice(c);
            let mut steps = 0;
            loop {
                steps += 1;
                if steps > 100_000 {
                    return "INVALID:decoder-no-progress".into();
                }
                let n = match d.decode(&pending) {
                    Ok(n) => n,
                    Err(e) => {
                        if std::env::var("VERIF_LOUD").is_ok() {
                            eprintln!("avrodec error: {}", e);
                        }
                        verdict = "ERR".into();
                        break 'outer;
                    }
                };
                pending.drain(..n);
                if d.batch_is_full() {
                    match d.flush() {
                        Ok(Some(b)) => {
                            if let Err(e) = validate_batch(&b) {
                                return format!("INVALID:{}", e);
                            }
                            rows += b.num_rows();
                        }
                        Ok(None) => {}
                        Err(_) => {
                            verdict = "ERR".into();
                            break 'outer;
                        }
                    }
                } else if n == 0 || pending.is_empty() {
                    break;
                }
            }
        }
        if verdict.is_empty() {
            match d.flush() {
                Ok(Some(b)) => {
                    if let Err(e) = validate_batch(&b) {
                        return format!("INVALID:{}", e);
                    }
                    rows += b.num_rows();
                    verdict = format!("ok:{}", rows);
                }
                Ok(None) => verdict = format!("ok:{}", rows),
                Err(_) => verdict = "ERR".into(),
            }
        }
        verdicts.push(verdict);
    }
    verdicts.join("/")
}

// ------------------------------------------------------------------ Flight

fn flight_base() -> Vec<(Vec<u8>, Vec<u8>)> {
    static F: std::sync::OnceLock<Vec<(Vec<u8>, Vec<u8>)>> = std::sync::OnceLock::new();
    F.get_or_init(|| {
        let batch = ipc_batch();
        use futures::TryStreamExt;
        let input = futures::stream::iter(vec![Ok(batch.clone()), Ok(batch.slice(1, 4))]);
        let enc = arrow_flight::encode::FlightDataEncoderBuilder::new()
            .with_dictionary_handling(arrow_flight::encode::DictionaryHandling::Resend)
            .build(input);
        let fd: Vec<arrow_flight::FlightData> = futures::executor::block_on(enc.try_collect()).unwrap();
        fd.into_iter().map(|d| (d.data_header.to_vec(), d.data_body.to_vec())).collect()
    })
    .clone()
}

/// `<h|b><message index>:<mutation>` mutates the header or body bytes of one FlightData message
fn read_flight(spec: &str) -> String {
    use futures::TryStreamExt;
    let mut msgs = flight_base();
    if let Some((target, m)) = spec.split_once(':') {
        let (part, idx) = target.split_at(1);
        let idx = idx.parse::<usize>().unwrap_or(0) % msgs.len();
        let other = |i: usize| {
            let b = flight_base();
            let (h, bd) = b[i % b.len()].clone();
            [h, bd].concat()
        };
        if part == "h" {
            msgs[idx].0 = mutate(std::mem::take(&mut msgs[idx].0), m, &other);
        } else if part == "b" {
            msgs[idx].1 = mutate(std::mem::take(&mut msgs[idx].1), m, &other);
        } else if part == "d" {
            msgs.remove(idx); // drop a message (e.g. the schema or a dictionary batch)
        } else if part == "r" {
            let x = msgs[idx].clone();
            msgs.push(x); // replay a message at the end
        }
    }
    let fds: Vec<arrow_flight::FlightData> = msgs
        .into_iter()
        .map(|(h, b)| arrow_flight::FlightData { data_header: h.into(), data_body: b.into(), ..Default::default() })
        .collect();
    // entry point 1: the async decoder
    let stream = futures::stream::iter(fds.clone().into_iter().map(Ok::<_, arrow_flight::error::FlightError>));
    let s = arrow_flight::decode::FlightRecordBatchStream::new_from_flight_data(stream);
    let r: Result<Vec<RecordBatch>, _> = futures::executor::block_on(s.try_collect());
    let a = match r {
        Err(_) => "ERR".to_string(),
        Ok(bs) => {
            for b in &bs {
                if let Err(e) = validate_batch(b) {
                    return format!("INVALID:{}", e);
                }
            }
            format!("ok:{}", bs.iter().map(|b| b.num_rows()).sum::<usize>())
        }
    };
    // entry point 2: the synchronous helper
    match arrow_flight::utils::flight_data_to_batches(&fds) {
        Err(_) => format!("{}/ERR", a),
        Ok(bs) => {
            for b in &bs {
                if let Err(e) = validate_batch(b) {
                    return format!("INVALID:{}", e);
                }
            }
            format!("{}/ok:{}", a, bs.iter().map(|b| b.num_rows()).sum::<usize>())
        }
    }
}

// ------------------------------------------------------------------ mutations

/// set:<off>:<hex byte>  xor:<off>:<hex mask>  trunc:<len>  splice:<off>:<del>:<hex>
/// le32:<off>:<value>  le64:<off>:<value>  cross:<other>:<src>:<len>:<dst>
fn mutate(mut f: Vec<u8>, spec: &str, other: &dyn Fn(usize) -> Vec<u8>) -> Vec<u8> {
    let t: Vec<&str> = spec.split(':').collect();
    let us = |s: &str| s.parse::<usize>().unwrap_or(0);
    match t[0] {
        "set" => {
            let o = us(t[1]);
            if o < f.len() {
                f[o] = u8::from_str_radix(t[2], 16).unwrap_or(0);
            }
        }
        "xor" => {
            let o = us(t[1]);
            if o < f.len() {
                f[o] ^= u8::from_str_radix(t[2], 16).unwrap_or(0);
            }
        }
        "trunc" => f.truncate(us(t[1])),
        "splice" => {
            let (o, d) = (us(t[1]).min(f.len()), us(t[2]));
            let e = (o + d).min(f.len());
            f.splice(o..e, unhex(t[3]));
        }
        "le32" => {
            let o = us(t[1]);
            let v = t[2].parse::<i64>().unwrap_or(0) as u32;
            if o + 4 <= f.len() {
                f[o..o + 4].copy_from_slice(&v.to_le_bytes());
            }
        }
        "le64" => {
            let o = us(t[1]);
            let v = t[2].parse::<i64>().unwrap_or(0);
            if o + 8 <= f.len() {
                f[o..o + 8].copy_from_slice(&v.to_le_bytes());
            }
        }
        "cross" => {
            let src = other(us(t[1]));
            let (so, l, d) = (us(t[2]), us(t[3]), us(t[4]));
            for i in 0..l {
                if so + i < src.len() && d + i < f.len() {
                    f[d + i] = src[so + i];
                }
            }
        }
        _ => {}
    }
    f
}

fn run_case(line: &str) -> String {
    let t: Vec<&str> = line.split(' ').collect();
    if t.len() < 2 || t[0] != "C08" {
        return "bad-case".into();
    }
    let arg = |i: usize| t.get(i).copied().unwrap_or("-");
    match t[1] {
        "avlq" | "avlqf" => {
            let b = unhex(arg(2));
            let fast = t[1] == "avlqf";
            guarded(move || avlq(&b, fast))
        }
        "ipcslice" => {
            let bl = arg(2).parse::<usize>().unwrap_or(0).min(1 << 20);
            let off = arg(3).parse::<i64>().unwrap_or(0);
            let len = arg(4).parse::<i64>().unwrap_or(0);
            let rows = arg(5).parse::<usize>().unwrap_or(1).min(1 << 16);
            guarded(move || ipcslice(bl, off, len, rows))
        }
        "ipc" => {
            let id = arg(2).trim_start_matches('f').parse::<usize>().unwrap_or(0) % N_IPC;
            let spec = arg(3).to_string();
            guarded(move || read_ipc(id % 2, mutate(ipc_file(id), &spec, &|i| ipc_file(i % N_IPC))))
        }
        "ipcraw" => {
            let kind = if arg(2) == "f" { 1 } else { 0 };
            let b = unhex(arg(3));
            guarded(move || read_ipc(kind, b))
        }
        "ocf" => {
            let id = arg(2).trim_start_matches('f').parse::<usize>().unwrap_or(0) % N_OCF;
            let spec = arg(3).to_string();
            guarded(move || match read_ocf(mutate(ocf_file(id), &spec, &|i| ocf_file(i % N_OCF))) {
                Ok(bs) => format!("ok:{}", bs.iter().map(|b| b.num_rows()).sum::<usize>()),
                Err(e) => e,
            })
        }
        "avrodec" => {
            let spec = arg(2).to_string();
            guarded(move || read_soe(&mutate(soe_base(), &spec, &|_| soe_base())))
        }
        "flight" => {
            let spec = arg(2).to_string();
            guarded(move || read_flight(&spec))
        }
        "ocfraw" => {
            let b = unhex(arg(2));
            guarded(move || match read_ocf(b) {
                Ok(bs) => format!("ok:{}", bs.iter().map(|b| b.num_rows()).sum::<usize>()),
                Err(e) => e,
            })
        }
        _ => "bad-op".into(),
    }
}

// ------------------------------------------------------------------ generators

fn uleb(mut v: u64) -> Vec<u8> {
    let mut o = vec![];
    while v >= 0x80 {
        o.push(v as u8 | 0x80);
        v >>= 7;
    }
    o.push(v as u8);
    o
}

fn gen_varint(rng: &mut Rng) -> (Vec<u8>, &'static str) {
    let v = match rng.below(6) {
        0 => rng.below(300),
        1 => 1u64 << rng.below(64),
        2 => (1u64 << rng.below(64)).wrapping_sub(1),
        3 => u64::MAX - rng.below(3),
        4 => rng.next_u64() >> rng.below(64),
        _ => rng.next_u64(),
    };
    let mut b = uleb(v);
    let class = match rng.below(10) {
        0 | 1 | 2 | 3 => "canon",
        4 => {
            let total = b.len() + 1 + rng.usize(12);
            let n = b.len();
            b[n - 1] |= 0x80;
            while b.len() < total - 1 {
                b.push(0x80);
            }
            b.push(0x00);
            "padded"
        }
        5 => {
            let k = rng.usize(b.len());
            b.truncate(k);
            for x in b.iter_mut() {
                *x |= 0x80;
            }
            "truncated"
        }
        6 => {
            let n = 9 + rng.usize(3);
            b = (0..n).map(|_| 0x80 | rng.next_u64() as u8).collect();
            b.push(rng.below(0x80) as u8);
            "overflow"
        }
        7 => {
            let n = rng.usize(14);
            b = vec![0xff; n];
            if rng.bool() {
                b.push(*rng.pick(&[0x00u8, 0x01, 0x02, 0x7f]));
            }
            "ones"
        }
        8 => {
            let n = rng.usize(13);
            b = rng.bytes(n);
            "random"
        }
        _ => {
            let n = rng.usize(4);
            b.extend(rng.bytes(n));
            "trailing"
        }
    };
    (b, class)
}

fn gen_unit(rng: &mut Rng) -> (String, String, usize) {
    match rng.below(3) {
        0 | 1 => {
            let (b, c) = gen_varint(rng);
            let op = if rng.bool() { "avlq" } else { "avlqf" };
            (format!("C08 {} {}", op, hex(&b)), format!("op:{} vc:{} {}", op, c, if b.len() >= 2 { "nt" } else { "" }), b.len())
        }
        _ => {
            let rows = 1 + rng.usize(8);
            let need = rows as i64 * 4;
            let body = *rng.pick(&[0usize, 8, 32, 64, 100]) + rng.usize(9);
            let off = match rng.below(8) {
                0 => -1,
                1 => -8,
                2 => i64::MAX,
                3 => i64::MIN,
                4 => body as i64,
                5 => body as i64 + 8,
                _ => 8 * rng.range(0, 6),
            };
            let len = match rng.below(8) {
                0 => -1,
                1 => i64::MAX,
                2 => i64::MAX - off.max(0) + rng.range(0, 2),
                3 => body as i64 - off.clamp(0, body as i64) + rng.range(0, 1),
                4 => need - 1,
                5 => 0,
                _ => need + 4 * rng.range(0, 4),
            };
            let class = if off < 0 || len < 0 {
                "negative"
            } else if (off as i128 + len as i128) > body as i128 {
                "oob"
            } else if len < need {
                "short"
            } else {
                "fits"
            };
            (format!("C08 ipcslice {} {} {} {}", body, off, len, rows), format!("op:ipcslice sc:{} nt", class), body)
        }
    }
}

fn sweep(args: &Args, rng: &mut Rng) -> Vec<(String, String, usize)> {
    let mut out = vec![];
    let thorough = args.tier == "thorough";
    let kinds: [(&str, usize, fn(usize) -> Vec<u8>); 2] = [("ipc", N_IPC, ipc_file), ("ocf", N_OCF, ocf_file)];
    for (op, nfiles, get) in kinds {
        for id in 0..nfiles {
            let f = get(id);
            let n = f.len();
            let mut push = |spec: String, class: &str, out: &mut Vec<(String, String, usize)>| {
                out.push((format!("C08 {} f{} {}", op, id, spec), format!("op:{} file:{}{} mut:{} nt", op, op, id, class), n));
            };
            push("xor:0:00".into(), "none", &mut out);
            // the files added for type / codec coverage get a lighter pattern in the quick tier
            let light = !thorough && ((op == "ipc" && id >= 2) || (op == "ocf" && id >= 3));
            for off in 0..n {
                let vals: &[&str] = if thorough {
                    &["set:ff", "set:00", "xor:01", "xor:80"]
                } else if light {
                    if off % 12 == id {
                        &["set:ff", "set:00", "xor:01"]
                    } else if off % 3 == id % 3 {
                        &["xor:01"]
                    } else {
                        &[]
                    }
                } else if off % 4 == id % 4 {
                    &["set:ff", "set:00", "xor:01", "xor:80"]
                } else {
                    &["xor:01"]
                };
                for v in vals {
                    let (k, x) = v.split_once(':').unwrap();
                    push(format!("{}:{}:{}", k, off, x), "byte", &mut out);
                }
            }
            let tstride = if thorough { 1 } else if light { 11 } else { 3 };
            for len in (0..n).step_by(tstride) {
                push(format!("trunc:{}", len), "trunc", &mut out);
            }
            if op == "ipc" {
                // flatbuffer scalars are 4/8-byte little-endian: inflate every aligned word
                let vs64: &[i64] = if thorough { &[-1, i64::MAX, 1 << 40, n as i64, n as i64 * 8] } else { &[-1, i64::MAX, n as i64] };
                for off in (0..n.saturating_sub(8)).step_by(if light { 24 } else { 8 }) {
                    for v in vs64 {
                        push(format!("le64:{}:{}", off, v), "inflate-i64", &mut out);
                    }
                }
                let vs32: &[i64] = if thorough { &[-1, 0x7fffffff, n as i64] } else { &[-1, 0x7fffffff] };
                for off in (0..n.saturating_sub(4)).step_by(if thorough { 4 } else if light { 20 } else { 8 }) {
                    for v in vs32 {
                        push(format!("le32:{}:{}", off, v), "inflate-i32", &mut out);
                    }
                }
            } else {
                // Avro lengths/counts are zig-zag varints: replace every byte by a huge / negative / over-long varint
                for off in (0..n).step_by(if thorough { 1 } else if light { 5 } else { 2 }) {
                    push(format!("splice:{}:1:feffffffffffffffff01", off), "inflate-varint-i64max", &mut out);
                    push(format!("splice:{}:1:feffffff0f", off), "inflate-varint-i32max", &mut out);
                    push(format!("splice:{}:1:01", off), "negative-varint", &mut out);
                    if thorough || off % 4 == 0 {
                        push(format!("splice:{}:0:ffffffffffffffffffffff", off), "insert-overlong", &mut out);
                        push(format!("splice:{}:1:80808008", off), "inflate-varint-16m", &mut out);
                    }
                }
            }
            let ncross = if thorough { 400 } else { 40 };
            for _ in 0..ncross {
                let other = (id + 1 + rng.usize(nfiles - 1)) % nfiles;
                let l = 1 + rng.usize(64);
                let (a, b) = (rng.usize(n), rng.usize(n));
                push(format!("cross:{}:{}:{}:{}", other, a, l, b), "cross", &mut out);
            }
        }
    }
    // Avro single-object stream through the push decoder
    {
        let b = soe_base();
        let n = b.len();
        let mut push = |spec: String, class: &str, out: &mut Vec<(String, String, usize)>| {
            out.push((format!("C08 avrodec {}", spec), format!("op:avrodec mut:{} nt", class), n));
        };
        push("xor:0:00".into(), "none", &mut out);
        for off in 0..n {
            for v in ["set:ff", "set:00", "xor:01", "xor:80"] {
                let (k, x) = v.split_once(':').unwrap();
                push(format!("{}:{}:{}", k, off, x), "byte", &mut out);
            }
            push(format!("trunc:{}", off), "trunc", &mut out);
            push(format!("splice:{}:1:feffffffffffffffff01", off), "inflate-varint-i64max", &mut out);
            push(format!("splice:{}:1:01", off), "negative-varint", &mut out);
            push(format!("splice:{}:0:ffffffffffffffffffffff", off), "insert-overlong", &mut out);
        }
    }
    // Flight: header (flatbuffer message) and body bytes of every FlightData message
    let base = flight_base();
    let total: usize = base.iter().map(|(h, b)| h.len() + b.len()).sum();
    for (i, (h, b)) in base.iter().enumerate() {
        let mut push = |spec: String, class: &str, out: &mut Vec<(String, String, usize)>| {
            out.push((format!("C08 flight {}", spec), format!("op:flight msg:{} mut:{} nt", i, class), total));
        };
        if i == 0 {
            push("n0:none".into(), "none", &mut out);
        }
        push(format!("d{}:drop", i), "drop-message", &mut out);
        push(format!("r{}:replay", i), "replay-message", &mut out);
        for (part, buf) in [("h", h), ("b", b)] {
            let n = buf.len();
            let dense = part == "h" || thorough;
            for off in 0..n {
                if !dense && off % 7 != i % 7 {
                    continue;
                }
                let vals: &[&str] = if thorough { &["set:ff", "set:00", "xor:01", "xor:80"] } else if off % 4 == 0 { &["set:ff", "set:00", "xor:01"] } else { &["xor:01"] };
                for v in vals {
                    let (k, x) = v.split_once(':').unwrap();
                    push(format!("{}{}:{}:{}:{}", part, i, k, off, x), if part == "h" { "byte-header" } else { "byte-body" }, &mut out);
                }
            }
            for len in (0..n).step_by(if thorough { 1 } else { 5 }) {
                push(format!("{}{}:trunc:{}", part, i, len), "trunc", &mut out);
            }
            if part == "h" {
                for off in (0..n.saturating_sub(8)).step_by(8) {
                    for v in [-1i64, i64::MAX, n as i64] {
                        push(format!("h{}:le64:{}:{}", i, off, v), "inflate-i64", &mut out);
                    }
                }
                for off in (0..n.saturating_sub(4)).step_by(if thorough { 4 } else { 8 }) {
                    for v in [-1i64, 0x7fffffff] {
                        push(format!("h{}:le32:{}:{}", i, off, v), "inflate-i32", &mut out);
                    }
                }
            }
        }
    }
    out
}

/// fixed block of boundary cases run in every tier
fn dense_units() -> Vec<(String, String, usize)> {
    let mut v = vec![];
    for len in 1..=12usize {
        for last in [0x00u8, 0x01, 0x02, 0x7f] {
            for fill in [0x80u8, 0xff, 0x81] {
                let mut b = vec![fill; len - 1];
                b.push(last);
                for op in ["avlq", "avlqf"] {
                    v.push((format!("C08 {} {}", op, hex(&b)), format!("op:{} dense:len{} nt", op, len), b.len()));
                }
            }
        }
    }
    for k in [6u32, 7, 8, 13, 14, 15, 20, 21, 22, 27, 28, 29, 31, 32, 33, 34, 35, 36, 41, 42, 43, 48, 49, 50, 55, 56, 57, 62, 63] {
        for d in [-1i64, 0, 1] {
            let b = uleb((1u64 << k).wrapping_add(d as u64));
            for op in ["avlq", "avlqf"] {
                v.push((format!("C08 {} {}", op, hex(&b)), format!("op:{} dense:pow2 nt", op), b.len()));
            }
        }
    }
    for b in [uleb(u64::MAX), uleb(u64::MAX - 1), uleb(i64::MAX as u64), uleb(i64::MAX as u64 + 1)] {
        for op in ["avlq", "avlqf"] {
            v.push((format!("C08 {} {}", op, hex(&b)), format!("op:{} dense:max nt", op), b.len()));
        }
    }
    // IPC (offset, length) grid around the body length and the integer boundaries
    for body in [0i64, 1, 7, 8, 9, 16, 63, 64, 65] {
        for rows in [1i64, 2, 8, 9] {
            let need = rows * 4;
            for off in [0i64, 1, 4, 8, body - need, body - need + 1, body, body + 1, -1, -8, i64::MAX, i64::MIN, i64::MAX - need + 1] {
                for len in [0i64, need - 1, need, need + 1, body - off, body.wrapping_sub(off).wrapping_add(1), -1, i64::MAX, i64::MAX.wrapping_sub(off), i64::MIN] {
                    v.push((format!("C08 ipcslice {} {} {} {}", body, off, len, rows), "op:ipcslice dense:grid nt".to_string(), body as usize));
                }
            }
        }
    }
    v
}

fn witnesses() -> Vec<(String, String, usize)> {
    vec![
        ("C08 ipcslice 8 0 9 1".to_string(), "op:ipcslice witness:ipc-slice-oob nt".to_string(), 8),
        ("C08 ipcslice 8 -1 0 1".to_string(), "op:ipcslice witness:ipc-slice-oob nt".to_string(), 8),
        ("C08 avlqf ffffffffffffffffff01".to_string(), "op:avlqf witness:u64-max nt".to_string(), 10),
        ("C08 avlqf ffffffffffffffffff02".to_string(), "op:avlqf witness:overflow nt".to_string(), 10),
    ]
}

fn main() {
    let argv: Vec<String> = std::env::args().collect();
    if argv.get(1).map(|s| s.as_str()) == Some("worker") {
        worker_main();
        return;
    }
    let args = parse_args();
    let mut sink = Sink::new(&args.out);
    let timeout = Duration::from_secs(if args.tier == "thorough" { 20 } else { 6 });
    let mut w = Worker::spawn(timeout);
    if args.mode == "replay" {
        for line in read_cases(args.replay.as_ref().unwrap()) {
            let n = line.split(' ').last().map(|h| h.len() / 2).unwrap_or(0);
            run_and_record(&mut w, &mut sink, line, "replay", n);
        }
    } else {
        let mut rng = Rng::new(args.seed ^ 0xC08E);
        for (line, tags, n) in witnesses() {
            run_and_record(&mut w, &mut sink, line, &tags, n);
        }
        if args.cases.is_none() {
            for (line, tags, n) in dense_units() {
                run_and_record(&mut w, &mut sink, line, &tags, n);
            }
        }
        let n = n_cases(&args, 2000, 30000);
        for _ in 0..n {
            let (line, tags, len) = gen_unit(&mut rng);
            run_and_record(&mut w, &mut sink, line, &tags, len);
        }
        if args.cases.is_none() {
            for (line, tags, len) in sweep(&args, &mut rng) {
                run_and_record(&mut w, &mut sink, line, &tags, len);
            }
        }
    }
    drop(w);
    remove_site_cache();
    sink.finish();
}
