//! C04 (Flight part): `FlightDataEncoderBuilder` → `FlightRecordBatchStream`.
//!
//!   C04 rtx hydrate|resend <max_flight_data_size> <empty:0|1> <seed>   round trip (oracle)
//!   C04 split <size> <max> <rows>     rows per FlightData batch for an Int64 batch of `rows` rows whose
//!                                     `get_buffer_memory_size` is `size` (checked) — vs the model's slices
use arrow_array::types::*;
use arrow_array::*;
use arrow_buffer::{BooleanBuffer, Buffer, NullBuffer, OffsetBuffer};
use arrow_flight::decode::FlightRecordBatchStream;
use arrow_flight::encode::{DictionaryHandling, FlightDataEncoderBuilder};
use arrow_flight::error::FlightError;
use arrow_flight::FlightData;
use arrow_schema::*;
use futures::TryStreamExt;
use std::sync::Arc;
use vcommon::*;

fn flight_round_trip(batches: Vec<RecordBatch>, max: usize, resend: bool) -> Result<Vec<RecordBatch>, FlightError> {
    flight_round_trip_var(batches, max, resend, 0)
}

/// var 0: encoder -> FlightRecordBatchStream;  1: encoder -> FlightDataDecoder (DecodedPayload);
/// 2: encoder with_schema/with_metadata/with_flight_descriptor;  3: encoder with_options (alignment 8, metadata V4);
/// 4: utils::batches_to_flight_data -> FlightRecordBatchStream;  5: encoder -> utils::flight_data_to_batches
fn flight_round_trip_var(batches: Vec<RecordBatch>, max: usize, resend: bool, var: usize) -> Result<Vec<RecordBatch>, FlightError> {
    use arrow_flight::decode::{DecodedPayload, FlightDataDecoder};
    let schema = batches[0].schema();
    let data: Vec<FlightData> = if var == 4 {
        arrow_flight::utils::batches_to_flight_data(&schema, batches.clone()).map_err(FlightError::Arrow)?
    } else {
        let mut b = FlightDataEncoderBuilder::new()
            .with_max_flight_data_size(max)
            .with_dictionary_handling(if resend { DictionaryHandling::Resend } else { DictionaryHandling::Hydrate });
        if var == 2 {
            b = b
                .with_schema(schema.clone())
                .with_metadata(bytes::Bytes::from_static(b"app-meta"))
                .with_flight_descriptor(Some(arrow_flight::FlightDescriptor::new_cmd("cmd")));
        }
        if var == 3 {
            b = b.with_options(arrow_ipc::writer::IpcWriteOptions::try_new(8, false, arrow_ipc::MetadataVersion::V4).unwrap());
        }
        let enc = b.build(futures::stream::iter(batches.clone().into_iter().map(Ok)));
        if var == 2 && enc.known_schema().is_none() {
            return Err(FlightError::ProtocolError("known_schema() is None after with_schema".into()));
        }
        let data: Vec<FlightData> = futures::executor::block_on(enc.try_collect())?;
        if var == 2 {
            let first = data.first().ok_or_else(|| FlightError::ProtocolError("no schema message".into()))?;
            if &first.app_metadata[..] != b"app-meta" || first.flight_descriptor.is_none() {
                return Err(FlightError::ProtocolError("app metadata / descriptor not on the first message".into()));
            }
            if data.iter().skip(1).any(|d| d.flight_descriptor.is_some()) {
                return Err(FlightError::ProtocolError("descriptor repeated".into()));
            }
        }
        data
    };
    match var {
        1 => {
            let dec = FlightDataDecoder::new(futures::stream::iter(data.into_iter().map(Ok)));
            let items: Vec<_> = futures::executor::block_on(dec.try_collect())?;
            let mut out = vec![];
            let mut seen_schema = false;
            for it in items {
                match it.payload {
                    DecodedPayload::Schema(_) => seen_schema = true,
                    DecodedPayload::RecordBatch(b) => {
                        if !seen_schema {
                            return Err(FlightError::ProtocolError("batch before schema".into()));
                        }
                        out.push(b)
                    }
                    DecodedPayload::None => {}
                }
            }
            Ok(out)
        }
        5 => arrow_flight::utils::flight_data_to_batches(&data).map_err(FlightError::Arrow),
        _ => {
            let dec = FlightRecordBatchStream::new_from_flight_data(futures::stream::iter(data.into_iter().map(Ok)));
            futures::executor::block_on(dec.try_collect())
        }
    }
}

fn gen_nulls(rng: &mut Rng, n: usize) -> Option<NullBuffer> {
    if rng.chance(1, 3) {
        return None;
    }
    let off = rng.usize(11);
    Some(NullBuffer::new(BooleanBuffer::new(Buffer::from_vec(rng.bytes((off + n + 7) / 8 + 1)), off, n)))
}

fn strings(rng: &mut Rng, n: usize) -> Vec<String> {
    (0..n).map(|_| (0..rng.usize(6)).map(|_| (b'a' + rng.usize(26) as u8) as char).collect()).collect()
}

fn gen_col(rng: &mut Rng, dt: &DataType, n: usize) -> ArrayRef {
    match dt {
        DataType::Int32 => Arc::new(Int32Array::new((0..n).map(|_| rng.range(-99, 99) as i32).collect::<Vec<_>>().into(), gen_nulls(rng, n))),
        DataType::Int64 => Arc::new(Int64Array::new((0..n).map(|_| rng.range(-99, 99)).collect::<Vec<_>>().into(), gen_nulls(rng, n))),
        DataType::Boolean => {
            let off = rng.usize(9);
            Arc::new(BooleanArray::new(BooleanBuffer::new(Buffer::from_vec(rng.bytes((off + n + 7) / 8)), off, n), gen_nulls(rng, n)))
        }
        DataType::Utf8 => {
            let s = strings(rng, n);
            let nulls = gen_nulls(rng, n);
            let a = StringArray::from(s);
            let (o, v, _) = a.into_parts();
            Arc::new(StringArray::new(o, v, nulls))
        }
        DataType::Dictionary(_, _) => {
            let dl = 1 + rng.usize(4);
            let vals = StringArray::from(strings(rng, dl));
            let keys = Int32Array::new((0..n).map(|_| rng.usize(dl) as i32).collect::<Vec<_>>().into(), gen_nulls(rng, n));
            Arc::new(DictionaryArray::<Int32Type>::try_new(keys, Arc::new(vals)).unwrap())
        }
        DataType::List(f) => {
            let mut offs = vec![rng.usize(3) as i32];
            for _ in 0..n {
                offs.push(offs.last().unwrap() + rng.usize(4) as i32);
            }
            let extra = rng.usize(2);
            let child = gen_col(rng, f.data_type(), *offs.last().unwrap() as usize + extra);
            Arc::new(ListArray::try_new(f.clone(), OffsetBuffer::new(offs.into()), child, gen_nulls(rng, n)).unwrap())
        }
        DataType::Struct(fs) => {
            let cols = fs.iter().map(|f| gen_col(rng, f.data_type(), n)).collect();
            Arc::new(StructArray::try_new_with_length(fs.clone(), cols, gen_nulls(rng, n), n).unwrap())
        }
        _ => unreachable!(),
    }
}

fn types() -> Vec<DataType> {
    vec![
        DataType::Int32,
        DataType::Int64,
        DataType::Boolean,
        DataType::Utf8,
        DataType::Dictionary(Box::new(DataType::Int32), Box::new(DataType::Utf8)),
        DataType::List(Arc::new(Field::new("item", DataType::Int32, true))),
        DataType::List(Arc::new(Field::new("item", DataType::Utf8, true))),
        DataType::Struct(vec![Field::new("x", DataType::Int64, true), Field::new("y", DataType::Utf8, true)].into()),
    ]
}

fn fmt_rows(a: &dyn Array) -> Vec<String> {
    use arrow_cast_display::*;
    rows(a)
}

/// cell-by-cell logical values without depending on arrow-cast: small recursive renderer
mod arrow_cast_display {
    use arrow_array::cast::AsArray;
    use arrow_array::types::*;
    use arrow_array::*;
    use arrow_schema::DataType;
    pub fn cell(a: &dyn Array, i: usize) -> String {
        if a.is_null(i) {
            return "N".into();
        }
        match a.data_type() {
            DataType::Int32 => a.as_primitive::<Int32Type>().value(i).to_string(),
            DataType::Int64 => a.as_primitive::<Int64Type>().value(i).to_string(),
            DataType::Boolean => a.as_boolean().value(i).to_string(),
            DataType::Utf8 => format!("{:?}", a.as_string::<i32>().value(i)),
            DataType::Dictionary(_, _) => {
                let d = a.as_dictionary::<Int32Type>();
                cell(d.values().as_ref(), d.keys().value(i) as usize)
            }
            DataType::List(_) => {
                let l = a.as_list::<i32>();
                let v = l.value(i);
                format!("[{}]", (0..v.len()).map(|j| cell(v.as_ref(), j)).collect::<Vec<_>>().join(","))
            }
            DataType::Struct(_) => {
                let s = a.as_struct();
                format!("{{{}}}", s.columns().iter().map(|c| cell(c.as_ref(), i)).collect::<Vec<_>>().join(","))
            }
            t => format!("?{t}"),
        }
    }
    pub fn rows(a: &dyn Array) -> Vec<String> {
        (0..a.len()).map(|i| cell(a, i)).collect()
    }
}

/// the schema Flight is documented to deliver: dictionaries hydrated unless `resend`
fn expected_type(dt: &DataType, resend: bool) -> DataType {
    match dt {
        DataType::Dictionary(_, v) if !resend => v.as_ref().clone(),
        _ => dt.clone(),
    }
}

fn run_rtx(t: &[&str]) -> (String, Option<String>, String) {
    let resend = t[2] == "resend";
    let max: usize = t[3].parse().unwrap();
    let allow_empty = t[4] == "1";
    let seed: u64 = t[5].parse().unwrap();
    let var: usize = t.get(6).map(|x| x.parse().unwrap()).unwrap_or(0);
    // batches_to_flight_data keeps dictionaries (resend semantics, no splitting); flight_data_to_batches has no dictionary support
    let resend = if var == 4 { true } else if var == 5 { false } else { resend };
    let mut rng = Rng::new(seed ^ 0xF11687);
    let ts = types();
    let ncols = 1 + rng.usize(3);
    let fields: Vec<Field> = (0..ncols).map(|i| Field::new(format!("c{i}"), rng.pick(&ts).clone(), true)).collect();
    let schema = Arc::new(Schema::new(fields));
    let nb = 1 + rng.usize(4);
    let mut batches: Vec<RecordBatch> = vec![];
    let mut tags = String::new();
    for _ in 0..nb {
        let rows = if allow_empty && rng.chance(1, 3) { 0 } else { 1 + rng.usize(60) };
        if rows == 0 {
            tags.push_str("empty-batch ");
        }
        let cols: Vec<ArrayRef> = schema
            .fields()
            .iter()
            .map(|f| {
                let (pre, post) = if rng.bool() { (rng.usize(10), rng.usize(3)) } else { (0, 0) };
                gen_col(&mut rng, f.data_type(), pre + rows + post).slice(pre, rows)
            })
            .collect();
        batches.push(RecordBatch::try_new(schema.clone(), cols).unwrap());
    }
    // dictionary histories under Resend: sometimes every batch shares / extends the first batch's dictionary
    if resend && seed % 3 != 0 {
        for ci in 0..schema.fields().len() {
            if let DataType::Dictionary(_, _) = schema.field(ci).data_type() {
                let first = batches[0].column(ci).clone();
                let d0 = first.as_any().downcast_ref::<DictionaryArray<Int32Type>>().unwrap().clone();
                for bi in 1..batches.len() {
                    let rows = batches[bi].num_rows();
                    let values: ArrayRef = if seed % 3 == 1 {
                        d0.values().clone()
                    } else {
                        let old = d0.values().as_any().downcast_ref::<StringArray>().unwrap();
                        let mut v: Vec<Option<String>> = old.iter().map(|x| x.map(|s| s.to_string())).collect();
                        v.push(Some(format!("x{bi}")));
                        Arc::new(StringArray::from(v))
                    };
                    let dl = values.len();
                    let keys = Int32Array::from((0..rows).map(|i| ((i * 7 + bi) % dl) as i32).collect::<Vec<_>>());
                    let col: ArrayRef = Arc::new(DictionaryArray::<Int32Type>::try_new(keys, values).unwrap());
                    let mut cols = batches[bi].columns().to_vec();
                    cols[ci] = col;
                    batches[bi] = RecordBatch::try_new(schema.clone(), cols).unwrap();
                }
            }
        }
    }
    tags.push_str(&format!("fvar:{} ", var));
    let got = match flight_round_trip_var(batches.clone(), max, resend, var) {
        Ok(g) => g,
        Err(e) => {
            if var == 4 && schema.fields().iter().any(|f| matches!(f.data_type(), DataType::Dictionary(_, _))) && e.to_string().contains("no dict id") {
                tags.push_str("kf:flight-b2f-dictionary ");
            }
            return ("ERR:flight".into(), Some(format!("flight round trip failed: {e}")), tags);
        }
    };
    if got.len() > batches.len() {
        tags.push_str("split ");
    }
    // schema: same names / nullability / types modulo documented hydration
    for g in &got {
        for (f, gf) in schema.fields().iter().zip(g.schema().fields()) {
            if f.name() != gf.name() || expected_type(f.data_type(), resend) != *gf.data_type() {
                return ("MISMATCH".into(), Some(format!("schema field {} decoded as {}", f, gf)), tags);
            }
        }
    }
    // batch by batch, allowing a batch to arrive as consecutive pieces
    let group = |inputs: &[&RecordBatch]| -> Option<String> {
        let mut gi = 0usize;
        for (bi, b) in inputs.iter().enumerate() {
            let mut rows_have = 0usize;
            let mut pieces: Vec<&RecordBatch> = vec![];
            if b.num_rows() == 0 {
                if gi < got.len() && got[gi].num_rows() == 0 {
                    gi += 1;
                    continue;
                }
                return Some(format!("input batch {bi} has 0 rows but no 0-row batch was delivered at its position"));
            }
            while rows_have < b.num_rows() {
                if gi >= got.len() {
                    return Some(format!("input batch {bi}: stream ended after {rows_have} of {} rows", b.num_rows()));
                }
                rows_have += got[gi].num_rows();
                pieces.push(&got[gi]);
                gi += 1;
            }
            if rows_have != b.num_rows() {
                return Some(format!("input batch {bi}: pieces do not end on the batch boundary"));
            }
            for c in 0..b.num_columns() {
                let exp = fmt_rows(b.column(c).as_ref());
                let have: Vec<String> = pieces.iter().flat_map(|p| fmt_rows(p.column(c).as_ref())).collect();
                if exp != have {
                    return Some(format!("input batch {bi} column {c} differs"));
                }
            }
        }
        if gi != got.len() { Some(format!("{} extra batches delivered", got.len() - gi)) } else { None }
    };
    let all: Vec<&RecordBatch> = batches.iter().collect();
    match group(&all) {
        None => ("ok".into(), None, tags),
        Some(why) => {
            // is the *only* problem that zero-row batches were not delivered?
            let nonempty: Vec<&RecordBatch> = batches.iter().filter(|b| b.num_rows() > 0).collect();
            if nonempty.len() < all.len() && group(&nonempty).is_none() {
                tags.push_str("kf:flight-drops-empty-batch ");
                ("DROPPED-EMPTY".into(), Some(format!("{} of {} input batches have 0 rows and were not delivered ({} batches decoded); all other rows match", all.len() - nonempty.len(), all.len(), got.len())), tags)
            } else {
                ("MISMATCH".into(), Some(why), tags)
            }
        }
    }
}

fn split_batch(rows: usize) -> RecordBatch {
    let v: Vec<i64> = (0..rows as i64).collect();
    RecordBatch::try_from_iter(vec![("a", Arc::new(Int64Array::from(v)) as ArrayRef)]).unwrap()
}

fn run_split(t: &[&str]) -> String {
    let (size, max, rows): (usize, usize, usize) = (t[2].parse().unwrap(), t[3].parse().unwrap(), t[4].parse().unwrap());
    let b = split_batch(rows);
    let real: usize = b.columns().iter().map(|c| c.get_buffer_memory_size()).sum();
    if real != size {
        return format!("SIZE-MISMATCH real={real}");
    }
    match flight_round_trip(vec![b], max, false) {
        Err(_) => "ERR:flight".into(),
        Ok(g) => {
            // pieces must be consecutive ranges of 0..rows
            let mut next = 0i64;
            for p in &g {
                let a = p.column(0).as_any().downcast_ref::<Int64Array>().unwrap();
                for v in a.values().iter() {
                    if *v != next {
                        return "OUT-OF-ORDER".into();
                    }
                    next += 1;
                }
            }
            show_list(&g.iter().map(|p| p.num_rows()).collect::<Vec<_>>())
        }
    }
}

fn run_case(line: &str) -> (String, Option<String>, String) {
    let t: Vec<&str> = line.split(' ').collect();
    assert_eq!(t[0], "C04");
    match t[1] {
        "rtx" => {
            let mut o = None;
            let mut tags = String::new();
            let a = guarded(|| {
                let (a, f, tg) = run_rtx(&t);
                o = f;
                tags = tg;
                a
            });
            if a == "PANIC" {
                o = Some("panic during flight round trip".into());
            }
            (a, o, tags)
        }
        "split" => (guarded(|| run_split(&t)), None, String::new()),
        _ => ("bad-op".into(), None, String::new()),
    }
}

fn gen_case(rng: &mut Rng) -> (String, String) {
    if rng.chance(1, 2) {
        let rows = if rng.chance(1, 6) { 0 } else { *rng.pick(&[1usize, 2, 3, 7, 64, 100, 1000, 4096]) + rng.usize(5) };
        let size: usize = split_batch(rows).columns().iter().map(|c| c.get_buffer_memory_size()).sum();
        let max = match rng.below(5) {
            0 => 1 + rng.usize(64),
            1 => size.max(1),
            2 => size / 2 + 1,
            3 => size + 1 + rng.usize(100),
            _ => 1 + rng.usize(size.max(1) * 2),
        };
        let n = if max == 0 { 1 } else { (size / max + usize::from(size % max != 0)).max(1) };
        (
            format!("C04 split {} {} {}", size, max, rows),
            format!("op:split pieces:{} {}", if n == 1 { "1" } else if n <= rows { "few" } else { "per-row" }, if rows > 0 && n > 1 { "nt" } else { "" }),
        )
    } else {
        let resend = rng.bool();
        let max = *rng.pick(&[64usize, 200, 1000, 2097152]);
        let empty = rng.chance(1, 4);
        (
            format!("C04 rtx {} {} {} {} {}", if resend { "resend" } else { "hydrate" }, max, if empty { 1 } else { 0 }, rng.next_u64() >> 16, rng.usize(6)),
            format!("op:rtx dict:{} max:{} empty:{} nt", if resend { "resend" } else { "hydrate" }, max, empty),
        )
    }
}

fn main() {
    let args = parse_args();
    if std::env::var("VERIF_LOUD").is_err() {
        quiet_panics();
    }
    let mut sink = Sink::new(&args.out);
    if args.mode == "replay" {
        for line in read_cases(args.replay.as_ref().unwrap()) {
            let (a, o, tags) = run_case(&line);
            if let Some(why) = o {
                sink.oracle_failure(line.clone(), why, &format!("replay {}", tags));
            }
            sink.case(line, a, &format!("replay {}", tags));
        }
    } else {
        let mut rng = Rng::new(args.seed ^ 0xC04F);
        let n = n_cases(&args, 1500, 40000);
        for _ in 0..n {
            let (line, tags) = gen_case(&mut rng);
            let (a, o, extra) = run_case(&line);
            let tags = format!("{} {}", tags, extra);
            if let Some(why) = o {
                sink.oracle_failure(line.clone(), why, &tags);
            }
            sink.case(line, a, &tags);
        }
    }
    sink.finish();
}
