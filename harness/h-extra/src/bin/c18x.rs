//! C18 correspondence harness (Avro object container part).
//!
//! The OCF writer embeds a random 16-byte sync marker, so the bytes differ from run to run; all
//! *sizes* (header, blocks) are deterministic and are what the case lines carry.
//!   C18 avrot <spec> <header-len> <size:rows,…> <k>     model: rows=<n> end=eos|err
//!       every truncation length k of the container is read with `ReaderBuilder::build`
//!   C18 avrorf <spec> <E|I|S|A> <k> <n>                  model: res=err | res=ok batches=<n> | SKIP
//!       fault at raw read call k of the source
//!   C18 avrowf <spec> <sched> <trace>                    model: accepted=<n> res=ok|err
//!       fault schedule on the sink of `Writer<_, AvroOcfFormat>` (no prefix check: random marker;
//!       oracle: Ok ⇒ the sink holds a complete container that reads back as the rows written)
#[path = "../../../h-core/src/c18_common.rs"]
mod common;
use arrow_array::RecordBatch;
use arrow_avro::reader::ReaderBuilder;
use arrow_avro::writer::WriterBuilder;
use arrow_avro::writer::format::AvroOcfFormat;
use arrow_schema::SchemaRef;
use common::*;
use std::collections::HashMap;
use std::io::{BufReader, Cursor};
use std::sync::{Arc, Mutex, OnceLock};
use vcommon::*;

type Fails = Vec<(String, String)>;
const SCHEMAS: [usize; 3] = [0, 1, 3];

struct File {
    bytes: Vec<u8>,
    header: usize,
    /// (block size in bytes, rows)
    blocks: Vec<(usize, usize)>,
}

fn cache() -> &'static Mutex<HashMap<String, Arc<File>>> {
    static C: OnceLock<Mutex<HashMap<String, Arc<File>>>> = OnceLock::new();
    C.get_or_init(|| Mutex::new(HashMap::new()))
}

/// schema ids >= 100 are Avro-specific: columns whose encoders write into the sink with a bare `?`
/// (100: Float32 + Float64, 101: FixedSizeBinary + uuid, 102: Interval(MonthDayNano) + Float64)
fn input(spec: &str) -> (SchemaRef, Vec<RecordBatch>) {
    use arrow_array::{ArrayRef, FixedSizeBinaryArray, Float32Array, Float64Array, IntervalMonthDayNanoArray};
    use arrow_buffer::IntervalMonthDayNano;
    use arrow_schema::{DataType, Field, IntervalUnit, Schema};
    let f: Vec<usize> = spec.split(':').map(|x| x.parse().expect("spec field")).collect();
    if f[0] < 100 {
        return make_batches(spec, None);
    }
    let (sid, nb, rows, seed) = (f[0], f[1], f[2], f[3]);
    let mut rng = Rng::new(seed as u64 ^ 0xA7A0);
    let schema: SchemaRef = Arc::new(match sid {
        100 => Schema::new(vec![Field::new("f", DataType::Float32, false), Field::new("d", DataType::Float64, true)]),
        101 => Schema::new(vec![
            Field::new("fx", DataType::FixedSizeBinary(5), false),
            Field::new("u", DataType::FixedSizeBinary(16), false)
                .with_metadata(std::collections::HashMap::from([("logicalType".to_string(), "uuid".to_string())])),
        ]),
        _ => Schema::new(vec![
            Field::new("iv", DataType::Interval(IntervalUnit::MonthDayNano), false),
            Field::new("d", DataType::Float64, false),
        ]),
    });
    let mut out = vec![];
    for _ in 0..nb {
        let cols: Vec<ArrayRef> = match sid {
            100 => vec![
                Arc::new(Float32Array::from((0..rows).map(|_| rng.range(-99, 99) as f32 * 0.25).collect::<Vec<_>>())),
                Arc::new(Float64Array::from(
                    (0..rows).map(|_| if rng.chance(1, 4) { None } else { Some(rng.range(-99, 99) as f64 * 0.5) }).collect::<Vec<_>>(),
                )),
            ],
            101 => vec![
                Arc::new(FixedSizeBinaryArray::try_from_iter((0..rows).map(|_| rng.bytes(5))).expect("fsb")),
                Arc::new(FixedSizeBinaryArray::try_from_iter((0..rows).map(|_| rng.bytes(16))).expect("uuid")),
            ],
            _ => vec![
                Arc::new(IntervalMonthDayNanoArray::from(
                    (0..rows)
                        .map(|_| IntervalMonthDayNano::new(rng.range(0, 20) as i32, rng.range(0, 40) as i32, rng.range(0, 5000) * 1_000_000))
                        .collect::<Vec<_>>(),
                )),
                Arc::new(Float64Array::from((0..rows).map(|_| rng.range(-9, 9) as f64).collect::<Vec<_>>())),
            ],
        };
        out.push(RecordBatch::try_new(schema.clone(), cols).expect("batch"));
    }
    (schema, out)
}

/// 5th spec field: 0/absent = object container file, 1 = single-object encoding stream
fn format_id(spec: &str) -> usize {
    spec.split(':').nth(4).map(|x| x.parse().unwrap()).unwrap_or(0)
}
fn is_soe(spec: &str) -> bool {
    format_id(spec) != 0
}

/// drive the OCF (or, 5th spec field = 1, single-object-encoding) writer over `sink`; `marks`
/// receives the sink length after the header and after each batch
fn drive_writer(spec: &str, sink: FaultSink, marks: &mut Vec<usize>, out: &mut Outcome) -> Result<(), String> {
    use arrow_avro::writer::format::AvroSoeFormat;
    let (schema, batches) = input(spec);
    macro_rules! go {
        ($fmt:ty) => {{
            let mut w = WriterBuilder::new(schema.as_ref().clone()).build::<_, $fmt>(sink.clone()).map_err(|e| e.to_string())?;
            marks.push(sink.data().len());
            let mut res = Ok(());
            for b in &batches {
                res = w.write(b).map_err(|e| e.to_string());
                marks.push(sink.data().len());
                if res.is_err() {
                    break;
                }
            }
            let failed_in_write = res.is_err();
            if res.is_ok() {
                res = w.finish().map_err(|e| e.to_string());
            }
            if res.is_err() {
                // the caller keeps using the writer (next batch) and finalises anyway (cleanup path / retry);
                // (after a failed `finish` every byte is already in the sink: writing more would be the
                // caller adding rows, so the extra write is only made after a failed `write`)
                out.accepted_at_error = Some(sink.data().len());
                if failed_in_write {
                    if let Some(b) = batches.last() {
                        if w.write(b).is_ok() {
                            out.later_ok.push("write".into());
                        }
                    }
                }
                if w.finish().is_ok() {
                    out.later_ok.push("finish#1".into());
                }
                if w.finish().is_ok() {
                    out.later_ok.push("finish#2".into());
                }
            }
            sink.mark_done();
            res
        }};
    }
    match format_id(spec) {
        // (the bare binary format is rejected by `build`: it exists for `Encoder` only, no sink)
        1 => go!(AvroSoeFormat),
        _ => go!(AvroOcfFormat),
    }
}

fn file(spec: &str) -> Arc<File> {
    if let Some(f) = cache().lock().unwrap().get(spec) {
        return f.clone();
    }
    let sink = FaultSink::new(vec![], false);
    let mut marks = vec![];
    drive_writer(spec, sink.clone(), &mut marks, &mut Outcome::default()).expect("fault-free avro write");
    let (_, batches) = input(spec);
    let bytes = sink.data();
    let mut blocks = vec![];
    for (i, b) in batches.iter().enumerate() {
        let sz = marks[i + 1] - marks[i];
        if sz > 0 {
            blocks.push((sz, b.num_rows()));
        }
    }
    // whatever `finish` wrote after the last batch belongs to the last block (nothing, normally)
    let f = Arc::new(File { header: marks[0], blocks, bytes });
    let mut c = cache().lock().unwrap();
    if c.len() > 64 {
        c.clear();
    }
    c.insert(spec.to_string(), f.clone());
    f
}

fn read_all<R: std::io::BufRead>(src: R) -> (Vec<RecordBatch>, bool) {
    let mut got = vec![];
    match ReaderBuilder::new().with_batch_size(3).build(src) {
        Err(_) => (got, false),
        Ok(r) => {
            for b in r {
                match b {
                    Ok(b) => got.push(b),
                    Err(_) => return (got, false),
                }
                if got.len() > 100000 {
                    return (got, false);
                }
            }
            (got, true)
        }
    }
}

fn rows_prefix_ok(spec: &str, got: &[RecordBatch], fails: &mut Fails) -> usize {
    let (schema, batches) = input(spec);
    let rows = total_rows(got);
    let all = arrow_select_concat(&schema, &batches);
    if rows > all.num_rows() {
        fails.push(("rows-not-written".into(), format!("{rows} rows decoded, {} written", all.num_rows())));
    } else if rows > 0 {
        let g = arrow_select_concat(&got[0].schema(), got);
        if g.columns() != all.slice(0, rows).columns() {
            fails.push(("rows-not-written".into(), "decoded rows differ from the first rows written".into()));
        }
    }
    rows
}

/// concat without arrow-select (not a dependency of this package): via `arrow_array` builders is
/// overkill — use `RecordBatch` slices through `arrow_data` transforms
fn arrow_select_concat(schema: &SchemaRef, bs: &[RecordBatch]) -> RecordBatch {
    use arrow_data::transform::MutableArrayData;
    if bs.is_empty() {
        return RecordBatch::new_empty(schema.clone());
    }
    let cols = (0..schema.fields().len())
        .map(|c| {
            let datas: Vec<_> = bs.iter().map(|b| b.column(c).to_data()).collect();
            let refs: Vec<_> = datas.iter().collect();
            let mut m = MutableArrayData::new(refs, false, 0);
            for (i, d) in datas.iter().enumerate() {
                m.try_extend(i, 0, d.len()).expect("extend");
            }
            arrow_array::make_array(m.freeze())
        })
        .collect();
    RecordBatch::try_new(bs[0].schema(), cols).expect("concat")
}

fn show_blocks(f: &File) -> String {
    show_list(&f.blocks.iter().map(|(s, r)| format!("{s}:{r}")).collect::<Vec<_>>())
}

fn run_avrot(t: &[&str], fails: &mut Fails) -> String {
    let (spec, hdr, blocks, k) = (t[2], t[3], t[4], t[5].parse::<usize>().unwrap());
    let f = file(spec);
    if f.header.to_string() != hdr || show_blocks(&f) != blocks || k > f.bytes.len() {
        return "bad-case".into();
    }
    let (got, ok) = read_all(Cursor::new(f.bytes[..k].to_vec()));
    let rows = rows_prefix_ok(spec, &got, fails);
    format!("rows={rows} end={}", if ok { "eos" } else { "err" })
}

fn run_avrorf(t: &[&str], fails: &mut Fails) -> String {
    let (spec, mode, k, n) = (t[2], t[3].chars().next().unwrap(), t[4].parse::<usize>().unwrap(), t[5]);
    let f = file(spec);
    let rd = |ctl: ReadCtl| read_all(BufReader::with_capacity(16, FaultRead { inner: Cursor::new(f.bytes.clone()), ctl }));
    let (good, ok) = rd(ReadCtl::new('N', 0));
    if !ok || good.len().to_string() != n {
        return "bad-case".into();
    }
    let ctl = ReadCtl::new(mode, k);
    let (got, ok) = rd(ctl.clone());
    if ctl.0.lock().unwrap().budget_exceeded {
        fails.push(("hang".into(), "reader made more than 5M calls on its source".into()));
    }
    if got.len() > good.len() || got.iter().zip(good.iter()).any(|(a, b)| a != b) {
        fails.push(("rows-not-written".into(), "batches under a fault are not a prefix of the fault-free batches".into()));
    }
    if ok && got.len() != good.len() {
        fails.push(("ok-but-short".into(), format!("reader reported a clean end after {} of {} batches", got.len(), good.len())));
    }
    if ok { format!("res=ok batches={}", got.len()) } else { "res=err".into() }
}

fn fault_free_trace(spec: &str) -> (usize, Vec<String>) {
    let sink = FaultSink::new(vec![], false);
    let mut m = vec![];
    drive_writer(spec, sink.clone(), &mut m, &mut Outcome::default()).expect("fault-free avro write");
    (sink.data().len(), sink.trace())
}

fn run_avrowf(t: &[&str], fails: &mut Fails) -> String {
    let (spec, sched, trace) = (t[2], t[3], t[4]);
    let (good_len, good_trace) = fault_free_trace(spec);
    if show_list(&good_trace) != trace {
        return "bad-case".into();
    }
    let sink = FaultSink::new(parse_sched(sched), true);
    let mut m = vec![];
    let mut out = Outcome::default();
    let res = drive_writer(spec, sink.clone(), &mut m, &mut out);
    let data = sink.data();
    let accepted = sink.accepted(out.accepted_at_error);
    if is_soe(spec) {
        // deterministic output (no sync marker): byte-prefix check, no container to read back
        let good = { let s2 = FaultSink::new(vec![], false); let mut m2 = vec![]; drive_writer(spec, s2.clone(), &mut m2, &mut Outcome::default()).expect("soe"); s2.data() };
        if !is_prefix(&data[..accepted.min(data.len())], &good) {
            fails.push(("not-a-prefix".into(), "sink content is not a prefix of the fault-free output".into()));
        }
        if (res.is_ok() || !out.later_ok.is_empty()) && data != good {
            fails.push((if res.is_ok() { "ok-but-incomplete".to_string() } else { "kf:avro-ok-after-failed-write".to_string() },
                format!("success reported but the sink holds {} bytes, the fault-free output has {}", data.len(), good.len())));
        }
        return format!("accepted={accepted} res={}", if res.is_ok() { "ok" } else { "err" });
    }
    if !out.later_ok.is_empty() {
        // no later finish may report success unless the sink holds a complete container with all rows
        let (got, ok) = read_all(Cursor::new(data.clone()));
        let (_, batches) = input(spec);
        let mut tmp = Fails::new();
        let rows = rows_prefix_ok(spec, &got, &mut tmp);
        if data.len() != good_len || !ok || rows != total_rows(&batches) || !tmp.is_empty() {
            fails.push((
                "kf:avro-ok-after-failed-write".into(),
                format!(
                    "{} returned Ok after an earlier call had failed, but the sink holds {} of {good_len} bytes ({rows} of {} rows readable)",
                    out.later_ok.join("+"),
                    data.len(),
                    total_rows(&batches)
                ),
            ));
        }
    }
    if data.len() > good_len {
        fails.push(("not-a-prefix".into(), format!("sink holds {} bytes, the fault-free output has {good_len}", data.len())));
    }
    if res.is_ok() {
        if data.len() != good_len {
            fails.push(("ok-but-incomplete".into(), format!("writer reported success but the sink holds {} of {good_len} bytes", data.len())));
        }
        let (got, ok) = read_all(Cursor::new(data.clone()));
        let (_, batches) = input(spec);
        let rows = rows_prefix_ok(spec, &got, fails);
        if !ok || rows != total_rows(&batches) {
            fails.push(("ok-but-unreadable".into(), format!("output of a successful writer reads back as {rows} rows (clean end: {ok})")));
        }
    }
    format!("accepted={accepted} res={}", if res.is_ok() { "ok" } else { "err" })
}

fn run_case_inner(line: &str, fails: &mut Fails) -> String {
    let t: Vec<&str> = line.split(' ').collect();
    assert_eq!(t[0], "C18");
    match t[1] {
        "avrot" => run_avrot(&t, fails),
        "avrorf" => run_avrorf(&t, fails),
        "avrowf" => run_avrowf(&t, fails),
        _ => "bad-op".into(),
    }
}

fn run_case(line: &str) -> (String, Fails) {
    let l = line.to_string();
    let out = Arc::new(Mutex::new(Fails::new()));
    let o2 = out.clone();
    let a = with_timeout(20, move || {
        let mut fails = Fails::new();
        let a = run_case_inner(&l, &mut fails);
        *o2.lock().unwrap() = fails;
        a
    });
    let mut fails = std::mem::take(&mut *out.lock().unwrap());
    if a == "PANIC" || a == "HANG" {
        fails.push((a.to_lowercase(), format!("the real code answered {a}")));
    }
    (a, fails)
}

fn emit(sink: &mut Sink, line: String, tags: &str) {
    let (a, fails) = run_case(&line);
    for (what, detail) in fails {
        sink.oracle_failure(line.clone(), format!("{what}: {detail}"), &format!("{tags} fail:{what}"));
    }
    sink.case(line, a, tags);
}

fn main() {
    let args = parse_args();
    if std::env::var("VERIF_LOUD").is_err() {
        quiet_panics();
    }
    let mut sink = Sink::new(&args.out);
    if args.mode == "replay" {
        for line in read_cases(args.replay.as_ref().unwrap()) {
            emit(&mut sink, line, "replay");
        }
    } else {
        let mut rng = Rng::new(args.seed ^ 0xC18A);
        let n = n_cases(&args, 6, 60);
        for _ in 0..n {
            let spec = gen_spec(&mut rng, &SCHEMAS);
            let f = file(&spec);
            let sid: usize = spec.split(':').next().unwrap().parse().unwrap();
            for k in 0..=f.bytes.len() {
                let line = format!("C18 avrot {spec} {} {} {k}", f.header, show_blocks(&f));
                let nt = if k > 0 && k < f.bytes.len() { "nt" } else { "" };
                emit(&mut sink, line, &format!("op:avrot schema:{} {nt}", schema_name(sid % 100)));
            }
        }
        for _ in 0..n {
            let spec = gen_spec(&mut rng, &SCHEMAS);
            let f = file(&spec);
            let ctl = ReadCtl::new('N', 0);
            let (good, ok) = read_all(BufReader::with_capacity(16, FaultRead { inner: Cursor::new(f.bytes.clone()), ctl: ctl.clone() }));
            assert!(ok, "fault-free avro read of {spec}");
            for k in 0..ctl.calls() {
                for mode in ["E", "I", "S"] {
                    let line = format!("C18 avrorf {spec} {mode} {k} {}", good.len());
                    emit(&mut sink, line, &format!("op:avrorf fault:{mode} nt"));
                }
            }
            let line = format!("C18 avrorf {spec} A 0 {}", good.len());
            emit(&mut sink, line, "op:avrorf fault:A nt");
        }
        // writer faults: a fixed grid — every schema family (incl. the columns whose encoders write
        // with a bare `?`) x both sink formats (container file, single-object encoding stream),
        // two batches so that the writer is used again after the failed write
        let mut grid: Vec<String> = vec![];
        for sid in [0usize, 1, 3, 100, 101, 102] {
            for fmt in 0..2 {
                grid.push(format!("{sid}:2:{}:{}:{fmt}", 1 + rng.usize(4), rng.usize(100000)));
            }
        }
        for _ in 0..n.saturating_sub(6) {
            grid.push(format!("{}:{}", gen_spec(&mut rng, &SCHEMAS), rng.usize(2)));
        }
        for spec in grid {
            let (_, trace) = fault_free_trace(&spec);
            let sid: usize = spec.split(':').next().unwrap().parse().unwrap();
            for (sched, kind) in schedules_for(&trace) {
                let line = format!("C18 avrowf {spec} {sched} {}", show_list(&trace));
                let tags = format!(
                    "op:avrowf fault:{kind} format:{} avroschema:{sid} nt",
                    ["ocf", "soe"][format_id(&spec)]
                );
                emit(&mut sink, line, &tags);
            }
        }
    }
    sink.finish();
}
