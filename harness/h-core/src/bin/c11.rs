//! C11 correspondence harness: the arrow-row row format is order-preserving, injective and
//! invertible.
//!
//! Case line: `C11 enc <mode> <schema> <rows>` (see the grammar in `Parser` below).
//! Answer: lower-case hex of every row's bytes joined by `,` (`-` for zero rows),
//! `ERR:<class>` or `PANIC`.
//!
//! Besides producing the answer for the Lean model, `run_case` checks the property directly
//! on the implementation (order/equality against a logical comparator, `convert_rows` round
//! trips, the binary round trip, independence of the way the rows were produced) and reports
//! every disagreement as an oracle failure.
//!
//! The physical layout of the arrays (dictionary contents, run boundaries, list-view offsets,
//! junk under null slots, child offsets …) is not part of the case line: it is drawn from an
//! Rng seeded with a hash of the line, so a replay of the line is exact.
use std::cmp::Ordering;
use std::collections::HashMap;
use std::panic::{AssertUnwindSafe, catch_unwind};
use std::sync::Arc;

use arrow_array::builder::{BinaryViewBuilder, StringViewBuilder};
use arrow_array::cast::AsArray;
use arrow_array::types::*;
use arrow_array::*;
use arrow_buffer::{
    ArrowNativeType, BooleanBuffer, Buffer, MutableBuffer, NullBuffer, OffsetBuffer, ScalarBuffer, i256,
};
use arrow_data::ArrayData;
use arrow_ord::ord::{DynComparator, make_comparator};
use arrow_row::{RowConverter, Rows, SortField};
use arrow_schema::{ArrowError, DataType, Field, Fields, IntervalUnit, SortOptions, TimeUnit, UnionFields, UnionMode};
use vcommon::*;

// ------------------------------------------------------------------------------------------
// types and values
// ------------------------------------------------------------------------------------------

#[derive(Clone, Copy, Debug, PartialEq, Eq)]
enum BK {
    Bin,
    LBin,
    BinV,
    Utf8,
    LUtf8,
    Utf8V,
}
impl BK {
    fn name(self) -> &'static str {
        match self {
            BK::Bin => "bin",
            BK::LBin => "lbin",
            BK::BinV => "binv",
            BK::Utf8 => "utf8",
            BK::LUtf8 => "lutf8",
            BK::Utf8V => "utf8v",
        }
    }
    fn is_utf8(self) -> bool {
        matches!(self, BK::Utf8 | BK::LUtf8 | BK::Utf8V)
    }
}

#[derive(Clone, Copy, Debug, PartialEq, Eq)]
enum LK {
    L,
    LL,
    LV,
    LLV,
}
impl LK {
    fn name(self) -> &'static str {
        match self {
            LK::L => "L",
            LK::LL => "LL",
            LK::LV => "LV",
            LK::LLV => "LLV",
        }
    }
}

#[derive(Clone, Debug, PartialEq)]
enum Ty {
    Int { bits: u32, signed: bool, tag: String },
    Float(u32),
    Bool,
    Bytes(BK),
    Fsb(usize),
    /// interval with several signed components: 2 = IntervalDayTime (days, ms), 3 = IntervalMonthDayNano
    Iv(u8),
    Null,
    Struct(Vec<Ty>),
    List(LK, Box<Ty>),
    Fsl(usize, Box<Ty>),
    /// key type word (`i8` … `u64`)
    Dict(String, Box<Ty>),
    /// run-end bits 16/32/64
    Ree(u32, Box<Ty>),
    Map(Box<Ty>, Box<Ty>),
    Union { dense: bool, ids: Vec<i8>, kids: Vec<Ty> },
}

#[derive(Clone, Debug, PartialEq)]
enum Val {
    Null,
    Int(i256),
    /// raw bit pattern
    Float(u64),
    Bool(bool),
    Bytes(Vec<u8>),
    /// interval components, most significant first
    Ints(Vec<i64>),
    Struct(Vec<Val>),
    /// list / fixed size list / map (map entries are `Struct([k, v])`)
    List(Vec<Val>),
    /// field index (not type id), value
    Union(usize, Box<Val>),
}

impl Ty {
    fn is_nested(&self) -> bool {
        !matches!(self, Ty::Int { .. } | Ty::Float(_) | Ty::Bool | Ty::Bytes(_) | Ty::Fsb(_) | Ty::Iv(_) | Ty::Null)
    }
    fn has_union(&self) -> bool {
        match self {
            Ty::Union { .. } => true,
            Ty::Struct(k) => k.iter().any(|t| t.has_union()),
            Ty::List(_, e) | Ty::Fsl(_, e) | Ty::Dict(_, e) | Ty::Ree(_, e) => e.has_union(),
            Ty::Map(k, v) => k.has_union() || v.has_union(),
            _ => false,
        }
    }
    /// leading type word without parameters (for tags)
    fn kind(&self) -> String {
        match self {
            Ty::Int { bits, signed, .. } => format!("{}{}", if *signed { 'i' } else { 'u' }, bits),
            Ty::Float(b) => format!("f{}", b),
            Ty::Bool => "b".into(),
            Ty::Bytes(k) => k.name().into(),
            Ty::Fsb(_) => "fsb".into(),
            Ty::Iv(k) => if *k == 2 { "ivdt" } else { "ivmdn" }.into(),
            Ty::Null => "null".into(),
            Ty::Struct(_) => "S".into(),
            Ty::List(k, _) => k.name().into(),
            Ty::Fsl(..) => "F".into(),
            Ty::Dict(..) => "D".into(),
            Ty::Ree(..) => "R".into(),
            Ty::Map(..) => "M".into(),
            Ty::Union { dense, .. } => if *dense { "Ud" } else { "Us" }.into(),
        }
    }
}

fn has_dict(t: &Ty) -> bool {
    match t {
        Ty::Dict(..) => true,
        Ty::Struct(k) => k.iter().any(has_dict),
        Ty::List(_, e) | Ty::Fsl(_, e) | Ty::Ree(_, e) => has_dict(e),
        Ty::Map(k, v) => has_dict(k) || has_dict(v),
        Ty::Union { kids, .. } => kids.iter().any(has_dict),
        _ => false,
    }
}

/// predicates over the schema that identify the known union findings (tags `u:*`):
/// `u:desc` — a Union codec runs with `descending = true` (top level, or below struct /
/// fixed-size list / dictionary of a descending field; list, map, run-end and union children
/// are always encoded ascending); `u:dense-id-ge-n` — a dense union has a type id that is not
/// smaller than its number of fields; `u:dict-child` — a union has a dictionary somewhere below it
fn union_preds(t: &Ty, desc: bool, xt: &mut Vec<String>) {
    let mut add = |s: &str| {
        if !xt.iter().any(|x| x == s) {
            xt.push(s.to_string())
        }
    };
    match t {
        Ty::Union { dense, ids, kids } => {
            if desc {
                add("u:desc");
            }
            if *dense && ids.iter().any(|x| *x as usize >= ids.len()) {
                add("u:dense-id-ge-n");
            }
            if kids.iter().any(has_dict) {
                add("u:dict-child");
            }
            kids.iter().for_each(|k| union_preds(k, false, xt));
        }
        Ty::Struct(ks) => ks.iter().for_each(|k| union_preds(k, desc, xt)),
        Ty::Fsl(_, e) | Ty::Dict(_, e) => union_preds(e, desc, xt),
        Ty::List(_, e) | Ty::Ree(_, e) => union_preds(e, false, xt),
        Ty::Map(k, v) => {
            union_preds(k, false, xt);
            union_preds(v, false, xt)
        }
        _ => {}
    }
}

fn contiguous(ids: &[i8]) -> bool {
    ids.iter().enumerate().all(|(i, x)| *x as usize == i)
}

fn show_ty(t: &Ty) -> String {
    let list = |ks: &[Ty]| ks.iter().map(show_ty).collect::<Vec<_>>().join(",");
    match t {
        Ty::Int { bits, signed, tag } => {
            let base = format!("{}{}", if *signed { 'i' } else { 'u' }, bits);
            if tag.is_empty() { base } else { format!("{}~{}", base, tag) }
        }
        Ty::Float(b) => format!("f{}", b),
        Ty::Bool => "b".into(),
        Ty::Bytes(k) => k.name().into(),
        Ty::Fsb(n) => format!("fsb{}", n),
        Ty::Iv(k) => if *k == 2 { "ivdt" } else { "ivmdn" }.into(),
        Ty::Null => "null".into(),
        Ty::Struct(ks) => format!("S({})", list(ks)),
        Ty::List(k, e) => format!("{}({})", k.name(), show_ty(e)),
        Ty::Fsl(n, e) => format!("F{}({})", n, show_ty(e)),
        Ty::Dict(k, e) => format!("D{}({})", k, show_ty(e)),
        Ty::Ree(b, e) => format!("Ri{}({})", b, show_ty(e)),
        Ty::Map(k, v) => format!("M({},{})", show_ty(k), show_ty(v)),
        Ty::Union { dense, ids, kids } => {
            let idp = if contiguous(ids) {
                String::new()
            } else {
                ids.iter().map(|i| i.to_string()).collect::<Vec<_>>().join(".")
            };
            format!("U{}{}({})", if *dense { 'd' } else { 's' }, idp, list(kids))
        }
    }
}

fn hx(b: &[u8]) -> String {
    let mut s = String::with_capacity(b.len() * 2);
    for x in b {
        s.push(char::from_digit((*x >> 4) as u32, 16).unwrap());
        s.push(char::from_digit((*x & 15) as u32, 16).unwrap());
    }
    s
}

fn show_val(v: &Val) -> String {
    let list = |vs: &[Val]| vs.iter().map(show_val).collect::<Vec<_>>().join(",");
    match v {
        Val::Null => "n".into(),
        Val::Int(x) => x.to_string(),
        Val::Float(b) => b.to_string(),
        Val::Bool(b) => if *b { "1" } else { "0" }.into(),
        Val::Bytes(b) => format!("x{}", hx(b)),
        Val::Ints(c) => c.iter().map(|x| x.to_string()).collect::<Vec<_>>().join("/"),
        Val::Struct(vs) => format!("({})", list(vs)),
        Val::List(vs) => format!("[{}]", list(vs)),
        Val::Union(i, v) => format!("u{}:{}", i, show_val(v)),
    }
}

// ------------------------------------------------------------------------------------------
// parser (recursive descent over bytes)
// ------------------------------------------------------------------------------------------

struct Parser<'a> {
    s: &'a [u8],
    i: usize,
}

type PR<T> = Result<T, String>;

const KEY_WORDS: [&str; 8] = ["i8", "i16", "i32", "i64", "u8", "u16", "u32", "u64"];

impl<'a> Parser<'a> {
    fn new(s: &'a str) -> Self {
        Parser { s: s.as_bytes(), i: 0 }
    }
    fn peek(&self) -> Option<u8> {
        self.s.get(self.i).copied()
    }
    fn eat(&mut self, c: u8) -> PR<()> {
        if self.peek() == Some(c) {
            self.i += 1;
            Ok(())
        } else {
            Err(format!("expected '{}' at {}", c as char, self.i))
        }
    }
    fn done(&self) -> bool {
        self.i >= self.s.len()
    }
    fn take_while(&mut self, f: impl Fn(u8) -> bool) -> &'a str {
        let st = self.i;
        while self.i < self.s.len() && f(self.s[self.i]) {
            self.i += 1;
        }
        std::str::from_utf8(&self.s[st..self.i]).unwrap()
    }

    fn leaf(w: &str) -> PR<Ty> {
        Ok(match w {
            "b" => Ty::Bool,
            "null" => Ty::Null,
            "bin" => Ty::Bytes(BK::Bin),
            "lbin" => Ty::Bytes(BK::LBin),
            "binv" => Ty::Bytes(BK::BinV),
            "utf8" => Ty::Bytes(BK::Utf8),
            "lutf8" => Ty::Bytes(BK::LUtf8),
            "utf8v" => Ty::Bytes(BK::Utf8V),
            "ivdt" => Ty::Iv(2),
            "ivmdn" => Ty::Iv(3),
            "f16" => Ty::Float(16),
            "f32" => Ty::Float(32),
            "f64" => Ty::Float(64),
            _ => {
                if let Some(n) = w.strip_prefix("fsb") {
                    return Ok(Ty::Fsb(n.parse().map_err(|_| format!("bad fsb {}", w))?));
                }
                let (base, tag) = match w.split_once('~') {
                    Some((b, t)) => (b, t),
                    None => (w, ""),
                };
                let signed = match base.as_bytes().first() {
                    Some(b'i') => true,
                    Some(b'u') => false,
                    _ => return Err(format!("bad type word {}", w)),
                };
                let bits: u32 = base[1..].parse().map_err(|_| format!("bad type word {}", w))?;
                if int_dtype(bits, signed, tag).is_none() {
                    return Err(format!("unknown int type {}", w));
                }
                Ty::Int { bits, signed, tag: tag.to_string() }
            }
        })
    }

    fn ty(&mut self) -> PR<Ty> {
        let w = self.take_while(|c| c.is_ascii_alphanumeric() || c == b'~' || c == b'.');
        if self.peek() != Some(b'(') {
            return Self::leaf(w);
        }
        self.i += 1;
        let mut kids = vec![];
        if self.peek() == Some(b')') {
            self.i += 1;
        } else {
            loop {
                kids.push(self.ty()?);
                match self.peek() {
                    Some(b',') => self.i += 1,
                    Some(b')') => {
                        self.i += 1;
                        break;
                    }
                    _ => return Err(format!("expected , or ) at {}", self.i)),
                }
            }
        }
        let one = |mut k: Vec<Ty>| -> PR<Box<Ty>> {
            if k.len() == 1 { Ok(Box::new(k.pop().unwrap())) } else { Err(format!("{} wants one child", w)) }
        };
        match w {
            "S" => Ok(Ty::Struct(kids)),
            "L" => Ok(Ty::List(LK::L, one(kids)?)),
            "LL" => Ok(Ty::List(LK::LL, one(kids)?)),
            "LV" => Ok(Ty::List(LK::LV, one(kids)?)),
            "LLV" => Ok(Ty::List(LK::LLV, one(kids)?)),
            "M" => {
                if kids.len() != 2 {
                    return Err("M wants two children".into());
                }
                let v = kids.pop().unwrap();
                let k = kids.pop().unwrap();
                Ok(Ty::Map(Box::new(k), Box::new(v)))
            }
            _ if w.starts_with('F') => {
                let n = w[1..].parse().map_err(|_| format!("bad F size {}", w))?;
                Ok(Ty::Fsl(n, one(kids)?))
            }
            _ if w.starts_with('D') => {
                if !KEY_WORDS.contains(&&w[1..]) {
                    return Err(format!("bad dictionary key {}", w));
                }
                Ok(Ty::Dict(w[1..].to_string(), one(kids)?))
            }
            _ if w.starts_with("Ri") => {
                let b: u32 = w[2..].parse().map_err(|_| format!("bad run end type {}", w))?;
                if ![16, 32, 64].contains(&b) {
                    return Err(format!("bad run end type {}", w));
                }
                Ok(Ty::Ree(b, one(kids)?))
            }
            _ if w.starts_with("Us") || w.starts_with("Ud") => {
                let dense = w.as_bytes()[1] == b'd';
                let ids: Vec<i8> = if w.len() == 2 {
                    (0..kids.len() as i8).collect()
                } else {
                    w[2..].split('.').map(|x| x.parse::<i8>().map_err(|_| format!("bad union id {}", w))).collect::<PR<_>>()?
                };
                if ids.len() != kids.len() || kids.is_empty() || ids.iter().any(|i| *i < 0) {
                    return Err(format!("bad union {}", w));
                }
                Ok(Ty::Union { dense, ids, kids })
            }
            _ => Err(format!("unknown nested type {}", w)),
        }
    }

    fn val_list(&mut self, close: u8, mut item: impl FnMut(&mut Self, usize) -> PR<Val>) -> PR<Vec<Val>> {
        let mut out = vec![];
        if self.peek() == Some(close) {
            self.i += 1;
            return Ok(out);
        }
        loop {
            let k = out.len();
            out.push(item(self, k)?);
            match self.peek() {
                Some(b',') => self.i += 1,
                Some(c) if c == close => {
                    self.i += 1;
                    return Ok(out);
                }
                _ => return Err(format!("expected , or {} at {}", close as char, self.i)),
            }
        }
    }

    fn val(&mut self, ty: &Ty) -> PR<Val> {
        if self.peek() == Some(b'n') {
            if matches!(ty, Ty::Union { .. }) {
                return Err("a union slot cannot be n".into());
            }
            self.i += 1;
            return Ok(Val::Null);
        }
        match ty {
            Ty::Null => Err("null type wants n".into()),
            Ty::Int { bits, signed, .. } => {
                let w = self.take_while(|c| c == b'-' || c.is_ascii_digit());
                let v = i256::from_string(w).ok_or_else(|| format!("bad int {}", w))?;
                if wrap_int(v, *bits, *signed) != v {
                    return Err(format!("int {} out of range", w));
                }
                Ok(Val::Int(v))
            }
            Ty::Iv(k) => {
                let w = self.take_while(|c| c == b'-' || c == b'/' || c.is_ascii_digit());
                let c: Vec<i64> = w.split('/').map(|x| x.parse::<i64>()).collect::<Result<_, _>>().map_err(|_| format!("bad interval {}", w))?;
                if c.len() != *k as usize || c[0] != c[0] as i32 as i64 || c[1] != c[1] as i32 as i64 {
                    return Err(format!("bad interval {}", w));
                }
                Ok(Val::Ints(c))
            }
            Ty::Float(b) => {
                let w = self.take_while(|c| c.is_ascii_digit());
                let v: u64 = w.parse().map_err(|_| format!("bad float bits {}", w))?;
                if *b < 64 && v >> *b != 0 {
                    return Err("float bits out of range".into());
                }
                Ok(Val::Float(v))
            }
            Ty::Bool => {
                let c = self.peek();
                self.i += 1;
                match c {
                    Some(b'0') => Ok(Val::Bool(false)),
                    Some(b'1') => Ok(Val::Bool(true)),
                    _ => Err("bad bool".into()),
                }
            }
            Ty::Bytes(k) => {
                self.eat(b'x')?;
                let w = self.take_while(|c| c.is_ascii_hexdigit());
                if w.len() % 2 != 0 {
                    return Err("odd hex".into());
                }
                let b = if w.is_empty() { vec![] } else { unhex(w) };
                if k.is_utf8() && std::str::from_utf8(&b).is_err() {
                    return Err("invalid utf8".into());
                }
                Ok(Val::Bytes(b))
            }
            Ty::Fsb(n) => {
                self.eat(b'x')?;
                let w = self.take_while(|c| c.is_ascii_hexdigit());
                if w.len() != 2 * n {
                    return Err("fsb length".into());
                }
                Ok(Val::Bytes(if w.is_empty() { vec![] } else { unhex(w) }))
            }
            Ty::Struct(ks) => {
                self.eat(b'(')?;
                let vs = self.val_list(b')', |p, k| {
                    let t = ks.get(k).ok_or("too many struct children")?;
                    p.val(t)
                })?;
                if vs.len() != ks.len() {
                    return Err("struct arity".into());
                }
                Ok(Val::Struct(vs))
            }
            Ty::List(_, e) => {
                self.eat(b'[')?;
                Ok(Val::List(self.val_list(b']', |p, _| p.val(e))?))
            }
            Ty::Fsl(n, e) => {
                self.eat(b'[')?;
                let vs = self.val_list(b']', |p, _| p.val(e))?;
                if vs.len() != *n {
                    return Err("fixed size list arity".into());
                }
                Ok(Val::List(vs))
            }
            Ty::Map(k, v) => {
                self.eat(b'[')?;
                Ok(Val::List(self.val_list(b']', |p, _| {
                    p.eat(b'(')?;
                    let kv = p.val(k)?;
                    if kv == Val::Null {
                        return Err("null map key".into());
                    }
                    p.eat(b',')?;
                    let vv = p.val(v)?;
                    p.eat(b')')?;
                    Ok(Val::Struct(vec![kv, vv]))
                })?))
            }
            Ty::Dict(_, e) | Ty::Ree(_, e) => self.val(e),
            Ty::Union { kids, .. } => {
                self.eat(b'u')?;
                let w = self.take_while(|c| c.is_ascii_digit());
                let idx: usize = w.parse().map_err(|_| "bad union index".to_string())?;
                self.eat(b':')?;
                let t = kids.get(idx).ok_or("union index out of range")?;
                Ok(Val::Union(idx, Box::new(self.val(t)?)))
            }
        }
    }
}

#[derive(Clone, Debug)]
struct FieldSpec {
    ty: Ty,
    desc: bool,
    nf: bool,
}
impl FieldSpec {
    fn opts(&self) -> SortOptions {
        SortOptions { descending: self.desc, nulls_first: self.nf }
    }
}

#[derive(Clone, Debug, PartialEq)]
enum Mode {
    One,
    App(usize),
    Each,
    Sl(usize),
    /// append, push, `clear()`, `reserve`, then two appends (history: rows object reused)
    Clr,
    /// rows [0,k) converted, `try_into_binary`, `from_binary`, then rows [k,n) appended onto it
    Bin(usize),
    /// k junk rows in front and two behind, `try_into_binary`, the BinaryArray *sliced* to the
    /// real rows (first offset != 0, values buffer longer than the last offset), `from_binary`
    Bsl(usize),
    /// like `Bsl` but junk rows only in front (the values buffer ends with the last row)
    Bsf(usize),
    /// rows [0,k) pushed one by one as `RowParser::parse`d rows into `empty_rows`, rest appended
    Psh(usize),
}

struct Case {
    mode: Mode,
    fields: Vec<FieldSpec>,
    /// column major
    cols: Vec<Vec<Val>>,
    n: usize,
}

fn parse_case(line: &str) -> PR<Case> {
    let t: Vec<&str> = line.split(' ').collect();
    if t.len() != 5 || t[0] != "C11" || t[1] != "enc" {
        return Err("bad-op".into());
    }
    let num = |s: &str| s.parse::<usize>().map_err(|_| format!("bad mode {}", s));
    let mode = match t[2] {
        "one" => Mode::One,
        "each" => Mode::Each,
        m if m.starts_with("app") => Mode::App(num(&m[3..])?),
        m if m.starts_with("sl") => Mode::Sl(num(&m[2..])?),
        "clr" => Mode::Clr,
        m if m.starts_with("bin") => Mode::Bin(num(&m[3..])?),
        m if m.starts_with("bsl") => Mode::Bsl(num(&m[3..])?),
        m if m.starts_with("bsf") => Mode::Bsf(num(&m[3..])?),
        m if m.starts_with("psh") => Mode::Psh(num(&m[3..])?),
        m => return Err(format!("bad mode {}", m)),
    };
    let mut p = Parser::new(t[3]);
    let mut fields = vec![];
    loop {
        let ty = p.ty()?;
        p.eat(b':')?;
        let bit = |p: &mut Parser| -> PR<bool> {
            let c = p.peek();
            p.i += 1;
            match c {
                Some(b'0') => Ok(false),
                Some(b'1') => Ok(true),
                _ => Err("bad option bit".into()),
            }
        };
        let desc = bit(&mut p)?;
        let nf = bit(&mut p)?;
        fields.push(FieldSpec { ty, desc, nf });
        if p.done() {
            break;
        }
        p.eat(b',')?;
    }
    let mut cols: Vec<Vec<Val>> = vec![vec![]; fields.len()];
    let mut n = 0;
    if t[4] != "-" {
        let mut p = Parser::new(t[4]);
        while !p.done() {
            p.eat(b'(')?;
            for (c, f) in fields.iter().enumerate() {
                if c > 0 {
                    p.eat(b',')?;
                }
                cols[c].push(p.val(&f.ty)?);
            }
            p.eat(b')')?;
            n += 1;
        }
    }
    Ok(Case { mode, fields, cols, n })
}

// ------------------------------------------------------------------------------------------
// Arrow data types
// ------------------------------------------------------------------------------------------

const I32_TAGS: [&str; 5] = ["date32", "time32s", "time32ms", "ivym", "dec32"];
const I64_TAGS: [&str; 16] = [
    "date64", "tss", "tsms", "tsus", "tsns", "tssz", "tsmsz", "tsusz", "tsnsz", "time64us", "time64ns", "durs", "durms",
    "durus", "durns", "dec64",
];

/// the Arrow logical type for an integer type word and tag (decimals get a fixed precision/scale)
fn int_dtype(bits: u32, signed: bool, tag: &str) -> Option<DataType> {
    use DataType::*;
    let tz = || Some(Arc::from("+01:00"));
    Some(match (signed, bits, tag) {
        (true, 8, "") => Int8,
        (true, 16, "") => Int16,
        (true, 32, "") => Int32,
        (true, 64, "") => Int64,
        (false, 8, "") => UInt8,
        (false, 16, "") => UInt16,
        (false, 32, "") => UInt32,
        (false, 64, "") => UInt64,
        (true, 32, "date32") => Date32,
        (true, 32, "time32s") => Time32(TimeUnit::Second),
        (true, 32, "time32ms") => Time32(TimeUnit::Millisecond),
        (true, 32, "ivym") => Interval(IntervalUnit::YearMonth),
        (true, 32, "dec32") => Decimal32(9, 2),
        (true, 64, "date64") => Date64,
        (true, 64, "tss") => Timestamp(TimeUnit::Second, None),
        (true, 64, "tsms") => Timestamp(TimeUnit::Millisecond, None),
        (true, 64, "tsus") => Timestamp(TimeUnit::Microsecond, None),
        (true, 64, "tsns") => Timestamp(TimeUnit::Nanosecond, None),
        (true, 64, "tssz") => Timestamp(TimeUnit::Second, tz()),
        (true, 64, "tsmsz") => Timestamp(TimeUnit::Millisecond, tz()),
        (true, 64, "tsusz") => Timestamp(TimeUnit::Microsecond, tz()),
        (true, 64, "tsnsz") => Timestamp(TimeUnit::Nanosecond, tz()),
        (true, 64, "time64us") => Time64(TimeUnit::Microsecond),
        (true, 64, "time64ns") => Time64(TimeUnit::Nanosecond),
        (true, 64, "durs") => Duration(TimeUnit::Second),
        (true, 64, "durms") => Duration(TimeUnit::Millisecond),
        (true, 64, "durus") => Duration(TimeUnit::Microsecond),
        (true, 64, "durns") => Duration(TimeUnit::Nanosecond),
        (true, 64, "dec64") => Decimal64(18, 3),
        (true, 128, "dec128") => Decimal128(38, 10),
        (true, 256, "dec256") => Decimal256(76, 20),
        _ => return None,
    })
}

fn key_dtype(k: &str) -> DataType {
    match k {
        "i8" => DataType::Int8,
        "i16" => DataType::Int16,
        "i32" => DataType::Int32,
        "i64" => DataType::Int64,
        "u8" => DataType::UInt8,
        "u16" => DataType::UInt16,
        "u32" => DataType::UInt32,
        _ => DataType::UInt64,
    }
}

fn item_field(e: &Ty) -> Arc<Field> {
    Arc::new(Field::new("item", dtype(e), true))
}

fn dtype(t: &Ty) -> DataType {
    match t {
        Ty::Int { bits, signed, tag } => int_dtype(*bits, *signed, tag).expect("int type"),
        Ty::Iv(2) => DataType::Interval(IntervalUnit::DayTime),
        Ty::Iv(_) => DataType::Interval(IntervalUnit::MonthDayNano),
        Ty::Float(16) => DataType::Float16,
        Ty::Float(32) => DataType::Float32,
        Ty::Float(_) => DataType::Float64,
        Ty::Bool => DataType::Boolean,
        Ty::Bytes(BK::Bin) => DataType::Binary,
        Ty::Bytes(BK::LBin) => DataType::LargeBinary,
        Ty::Bytes(BK::BinV) => DataType::BinaryView,
        Ty::Bytes(BK::Utf8) => DataType::Utf8,
        Ty::Bytes(BK::LUtf8) => DataType::LargeUtf8,
        Ty::Bytes(BK::Utf8V) => DataType::Utf8View,
        Ty::Fsb(n) => DataType::FixedSizeBinary(*n as i32),
        Ty::Null => DataType::Null,
        Ty::Struct(ks) => DataType::Struct(Fields::from(
            ks.iter().enumerate().map(|(i, k)| Field::new(format!("c{}", i), dtype(k), true)).collect::<Vec<_>>(),
        )),
        Ty::List(LK::L, e) => DataType::List(item_field(e)),
        Ty::List(LK::LL, e) => DataType::LargeList(item_field(e)),
        Ty::List(LK::LV, e) => DataType::ListView(item_field(e)),
        Ty::List(LK::LLV, e) => DataType::LargeListView(item_field(e)),
        Ty::Fsl(n, e) => DataType::FixedSizeList(item_field(e), *n as i32),
        Ty::Dict(k, e) => DataType::Dictionary(Box::new(key_dtype(k)), Box::new(dtype(e))),
        Ty::Ree(b, e) => {
            let r = match b {
                16 => DataType::Int16,
                32 => DataType::Int32,
                _ => DataType::Int64,
            };
            DataType::RunEndEncoded(Arc::new(Field::new("run_ends", r, false)), Arc::new(Field::new("values", dtype(e), true)))
        }
        Ty::Map(k, v) => {
            let entries = DataType::Struct(Fields::from(vec![
                Field::new("keys", dtype(k), false),
                Field::new("values", dtype(v), true),
            ]));
            DataType::Map(Arc::new(Field::new("entries", entries, false)), false)
        }
        Ty::Union { dense, ids, kids } => {
            let fields: Vec<Field> = kids.iter().enumerate().map(|(i, k)| Field::new(format!("f{}", i), dtype(k), true)).collect();
            let uf = UnionFields::try_new(ids.iter().copied(), fields).expect("union fields");
            DataType::Union(uf, if *dense { UnionMode::Dense } else { UnionMode::Sparse })
        }
    }
}

// ------------------------------------------------------------------------------------------
// integer helpers
// ------------------------------------------------------------------------------------------

/// reduce `v` to `bits` bits (two's complement), then sign- or zero-extend
fn wrap_int(v: i256, bits: u32, signed: bool) -> i256 {
    let mut b = v.to_le_bytes();
    let w = (bits / 8) as usize;
    if w >= 32 {
        return v;
    }
    let fill = if signed && b[w - 1] & 0x80 != 0 { 0xFF } else { 0 };
    for x in b.iter_mut().skip(w) {
        *x = fill;
    }
    i256::from_le_bytes(b)
}

fn pow2(k: u32) -> i256 {
    let mut b = [0u8; 32];
    b[(k / 8) as usize] = 1 << (k % 8);
    i256::from_le_bytes(b)
}

fn int_min(bits: u32, signed: bool) -> i256 {
    if signed { wrap_int(pow2(bits - 1), bits, true) } else { i256::ZERO }
}
fn int_max(bits: u32, signed: bool) -> i256 {
    if signed { pow2(bits - 1).wrapping_sub(i256::ONE) } else { wrap_int(i256::MINUS_ONE, bits, false) }
}

// ------------------------------------------------------------------------------------------
// value generation (used by the case generator and for junk rows / junk under null slots)
// ------------------------------------------------------------------------------------------

struct Gen {
    rng: Rng,
    pool: Vec<Vec<u8>>,
    lists: HashMap<String, Vec<Vec<Val>>>,
    /// interval values drawn so far in this case (to share more significant components)
    ivs: Vec<Vec<i64>>,
}

const LENS: [usize; 30] = [0, 1, 7, 8, 9, 11, 12, 13, 15, 16, 17, 23, 24, 25, 31, 32, 33, 63, 64, 65, 95, 96, 97, 127, 128, 129, 160, 255, 256, 257];

impl Gen {
    fn new(rng: Rng) -> Self {
        Gen { rng, pool: vec![], lists: HashMap::new(), ivs: vec![] }
    }
    fn reset(&mut self) {
        self.pool.clear();
        self.lists.clear();
        self.ivs.clear();
    }

    fn int(&mut self, bits: u32, signed: bool) -> i256 {
        let r = &mut self.rng;
        let v = match r.below(12) {
            0 => int_min(bits, signed),
            1 => int_max(bits, signed),
            2 => i256::MINUS_ONE,
            3 => i256::ZERO,
            4 => i256::ONE,
            5 | 6 | 7 => {
                let p = pow2(r.below(bits as u64) as u32);
                let p = match r.below(3) {
                    0 => p.wrapping_sub(i256::ONE),
                    1 => p,
                    _ => p.wrapping_add(i256::ONE),
                };
                if r.bool() { p.wrapping_neg() } else { p }
            }
            8 => {
                // byte-boundary patterns: a leading byte followed by all-00 or all-ff bytes
                let w = (bits / 8) as usize;
                let m = 1 + r.usize(w);
                let mut b = [0u8; 32];
                let low = if r.bool() { 0xFF } else { 0x00 };
                for x in b.iter_mut().take(m - 1) {
                    *x = low;
                }
                b[m - 1] = *r.pick(&[0x7Fu8, 0x80, 0xFF, 0x01, 0x00, 0xFE]);
                let v = i256::from_le_bytes(b);
                if r.chance(1, 4) { v.wrapping_neg() } else { v }
            }
            9 => i256::from_i128(r.range(-300, 300) as i128),
            _ => {
                let mut b = [0u8; 32];
                for x in b.iter_mut() {
                    *x = r.next_u64() as u8;
                }
                i256::from_le_bytes(b)
            }
        };
        wrap_int(v, bits, signed)
    }

    /// interval components (k = 2: days, ms; k = 3: months, days, nanos).  Dense on the
    /// interesting pairs: usually an earlier value of the case is taken, a prefix of its
    /// components kept, and the less significant ones redrawn from a small set containing both
    /// signs — so that every component decides the order with both signs while the more
    /// significant components are equal.
    fn interval(&mut self, k: u8) -> Vec<i64> {
        let k = k as usize;
        let comp = |r: &mut Rng, idx: usize| -> i64 {
            let wide = k == 3 && idx == 2;
            let (mn, mx) = if wide { (i64::MIN, i64::MAX) } else { (i32::MIN as i64, i32::MAX as i64) };
            match r.below(12) {
                0 => mn,
                1 => mx,
                2 | 3 => -1500,
                4 | 5 => 2000,
                6 => -1,
                7 => 0,
                8 => 1,
                9 => if wide { -(1i64 << 32) } else { -65536 },
                10 => if wide { 1i64 << 32 } else { 65536 },
                _ => if wide { r.next_u64() as i64 } else { r.next_u64() as i32 as i64 },
            }
        };
        let same: Vec<&Vec<i64>> = self.ivs.iter().filter(|c| c.len() == k).collect();
        let v = if !same.is_empty() && self.rng.chance(3, 4) {
            let base = same[self.rng.usize(same.len())].clone();
            let keep = self.rng.usize(k + 1); // keep `keep` most significant components
            (0..k).map(|i| if i < keep { base[i] } else { comp(&mut self.rng, i) }).collect()
        } else {
            (0..k).map(|i| comp(&mut self.rng, i)).collect::<Vec<i64>>()
        };
        self.ivs.push(v.clone());
        v
    }

    fn float(&mut self, bits: u32) -> u64 {
        let r = &mut self.rng;
        let (e, m): (u32, u32) = match bits {
            16 => (5, 10),
            32 => (8, 23),
            _ => (11, 52),
        };
        let emax = (1u64 << e) - 1;
        let mmax = (1u64 << m) - 1;
        let mk = |s: u64, ex: u64, ma: u64| (s << (e + m)) | (ex << m) | ma;
        let s = r.below(2);
        match r.below(12) {
            0 => mk(s, 0, 0),
            1 => mk(s, emax, 0),
            2 => {
                // NaN with various payloads
                let p = match r.below(5) {
                    0 => 1u64 << (m - 1),
                    1 => 1,
                    2 => mmax,
                    3 => (1u64 << (m - 1)) | 1,
                    _ => 1 + r.below(mmax),
                };
                mk(s, emax, p)
            }
            3 => mk(s, 0, *r.pick(&[1u64, 2, mmax, mmax - 1])),
            4 => mk(s, 0, 1 + r.below(mmax)),
            5 => mk(s, emax >> 1, 0),
            6 => mk(s, emax - 1, mmax),
            7 => mk(s, 1, 0),
            8 => mk(s, (emax >> 1) + r.below(3), r.below(4)),
            _ => {
                let v = r.next_u64();
                if bits == 64 { v } else { v & ((1u64 << bits) - 1) }
            }
        }
    }

    fn utf8_of_len(&mut self, len: usize) -> Vec<u8> {
        let r = &mut self.rng;
        let class = r.below(5);
        let multi = ['é', 'ÿ', '€', '\u{7ff}', '\u{800}', '\u{ffff}', '😀', '\u{10ffff}', '\u{80}'];
        let mut s = String::new();
        while s.len() < len {
            let c = match class {
                0 => (b'a' + r.below(26) as u8) as char,
                1 => *r.pick(&['\0', '\0', 'a', '\u{7f}', '\u{1}']),
                2 => *r.pick(&multi),
                3 => {
                    if r.bool() { *r.pick(&multi) } else { (0x20 + r.below(0x5f) as u8) as char }
                }
                _ => '\0',
            };
            if s.len() + c.len_utf8() <= len {
                s.push(c);
            } else {
                s.push(*r.pick(&['a', '\0', '\u{7f}']));
            }
        }
        s.into_bytes()
    }

    fn bytes_of_len(&mut self, len: usize) -> Vec<u8> {
        let r = &mut self.rng;
        match r.below(5) {
            0 => vec![0u8; len],
            1 => vec![0xFFu8; len],
            2 => (0..len).map(|_| *r.pick(&[0u8, 0, 0xFF, 0xFF, 1, 0xFE, 0x20])).collect(),
            3 => {
                let mut v = r.bytes(len);
                for x in v.iter_mut() {
                    if r.chance(1, 3) {
                        *x = if r.bool() { 0 } else { 0xFF };
                    }
                }
                v
            }
            _ => r.bytes(len),
        }
    }

    fn fix_utf8(b: &mut Vec<u8>) {
        if let Err(e) = std::str::from_utf8(b) {
            let k = e.valid_up_to();
            b.truncate(k);
        }
    }

    fn bytes(&mut self, utf8: bool, depth: usize) -> Vec<u8> {
        let b = if !self.pool.is_empty() && self.rng.chance(35, 100) {
            let k = self.rng.usize(self.pool.len());
            let mut b = self.pool[k].clone();
            let r = &mut self.rng;
            match r.below(7) {
                0 => {
                    let k = 1 + r.usize(3);
                    b.truncate(b.len().saturating_sub(k));
                }
                1 => {
                    for _ in 0..1 + r.usize(3) {
                        b.push(if utf8 { *r.pick(&[0u8, b'a', 0x7f, 1]) } else { *r.pick(&[0u8, 0xFF, 1, 0xFE, 0x61]) });
                    }
                }
                2 => {
                    if let Some(l) = b.last_mut() {
                        if !utf8 {
                            *l = *r.pick(&[l.wrapping_add(1), l.wrapping_sub(1), 0, 0xFF]);
                        } else if *l < 0x80 {
                            *l = *r.pick(&[(*l + 1) & 0x7f, l.saturating_sub(1), 0, 0x7f]);
                        }
                    }
                }
                3 => b.push(0),
                4 => {
                    let t = *r.pick(&[8usize, 16, 24, 32, 64, 7, 9, 31, 33]);
                    if b.len() > t {
                        b.truncate(t);
                    }
                }
                5 => {
                    // extend up to / just over a block boundary
                    let t = *r.pick(&[8usize, 9, 16, 17, 32, 33, 64, 65]);
                    while b.len() < t {
                        b.push(if utf8 { 0x61 } else { *r.pick(&[0u8, 0xFF]) });
                    }
                }
                _ => {}
            }
            if utf8 {
                Self::fix_utf8(&mut b);
            }
            b
        } else {
            let len = if depth > 0 && self.rng.chance(1, 2) {
                *self.rng.pick(&[0usize, 1, 2, 3, 7, 8, 9])
            } else if self.rng.chance(3, 5) {
                *self.rng.pick(&LENS)
            } else {
                self.rng.usize(141)
            };
            if utf8 { self.utf8_of_len(len) } else { self.bytes_of_len(len) }
        };
        if self.pool.len() < 32 {
            self.pool.push(b.clone());
        } else {
            let k = self.rng.usize(32);
            self.pool[k] = b.clone();
        }
        b
    }

    fn fsb(&mut self, n: usize) -> Vec<u8> {
        let same: Vec<usize> = (0..self.pool.len()).filter(|i| self.pool[*i].len() == n).collect();
        let b = if !same.is_empty() && n > 0 && self.rng.chance(1, 3) {
            let mut b = self.pool[*self.rng.pick(&same)].clone();
            let k = if self.rng.bool() { n - 1 } else { self.rng.usize(n) };
            b[k] = *self.rng.pick(&[b[k].wrapping_add(1), b[k].wrapping_sub(1), 0, 0xFF]);
            b
        } else {
            self.bytes_of_len(n)
        };
        if self.pool.len() < 32 {
            self.pool.push(b.clone());
        }
        b
    }

    fn list_len(&mut self) -> usize {
        match self.rng.below(20) {
            0..=3 => 0,
            4..=9 => 1,
            10..=14 => 2,
            15..=17 => 3,
            _ => 4 + self.rng.usize(2),
        }
    }

    fn list(&mut self, e: &Ty, depth: usize, elem: &mut dyn FnMut(&mut Gen) -> Val) -> Vec<Val> {
        let key = show_ty(e);
        let prev = self.lists.get(&key).map(|v| v.len()).unwrap_or(0);
        let out = if prev > 0 && self.rng.chance(1, 4) {
            let k = self.rng.usize(prev);
            let mut l = self.lists[&key][k].clone();
            match self.rng.below(4) {
                0 => {
                    l.pop();
                }
                1 => l.push(elem(self)),
                2 => {
                    if !l.is_empty() {
                        let k = l.len() - 1;
                        l[k] = elem(self);
                    }
                }
                _ => {}
            }
            l
        } else {
            let n = if depth >= 2 { self.list_len().min(2) } else { self.list_len() };
            (0..n).map(|_| elem(self)).collect()
        };
        let slot = self.lists.entry(key).or_default();
        if slot.len() < 16 {
            slot.push(out.clone());
        }
        out
    }

    fn val(&mut self, ty: &Ty, allow_null: bool, depth: usize) -> Val {
        // a union has no validity of its own, also not behind a dictionary / run-end wrapper
        fn nullable(t: &Ty) -> bool {
            match t {
                Ty::Union { .. } => false,
                Ty::Dict(_, e) | Ty::Ree(_, e) => nullable(e),
                _ => true,
            }
        }
        if allow_null && nullable(ty) && self.rng.chance(15, 100) {
            return Val::Null;
        }
        match ty {
            Ty::Null => Val::Null,
            Ty::Int { bits, signed, .. } => Val::Int(self.int(*bits, *signed)),
            Ty::Float(b) => Val::Float(self.float(*b)),
            Ty::Iv(k) => Val::Ints(self.interval(*k)),
            Ty::Bool => Val::Bool(self.rng.bool()),
            Ty::Bytes(k) => Val::Bytes(self.bytes(k.is_utf8(), depth)),
            Ty::Fsb(n) => Val::Bytes(self.fsb(*n)),
            Ty::Struct(ks) => Val::Struct(ks.iter().map(|k| self.val(k, true, depth + 1)).collect()),
            Ty::List(_, e) => Val::List(self.list(e, depth, &mut |g: &mut Gen| g.val(e, true, depth + 1))),
            Ty::Fsl(n, e) => Val::List((0..*n).map(|_| self.val(e, true, depth + 1)).collect()),
            Ty::Dict(_, e) | Ty::Ree(_, e) => self.val(e, false, depth),
            Ty::Map(k, v) => {
                let pair = Ty::Struct(vec![(**k).clone(), (**v).clone()]);
                Val::List(self.list(&pair, depth, &mut |g: &mut Gen| {
                    Val::Struct(vec![g.val(k, false, depth + 1), g.val(v, true, depth + 1)])
                }))
            }
            Ty::Union { kids, .. } => {
                let i = self.rng.usize(kids.len());
                Val::Union(i, Box::new(self.val(&kids[i], true, depth + 1)))
            }
        }
    }
}

/// the filler for a slot that is masked by a null parent in the plain layout
fn null_fill(ty: &Ty) -> Val {
    match ty {
        Ty::Union { kids, .. } => Val::Union(0, Box::new(null_fill(&kids[0]))),
        Ty::Dict(_, e) | Ty::Ree(_, e) => null_fill(e),
        _ => Val::Null,
    }
}

// ------------------------------------------------------------------------------------------
// building arrays
// ------------------------------------------------------------------------------------------

/// physical layout choices; `fancy == false` gives the plain canonical layout
struct Lay {
    g: Gen,
    fancy: bool,
}

impl Lay {
    fn plain() -> Self {
        Lay { g: Gen::new(Rng::new(0)), fancy: false }
    }
    fn fancy(seed: u64) -> Self {
        Lay { g: Gen::new(Rng::new(seed)), fancy: true }
    }
    fn ch(&mut self, a: u64, b: u64) -> bool {
        self.fancy && self.g.rng.chance(a, b)
    }
    /// value for a slot masked by a null parent
    fn filler(&mut self, ty: &Ty) -> Val {
        if self.ch(2, 3) { self.g.val(ty, false, 2) } else { null_fill(ty) }
    }
    fn junk(&mut self, ty: &Ty, nonnull: bool) -> Val {
        self.g.val(ty, !nonnull, 2)
    }
}

fn is_null(v: &Val) -> bool {
    matches!(v, Val::Null)
}

fn nulls_of(vals: &[Val], lay: &mut Lay) -> Option<NullBuffer> {
    let any = vals.iter().any(is_null);
    if any || lay.ch(1, 4) {
        Some(NullBuffer::from(vals.iter().map(|v| !is_null(v)).collect::<Vec<bool>>()))
    } else {
        None
    }
}

fn fnv(s: &str) -> u64 {
    let mut h: u64 = 0xcbf29ce484222325;
    for b in s.bytes() {
        h ^= b as u64;
        h = h.wrapping_mul(0x100000001b3);
    }
    h
}

/// build an array for `vals`; in the fancy layout the array may be a slice of a longer one
fn build(ty: &Ty, vals: &[Val], lay: &mut Lay, nonnull: bool) -> ArrayRef {
    if lay.ch(1, 5) {
        let pre = 1 + lay.g.rng.usize(3);
        let post = lay.g.rng.usize(3);
        return build_sliced(ty, vals, lay, nonnull, pre, post);
    }
    build_inner(ty, vals, lay, nonnull)
}

fn build_sliced(ty: &Ty, vals: &[Val], lay: &mut Lay, nonnull: bool, pre: usize, post: usize) -> ArrayRef {
    let mut all: Vec<Val> = (0..pre).map(|_| lay.junk(ty, nonnull)).collect();
    all.extend_from_slice(vals);
    for _ in 0..post {
        let j = lay.junk(ty, nonnull);
        all.push(j);
    }
    let a = build_inner(ty, &all, lay, nonnull);
    a.slice(pre, vals.len())
}

fn build_bytes<T: ByteArrayType>(vals: &[Val], nulls: Option<NullBuffer>, lay: &mut Lay) -> ArrayRef {
    let mut values: Vec<u8> = vec![];
    if lay.ch(1, 3) {
        values.extend_from_slice(b"junk");
    }
    let mut offs: Vec<T::Offset> = vec![T::Offset::usize_as(values.len())];
    for v in vals {
        match v {
            Val::Bytes(b) => values.extend_from_slice(b),
            Val::Null => {
                if lay.ch(1, 2) {
                    values.extend_from_slice(b"zz");
                }
            }
            _ => panic!("value/type mismatch"),
        }
        offs.push(T::Offset::usize_as(values.len()));
    }
    if lay.ch(1, 3) {
        values.extend_from_slice(b"tail");
    }
    Arc::new(
        GenericByteArray::<T>::try_new(OffsetBuffer::new(ScalarBuffer::from(offs)), Buffer::from_vec(values), nulls)
            .expect("byte array"),
    )
}

fn build_list<O: OffsetSizeTrait>(e: &Ty, vals: &[Val], nulls: Option<NullBuffer>, lay: &mut Lay) -> ArrayRef {
    let mut child: Vec<Val> = vec![];
    if lay.ch(1, 3) {
        for _ in 0..1 + lay.g.rng.usize(2) {
            let j = lay.junk(e, false);
            child.push(j);
        }
    }
    let mut offs: Vec<O> = vec![O::usize_as(child.len())];
    for v in vals {
        match v {
            Val::List(xs) => child.extend(xs.iter().cloned()),
            Val::Null => {
                if lay.ch(1, 2) {
                    let j = lay.junk(e, false);
                    child.push(j);
                }
            }
            _ => panic!("value/type mismatch"),
        }
        offs.push(O::usize_as(child.len()));
    }
    if lay.ch(1, 3) {
        let j = lay.junk(e, false);
        child.push(j);
    }
    let values = build(e, &child, lay, false);
    Arc::new(
        GenericListArray::<O>::try_new(item_field(e), OffsetBuffer::new(ScalarBuffer::from(offs)), values, nulls)
            .expect("list array"),
    )
}

fn find_sub(hay: &[Val], needle: &[Val]) -> Option<usize> {
    if needle.is_empty() || needle.len() > hay.len() {
        return None;
    }
    (0..=hay.len() - needle.len()).find(|i| &hay[*i..*i + needle.len()] == needle)
}

fn build_list_view<O: OffsetSizeTrait>(e: &Ty, vals: &[Val], nulls: Option<NullBuffer>, lay: &mut Lay) -> ArrayRef {
    let n = vals.len();
    let mut child: Vec<Val> = vec![];
    let mut offs = vec![0usize; n];
    let mut sizes = vec![0usize; n];
    let mut order: Vec<usize> = (0..n).collect();
    if lay.ch(1, 2) {
        for i in (1..n).rev() {
            let j = lay.g.rng.usize(i + 1);
            order.swap(i, j);
        }
    }
    if lay.ch(1, 3) {
        let j = lay.junk(e, false);
        child.push(j);
    }
    for idx in order {
        match &vals[idx] {
            Val::List(xs) if xs.is_empty() => {
                offs[idx] = if lay.fancy { lay.g.rng.usize(child.len() + 1) } else { child.len() };
            }
            Val::List(xs) => {
                let reuse = if lay.ch(2, 3) { find_sub(&child, xs) } else { None };
                match reuse {
                    Some(p) => offs[idx] = p,
                    None => {
                        if lay.ch(1, 5) {
                            let j = lay.junk(e, false);
                            child.push(j);
                        }
                        offs[idx] = child.len();
                        child.extend(xs.iter().cloned());
                    }
                }
                sizes[idx] = xs.len();
            }
            Val::Null => {
                if lay.ch(1, 2) && !child.is_empty() {
                    let s = lay.g.rng.usize(child.len());
                    offs[idx] = s;
                    sizes[idx] = 1 + lay.g.rng.usize(child.len() - s);
                } else {
                    offs[idx] = if lay.fancy { lay.g.rng.usize(child.len() + 1) } else { child.len() };
                }
            }
            _ => panic!("value/type mismatch"),
        }
    }
    if lay.ch(1, 3) {
        let j = lay.junk(e, false);
        child.push(j);
    }
    let values = build(e, &child, lay, false);
    let offs: Vec<O> = offs.into_iter().map(O::usize_as).collect();
    let sizes: Vec<O> = sizes.into_iter().map(O::usize_as).collect();
    Arc::new(
        GenericListViewArray::<O>::try_new(item_field(e), ScalarBuffer::from(offs), ScalarBuffer::from(sizes), values, nulls)
            .expect("list view array"),
    )
}

fn build_dict(key: &str, e: &Ty, vals: &[Val], lay: &mut Lay) -> ArrayRef {
    let mut entries: Vec<Val> = vec![];
    let mut keys: Vec<Option<usize>> = vec![];
    if lay.ch(1, 3) {
        let j = lay.junk(e, false);
        entries.push(j);
    }
    if lay.ch(1, 4) {
        entries.push(Val::Null);
    }
    for v in vals {
        if is_null(v) {
            if lay.ch(1, 2) {
                // a valid key that points at a null dictionary entry
                let p = match entries.iter().position(is_null) {
                    Some(p) => p,
                    None => {
                        entries.push(Val::Null);
                        entries.len() - 1
                    }
                };
                keys.push(Some(p));
            } else {
                keys.push(None);
            }
            continue;
        }
        let hits: Vec<usize> = (0..entries.len()).filter(|i| entries[*i] == *v).collect();
        if hits.is_empty() || lay.ch(1, 4) {
            entries.push(v.clone());
            keys.push(Some(entries.len() - 1));
        } else {
            let k = if lay.fancy { *lay.g.rng.pick(&hits) } else { hits[0] };
            keys.push(Some(k));
        }
    }
    if lay.ch(1, 3) {
        let j = if lay.g.rng.bool() && !entries.is_empty() {
            let k = lay.g.rng.usize(entries.len());
            entries[k].clone()
        } else {
            lay.junk(e, false)
        };
        entries.push(j);
    }
    let values = build(e, &entries, lay, false);
    let any_null = keys.iter().any(|k| k.is_none());
    let knulls = if any_null || lay.ch(1, 4) {
        Some(NullBuffer::from(keys.iter().map(|k| k.is_some()).collect::<Vec<bool>>()))
    } else {
        None
    };
    let ne = entries.len();
    let kv: Vec<usize> = keys
        .iter()
        .map(|k| match k {
            Some(k) => *k,
            None => {
                if ne > 0 && lay.ch(1, 2) { lay.g.rng.usize(ne) } else { 0 }
            }
        })
        .collect();
    macro_rules! mk {
        ($K:ty) => {{
            let ks: Vec<<$K as ArrowPrimitiveType>::Native> = kv.iter().map(|k| *k as _).collect();
            let keys = PrimitiveArray::<$K>::new(ScalarBuffer::from(ks), knulls);
            Arc::new(DictionaryArray::<$K>::try_new(keys, values).expect("dictionary")) as ArrayRef
        }};
    }
    match key {
        "i8" => mk!(Int8Type),
        "i16" => mk!(Int16Type),
        "i32" => mk!(Int32Type),
        "i64" => mk!(Int64Type),
        "u8" => mk!(UInt8Type),
        "u16" => mk!(UInt16Type),
        "u32" => mk!(UInt32Type),
        _ => mk!(UInt64Type),
    }
}

fn build_ree(bits: u32, e: &Ty, vals: &[Val], lay: &mut Lay) -> ArrayRef {
    let mut runs: Vec<Val> = vec![];
    let mut ends: Vec<usize> = vec![];
    for (i, v) in vals.iter().enumerate() {
        let merge = runs.last().map(|l| l == v).unwrap_or(false) && !lay.ch(1, 3);
        if merge {
            *ends.last_mut().unwrap() = i + 1;
        } else {
            runs.push(v.clone());
            ends.push(i + 1);
        }
    }
    let values = build(e, &runs, lay, false);
    macro_rules! mk {
        ($R:ty) => {{
            let re: Vec<<$R as ArrowPrimitiveType>::Native> = ends.iter().map(|k| *k as _).collect();
            let re = PrimitiveArray::<$R>::new(ScalarBuffer::from(re), None);
            Arc::new(RunArray::<$R>::try_new(&re, values.as_ref()).expect("run array")) as ArrayRef
        }};
    }
    match bits {
        16 => mk!(Int16Type),
        32 => mk!(Int32Type),
        _ => mk!(Int64Type),
    }
}

fn build_inner(ty: &Ty, vals: &[Val], lay: &mut Lay, nonnull: bool) -> ArrayRef {
    let n = vals.len();
    if nonnull {
        assert!(!vals.iter().any(is_null), "null where not allowed");
    }
    match ty {
        Ty::Int { bits, .. } | Ty::Float(bits) => {
            let w = (*bits / 8) as usize;
            let nulls = nulls_of(vals, lay);
            let mut mb = MutableBuffer::new(n * w);
            for v in vals {
                let b: [u8; 32] = match v {
                    Val::Int(x) => x.to_le_bytes(),
                    Val::Float(f) => {
                        let mut a = [0u8; 32];
                        a[..8].copy_from_slice(&f.to_le_bytes());
                        a
                    }
                    Val::Null => {
                        let mut a = [0u8; 32];
                        if lay.ch(1, 2) {
                            for x in a.iter_mut() {
                                *x = lay.g.rng.next_u64() as u8;
                            }
                        }
                        a
                    }
                    _ => panic!("value/type mismatch"),
                };
                mb.extend_from_slice(&b[..w]);
            }
            let d = ArrayData::builder(dtype(ty)).len(n).add_buffer(mb.into()).nulls(nulls).build().expect("primitive data");
            make_array(d)
        }
        Ty::Iv(k) => {
            let nulls = nulls_of(vals, lay);
            let comps: Vec<Vec<i64>> = vals
                .iter()
                .map(|v| match v {
                    Val::Ints(c) => c.clone(),
                    Val::Null => {
                        if lay.ch(1, 2) { lay.g.interval(*k) } else { vec![0; *k as usize] }
                    }
                    _ => panic!("value/type mismatch"),
                })
                .collect();
            if *k == 2 {
                let v: Vec<arrow_buffer::IntervalDayTime> =
                    comps.iter().map(|c| arrow_buffer::IntervalDayTime::new(c[0] as i32, c[1] as i32)).collect();
                Arc::new(PrimitiveArray::<IntervalDayTimeType>::new(ScalarBuffer::from(v), nulls))
            } else {
                let v: Vec<arrow_buffer::IntervalMonthDayNano> =
                    comps.iter().map(|c| arrow_buffer::IntervalMonthDayNano::new(c[0] as i32, c[1] as i32, c[2])).collect();
                Arc::new(PrimitiveArray::<IntervalMonthDayNanoType>::new(ScalarBuffer::from(v), nulls))
            }
        }
        Ty::Bool => {
            let nulls = nulls_of(vals, lay);
            let bits: Vec<bool> = vals
                .iter()
                .map(|v| match v {
                    Val::Bool(b) => *b,
                    Val::Null => lay.ch(1, 2),
                    _ => panic!("value/type mismatch"),
                })
                .collect();
            Arc::new(BooleanArray::new(BooleanBuffer::from(bits), nulls))
        }
        Ty::Bytes(k) => match k {
            BK::Bin => {
                let nulls = nulls_of(vals, lay);
                build_bytes::<BinaryType>(vals, nulls, lay)
            }
            BK::LBin => {
                let nulls = nulls_of(vals, lay);
                build_bytes::<LargeBinaryType>(vals, nulls, lay)
            }
            BK::Utf8 => {
                let nulls = nulls_of(vals, lay);
                build_bytes::<Utf8Type>(vals, nulls, lay)
            }
            BK::LUtf8 => {
                let nulls = nulls_of(vals, lay);
                build_bytes::<LargeUtf8Type>(vals, nulls, lay)
            }
            BK::BinV => {
                let mut b = BinaryViewBuilder::new();
                if lay.ch(1, 2) {
                    b = b.with_fixed_block_size(16 + lay.g.rng.below(48) as u32);
                }
                if lay.ch(1, 4) {
                    b = b.with_deduplicate_strings();
                }
                for v in vals {
                    match v {
                        Val::Bytes(x) => b.append_value(x),
                        Val::Null => b.append_null(),
                        _ => panic!("value/type mismatch"),
                    }
                }
                Arc::new(b.finish())
            }
            BK::Utf8V => {
                let mut b = StringViewBuilder::new();
                if lay.ch(1, 2) {
                    b = b.with_fixed_block_size(16 + lay.g.rng.below(48) as u32);
                }
                if lay.ch(1, 4) {
                    b = b.with_deduplicate_strings();
                }
                for v in vals {
                    match v {
                        Val::Bytes(x) => b.append_value(std::str::from_utf8(x).expect("utf8")),
                        Val::Null => b.append_null(),
                        _ => panic!("value/type mismatch"),
                    }
                }
                Arc::new(b.finish())
            }
        },
        Ty::Fsb(w) => {
            let nulls = nulls_of(vals, lay);
            let mut buf: Vec<u8> = Vec::with_capacity(n * w);
            for v in vals {
                match v {
                    Val::Bytes(x) => {
                        assert_eq!(x.len(), *w);
                        buf.extend_from_slice(x)
                    }
                    Val::Null => {
                        let j = if lay.ch(1, 2) { lay.g.rng.bytes(*w) } else { vec![0u8; *w] };
                        buf.extend_from_slice(&j)
                    }
                    _ => panic!("value/type mismatch"),
                }
            }
            Arc::new(FixedSizeBinaryArray::try_new_with_len(*w as i32, Buffer::from_vec(buf), nulls, n).expect("fsb"))
        }
        Ty::Null => Arc::new(NullArray::new(n)),
        Ty::Struct(ks) => {
            let nulls = nulls_of(vals, lay);
            if ks.is_empty() {
                return Arc::new(StructArray::new_empty_fields(n, nulls));
            }
            let mut arrays = vec![];
            for (c, kt) in ks.iter().enumerate() {
                let col: Vec<Val> = vals
                    .iter()
                    .map(|v| match v {
                        Val::Struct(xs) => xs[c].clone(),
                        Val::Null => lay.filler(kt),
                        _ => panic!("value/type mismatch"),
                    })
                    .collect();
                arrays.push(build(kt, &col, lay, false));
            }
            let DataType::Struct(fields) = dtype(ty) else { unreachable!() };
            Arc::new(StructArray::try_new_with_length(fields, arrays, nulls, n).expect("struct"))
        }
        Ty::List(k, e) => {
            let nulls = nulls_of(vals, lay);
            match k {
                LK::L => build_list::<i32>(e, vals, nulls, lay),
                LK::LL => build_list::<i64>(e, vals, nulls, lay),
                LK::LV => build_list_view::<i32>(e, vals, nulls, lay),
                LK::LLV => build_list_view::<i64>(e, vals, nulls, lay),
            }
        }
        Ty::Fsl(w, e) => {
            let nulls = nulls_of(vals, lay);
            let mut child: Vec<Val> = vec![];
            for v in vals {
                match v {
                    Val::List(xs) => {
                        assert_eq!(xs.len(), *w);
                        child.extend(xs.iter().cloned())
                    }
                    Val::Null => {
                        for _ in 0..*w {
                            let f = lay.filler(e);
                            child.push(f);
                        }
                    }
                    _ => panic!("value/type mismatch"),
                }
            }
            let values = build(e, &child, lay, false);
            Arc::new(FixedSizeListArray::try_new_with_length(item_field(e), *w as i32, values, nulls, n).expect("fsl"))
        }
        Ty::Dict(k, e) => build_dict(k, e, vals, lay),
        Ty::Ree(b, e) => build_ree(*b, e, vals, lay),
        Ty::Map(kt, vt) => {
            let nulls = nulls_of(vals, lay);
            let mut keys: Vec<Val> = vec![];
            let mut vs: Vec<Val> = vec![];
            if lay.ch(1, 3) {
                let j = lay.junk(kt, true);
                keys.push(j);
                let j = lay.junk(vt, false);
                vs.push(j);
            }
            let mut offs: Vec<i32> = vec![keys.len() as i32];
            for v in vals {
                match v {
                    Val::List(es) => {
                        for e in es {
                            let Val::Struct(kv) = e else { panic!("value/type mismatch") };
                            keys.push(kv[0].clone());
                            vs.push(kv[1].clone());
                        }
                    }
                    Val::Null => {
                        if lay.ch(1, 2) {
                            let j = lay.junk(kt, true);
                            keys.push(j);
                            let j = lay.junk(vt, false);
                            vs.push(j);
                        }
                    }
                    _ => panic!("value/type mismatch"),
                }
                offs.push(keys.len() as i32);
            }
            if lay.ch(1, 3) {
                let j = lay.junk(kt, true);
                keys.push(j);
                let j = lay.junk(vt, false);
                vs.push(j);
            }
            let DataType::Map(field, _) = dtype(ty) else { unreachable!() };
            let DataType::Struct(fields) = field.data_type().clone() else { unreachable!() };
            let ka = build(kt, &keys, lay, true);
            let va = build(vt, &vs, lay, false);
            let entries = StructArray::try_new_with_length(fields, vec![ka, va], None, keys.len()).expect("map entries");
            Arc::new(MapArray::try_new(field, OffsetBuffer::new(ScalarBuffer::from(offs)), entries, nulls, false).expect("map"))
        }
        Ty::Union { dense, ids, kids } => {
            let DataType::Union(fields, _) = dtype(ty) else { unreachable!() };
            let mut type_ids: Vec<i8> = vec![];
            for v in vals {
                let Val::Union(i, _) = v else { panic!("value/type mismatch") };
                type_ids.push(ids[*i]);
            }
            let mut children = vec![];
            let mut offsets: Vec<i32> = vec![0; n];
            for (c, kt) in kids.iter().enumerate() {
                if *dense {
                    let mut col: Vec<Val> = vec![];
                    if lay.ch(1, 4) {
                        let j = lay.junk(kt, false);
                        col.push(j);
                    }
                    for (r, v) in vals.iter().enumerate() {
                        let Val::Union(i, x) = v else { unreachable!() };
                        if *i == c {
                            let reuse = if lay.ch(1, 3) { col.iter().position(|y| *y == **x) } else { None };
                            match reuse {
                                Some(p) => offsets[r] = p as i32,
                                None => {
                                    offsets[r] = col.len() as i32;
                                    col.push((**x).clone());
                                }
                            }
                        }
                    }
                    if lay.ch(1, 4) {
                        let j = lay.junk(kt, false);
                        col.push(j);
                    }
                    children.push(build(kt, &col, lay, false));
                } else {
                    let col: Vec<Val> = vals
                        .iter()
                        .map(|v| {
                            let Val::Union(i, x) = v else { unreachable!() };
                            if *i == c { (**x).clone() } else { lay.filler(kt) }
                        })
                        .collect();
                    children.push(build(kt, &col, lay, false));
                }
            }
            let offs = if *dense { Some(ScalarBuffer::from(offsets)) } else { None };
            Arc::new(UnionArray::try_new(fields, ScalarBuffer::from(type_ids), offs, children).expect("union"))
        }
    }
}

// ------------------------------------------------------------------------------------------
// arrays back to values (follows the array's own data type)
// ------------------------------------------------------------------------------------------

/// (byte width, 0 = signed int, 1 = unsigned int, 2 = float bits)
fn prim_info(dt: &DataType) -> Option<(usize, u8)> {
    use DataType::*;
    Some(match dt {
        Int8 => (1, 0),
        Int16 => (2, 0),
        Int32 | Date32 | Time32(_) | Interval(IntervalUnit::YearMonth) | Decimal32(..) => (4, 0),
        Int64 | Date64 | Time64(_) | Timestamp(..) | Duration(_) | Decimal64(..) => (8, 0),
        Decimal128(..) => (16, 0),
        Decimal256(..) => (32, 0),
        UInt8 => (1, 1),
        UInt16 => (2, 1),
        UInt32 => (4, 1),
        UInt64 => (8, 1),
        Float16 => (2, 2),
        Float32 => (4, 2),
        Float64 => (8, 2),
        _ => return None,
    })
}

fn array_to_vals(arr: &dyn Array) -> Vec<Val> {
    let n = arr.len();
    let dt = arr.data_type().clone();
    if let Some((w, kind)) = prim_info(&dt) {
        let d = arr.to_data();
        let buf = d.buffers()[0].as_slice();
        let off = d.offset();
        return (0..n)
            .map(|i| {
                if arr.is_null(i) {
                    return Val::Null;
                }
                let s = &buf[(off + i) * w..(off + i + 1) * w];
                let mut b = [0u8; 32];
                b[..w].copy_from_slice(s);
                match kind {
                    0 => Val::Int(wrap_int(i256::from_le_bytes(b), (w * 8) as u32, true)),
                    1 => Val::Int(i256::from_le_bytes(b)),
                    _ => Val::Float(u64::from_le_bytes(b[..8].try_into().unwrap())),
                }
            })
            .collect();
    }
    let opt = |i: usize, f: &dyn Fn(usize) -> Val| if arr.is_null(i) { Val::Null } else { f(i) };
    match &dt {
        DataType::Interval(IntervalUnit::DayTime) => {
            let a = arr.as_primitive::<IntervalDayTimeType>();
            (0..n).map(|i| opt(i, &|i| { let x = a.value(i); Val::Ints(vec![x.days as i64, x.milliseconds as i64]) })).collect()
        }
        DataType::Interval(IntervalUnit::MonthDayNano) => {
            let a = arr.as_primitive::<IntervalMonthDayNanoType>();
            (0..n).map(|i| opt(i, &|i| { let x = a.value(i); Val::Ints(vec![x.months as i64, x.days as i64, x.nanoseconds]) })).collect()
        }
        DataType::Null => vec![Val::Null; n],
        DataType::Boolean => {
            let a = arr.as_boolean();
            (0..n).map(|i| opt(i, &|i| Val::Bool(a.value(i)))).collect()
        }
        DataType::Binary => {
            let a = arr.as_binary::<i32>();
            (0..n).map(|i| opt(i, &|i| Val::Bytes(a.value(i).to_vec()))).collect()
        }
        DataType::LargeBinary => {
            let a = arr.as_binary::<i64>();
            (0..n).map(|i| opt(i, &|i| Val::Bytes(a.value(i).to_vec()))).collect()
        }
        DataType::BinaryView => {
            let a = arr.as_binary_view();
            (0..n).map(|i| opt(i, &|i| Val::Bytes(a.value(i).to_vec()))).collect()
        }
        DataType::Utf8 => {
            let a = arr.as_string::<i32>();
            (0..n).map(|i| opt(i, &|i| Val::Bytes(a.value(i).as_bytes().to_vec()))).collect()
        }
        DataType::LargeUtf8 => {
            let a = arr.as_string::<i64>();
            (0..n).map(|i| opt(i, &|i| Val::Bytes(a.value(i).as_bytes().to_vec()))).collect()
        }
        DataType::Utf8View => {
            let a = arr.as_string_view();
            (0..n).map(|i| opt(i, &|i| Val::Bytes(a.value(i).as_bytes().to_vec()))).collect()
        }
        DataType::FixedSizeBinary(_) => {
            let a = arr.as_fixed_size_binary();
            (0..n).map(|i| opt(i, &|i| Val::Bytes(a.value(i).to_vec()))).collect()
        }
        DataType::Struct(_) => {
            let a = arr.as_struct();
            let kids: Vec<Vec<Val>> = a.columns().iter().map(|c| array_to_vals(c.as_ref())).collect();
            (0..n).map(|i| opt(i, &|i| Val::Struct(kids.iter().map(|k| k[i].clone()).collect()))).collect()
        }
        DataType::List(_) => {
            let a = arr.as_list::<i32>();
            (0..n).map(|i| opt(i, &|i| Val::List(array_to_vals(a.value(i).as_ref())))).collect()
        }
        DataType::LargeList(_) => {
            let a = arr.as_list::<i64>();
            (0..n).map(|i| opt(i, &|i| Val::List(array_to_vals(a.value(i).as_ref())))).collect()
        }
        DataType::ListView(_) => {
            let a = arr.as_list_view::<i32>();
            (0..n).map(|i| opt(i, &|i| Val::List(array_to_vals(a.value(i).as_ref())))).collect()
        }
        DataType::LargeListView(_) => {
            let a = arr.as_list_view::<i64>();
            (0..n).map(|i| opt(i, &|i| Val::List(array_to_vals(a.value(i).as_ref())))).collect()
        }
        DataType::FixedSizeList(..) => {
            let a = arr.as_fixed_size_list();
            (0..n).map(|i| opt(i, &|i| Val::List(array_to_vals(a.value(i).as_ref())))).collect()
        }
        DataType::Map(..) => {
            let a = arr.as_map();
            (0..n).map(|i| opt(i, &|i| Val::List(array_to_vals(&a.value(i))))).collect()
        }
        DataType::Dictionary(..) => {
            let a = arr.as_any_dictionary();
            let keys = array_to_vals(a.keys());
            let values = array_to_vals(a.values().as_ref());
            keys.iter()
                .map(|k| match k {
                    Val::Int(k) => values[k.to_i128().unwrap() as usize].clone(),
                    _ => Val::Null,
                })
                .collect()
        }
        DataType::RunEndEncoded(r, _) => {
            macro_rules! go {
                ($R:ty) => {{
                    let a = arr.as_run::<$R>();
                    let values = array_to_vals(a.values().as_ref());
                    (0..n).map(|i| values[a.get_physical_index(i)].clone()).collect()
                }};
            }
            match r.data_type() {
                DataType::Int16 => go!(Int16Type),
                DataType::Int32 => go!(Int32Type),
                _ => go!(Int64Type),
            }
        }
        DataType::Union(fields, _) => {
            let u = arr.as_union();
            let ids: Vec<i8> = fields.iter().map(|(i, _)| i).collect();
            let kids: Vec<Vec<Val>> = ids.iter().map(|id| array_to_vals(u.child(*id).as_ref())).collect();
            (0..n)
                .map(|i| {
                    let t = u.type_id(i);
                    let fi = ids.iter().position(|x| *x == t).expect("type id");
                    Val::Union(fi, Box::new(kids[fi][u.value_offset(i)].clone()))
                })
                .collect()
        }
        other => panic!("array_to_vals: unsupported {other}"),
    }
}

// ------------------------------------------------------------------------------------------
// the logical comparator of the property statement
// ------------------------------------------------------------------------------------------

fn float_key(bits: u64, width: u32) -> i64 {
    // IEEE totalOrder on the bit pattern (same trick as f64::total_cmp)
    let sh = 64 - width;
    let x = ((bits << sh) as i64) >> sh;
    let mask = (((x >> 63) as u64) >> 1) as i64;
    // mask must only cover the width's non-sign bits; x is sign-extended so this is right
    x ^ mask
}

fn rev_if(o: Ordering, d: bool) -> Ordering {
    if d { o.reverse() } else { o }
}

fn cmp_val(ty: &Ty, desc: bool, nf: bool, a: &Val, b: &Val) -> Ordering {
    match (is_null(a), is_null(b)) {
        (true, true) => return Ordering::Equal,
        (true, false) => return if nf { Ordering::Less } else { Ordering::Greater },
        (false, true) => return if nf { Ordering::Greater } else { Ordering::Less },
        _ => {}
    }
    fn lex<'a>(t: &dyn Fn(usize) -> &'a Ty, desc: bool, nf: bool, xs: &[Val], ys: &[Val]) -> Ordering {
        for (k, (x, y)) in xs.iter().zip(ys.iter()).enumerate() {
            let o = cmp_val(t(k), desc, nf, x, y);
            if o != Ordering::Equal {
                return o;
            }
        }
        rev_if(xs.len().cmp(&ys.len()), desc)
    }
    match (ty, a, b) {
        (Ty::Int { .. }, Val::Int(x), Val::Int(y)) => rev_if(x.cmp(y), desc),
        (Ty::Float(w), Val::Float(x), Val::Float(y)) => rev_if(float_key(*x, *w).cmp(&float_key(*y, *w)), desc),
        (Ty::Bool, Val::Bool(x), Val::Bool(y)) => rev_if(x.cmp(y), desc),
        // component-wise lexicographic, every component signed
        (Ty::Iv(_), Val::Ints(x), Val::Ints(y)) => rev_if(x.cmp(y), desc),
        (Ty::Bytes(_) | Ty::Fsb(_), Val::Bytes(x), Val::Bytes(y)) => rev_if(x.cmp(y), desc),
        (Ty::Struct(ks), Val::Struct(xs), Val::Struct(ys)) => lex(&|k| &ks[k], desc, nf, xs, ys),
        (Ty::List(_, e) | Ty::Fsl(_, e), Val::List(xs), Val::List(ys)) => lex(&|_| &**e, desc, nf, xs, ys),
        (Ty::Map(k, v), Val::List(xs), Val::List(ys)) => {
            let pair = Ty::Struct(vec![(**k).clone(), (**v).clone()]);
            lex(&|_| &pair, desc, nf, xs, ys)
        }
        (Ty::Dict(_, e) | Ty::Ree(_, e), _, _) => cmp_val(e, desc, nf, a, b),
        (Ty::Union { ids, kids, .. }, Val::Union(i, x), Val::Union(j, y)) => {
            let o = rev_if(ids[*i].cmp(&ids[*j]), desc);
            if o != Ordering::Equal { o } else { cmp_val(&kids[*i], desc, nf, x, y) }
        }
        _ => panic!("cmp_val: value/type mismatch"),
    }
}

// ------------------------------------------------------------------------------------------
// running one case
// ------------------------------------------------------------------------------------------

fn err_class(e: &ArrowError) -> String {
    match e {
        ArrowError::NotYetImplemented(_) => "ERR:not-impl".into(),
        ArrowError::InvalidArgumentError(_) => "ERR:invalid-arg".into(),
        _ => "ERR:other".into(),
    }
}

fn catch<T>(f: impl FnOnce() -> T) -> Option<T> {
    catch_unwind(AssertUnwindSafe(f)).ok()
}

fn trunc(s: String) -> String {
    // printable ASCII only (the µ of `Timestamp(µs)` must neither split nor reach the streams)
    let a: String = s.chars().map(|c| if c.is_ascii() && !c.is_ascii_control() { c } else { '?' }).collect();
    if a.len() > 120 { format!("{}...", &a[..120]) } else { a }
}

/// the arrays for rows `lo..hi` of every column; `pre = Some(k)`: built with `k` junk rows in
/// front (and some behind) and sliced.  Every built array is read back as a harness self check.
fn mk_arrays(case: &Case, lo: usize, hi: usize, lay: &mut Lay, pre: Option<usize>, fails: &mut Vec<String>) -> Vec<ArrayRef> {
    let mut out = vec![];
    for (c, (f, col)) in case.fields.iter().zip(case.cols.iter()).enumerate() {
        let vals = &col[lo..hi];
        let a = match pre {
            Some(k) => {
                let post = lay.g.rng.usize(3);
                build_sliced(&f.ty, vals, lay, false, k, post)
            }
            None => build(&f.ty, vals, lay, false),
        };
        if array_to_vals(a.as_ref()) != vals {
            fails.push(format!("harness-bug: array for col {} does not read back", c));
        }
        out.push(a);
    }
    out
}

fn compute_rows(conv: &RowConverter, case: &Case, mode: &Mode, lay: &mut Lay, fails: &mut Vec<String>) -> Result<Rows, ArrowError> {
    let n = case.n;
    match mode {
        Mode::One => conv.convert_columns(&mk_arrays(case, 0, n, lay, None, fails)),
        Mode::Sl(k) => conv.convert_columns(&mk_arrays(case, 0, n, lay, Some(*k), fails)),
        Mode::App(k) => {
            let k = (*k).min(n);
            let mut rows = conv.empty_rows(if lay.g.rng.bool() { n } else { 0 }, lay.g.rng.usize(64));
            conv.append(&mut rows, &mk_arrays(case, 0, k, lay, None, fails))?;
            conv.append(&mut rows, &mk_arrays(case, k, n, lay, None, fails))?;
            Ok(rows)
        }
        Mode::Each => {
            let mut out = conv.empty_rows(0, 0);
            for i in 0..n {
                let r = conv.convert_columns(&mk_arrays(case, i, i + 1, lay, None, fails))?;
                assert_eq!(r.num_rows(), 1);
                out.push(r.row(0));
            }
            Ok(out)
        }
        Mode::Clr => {
            let mut rows = conv.empty_rows(0, 0);
            conv.append(&mut rows, &mk_arrays(case, 0, n, lay, None, fails))?;
            if n > 0 {
                let r0 = rows.row(n - 1).owned();
                rows.push(r0.row());
            }
            rows.clear();
            if rows.num_rows() != 0 || rows.iter().next().is_some() {
                fails.push("clear: rows left after clear()".into());
            }
            rows.reserve(n, 16);
            let k = n / 2;
            conv.append(&mut rows, &mk_arrays(case, 0, k, lay, None, fails))?;
            conv.append(&mut rows, &mk_arrays(case, k, n, lay, None, fails))?;
            Ok(rows)
        }
        Mode::Bin(k) => {
            let k = (*k).min(n);
            let first = conv.convert_columns(&mk_arrays(case, 0, k, lay, None, fails))?;
            let arr = first.try_into_binary()?;
            let mut rows = conv.from_binary(arr);
            conv.append(&mut rows, &mk_arrays(case, k, n, lay, None, fails))?;
            Ok(rows)
        }
        Mode::Bsl(k) | Mode::Bsf(k) => {
            let tail = matches!(mode, Mode::Bsl(_));
            let real = conv.convert_columns(&mk_arrays(case, 0, n, lay, None, fails))?;
            if n == 0 {
                return Ok(conv.from_binary(real.try_into_binary()?));
            }
            let mut big = conv.empty_rows(0, 0);
            for j in 0..*k {
                big.push(real.row((j * 5 + 1) % n));
            }
            for j in 0..n {
                big.push(real.row(j));
            }
            if tail {
                big.push(real.row(n - 1));
                big.push(real.row(0));
            }
            let arr = big.try_into_binary()?;
            Ok(conv.from_binary(arr.slice(*k, n)))
        }
        Mode::Psh(k) => {
            let k = (*k).min(n);
            let all = conv.convert_columns(&mk_arrays(case, 0, n, lay, None, fails))?;
            let parser = conv.parser();
            let mut rows = conv.empty_rows(0, 0);
            for j in 0..k {
                rows.push(parser.parse(all.row(j).data()));
            }
            conv.append(&mut rows, &mk_arrays(case, k, n, lay, None, fails))?;
            Ok(rows)
        }
    }
}

fn strip_dict(t: &Ty) -> Ty {
    match t {
        Ty::Dict(_, e) => strip_dict(e),
        Ty::Struct(ks) => Ty::Struct(ks.iter().map(strip_dict).collect()),
        Ty::List(k, e) => Ty::List(*k, Box::new(strip_dict(e))),
        Ty::Fsl(n, e) => Ty::Fsl(*n, Box::new(strip_dict(e))),
        Ty::Ree(b, e) => Ty::Ree(*b, Box::new(strip_dict(e))),
        Ty::Map(k, v) => Ty::Map(Box::new(strip_dict(k)), Box::new(strip_dict(v))),
        Ty::Union { dense, ids, kids } => Ty::Union { dense: *dense, ids: ids.clone(), kids: kids.iter().map(strip_dict).collect() },
        other => other.clone(),
    }
}

/// compare decoded arrays with the input values of the selected rows
fn check_vals(label: &str, case: &Case, arrays: &[ArrayRef], sel: &[usize]) -> Option<String> {
    if arrays.len() != case.fields.len() {
        return Some(format!("{}: got {} columns want {}", label, arrays.len(), case.fields.len()));
    }
    for (c, a) in arrays.iter().enumerate() {
        if a.len() != sel.len() {
            return Some(format!("{}: col {} got {} rows want {}", label, c, a.len(), sel.len()));
        }
        let want_ty = dtype(&strip_dict(&case.fields[c].ty));
        if a.data_type() != &want_ty {
            return Some(trunc(format!("{}-type: col {} got {} want {}", label, c, a.data_type(), want_ty)));
        }
        if let Err(e) = a.to_data().validate_full() {
            return Some(trunc(format!("{}-invalid: col {} {}", label, c, e).replace(['\n', '\t'], " ")));
        }
        let vals = array_to_vals(a.as_ref());
        for (r, s) in sel.iter().enumerate() {
            let want = &case.cols[c][*s];
            if &vals[r] != want {
                return Some(format!("{}: col {} row {} got {} want {}", label, c, r, trunc(show_val(&vals[r])), trunc(show_val(want))));
            }
        }
    }
    None
}

struct Oracle<'a> {
    case: &'a Case,
    mk: Vec<Option<DynComparator>>,
    disagree: std::cell::RefCell<Vec<String>>,
}

impl Oracle<'_> {
    /// the lexicographic comparison of rows `i`, `j` over the columns under each field's options
    fn expected(&self, i: usize, j: usize) -> Ordering {
        let mut out = Ordering::Equal;
        for (c, f) in self.case.fields.iter().enumerate() {
            let own = cmp_val(&f.ty, f.desc, f.nf, &self.case.cols[c][i], &self.case.cols[c][j]);
            if let Some(m) = &self.mk[c] {
                let o = m(i, j);
                if o != own {
                    self.disagree.borrow_mut().push(format!("cmp-disagree:{}", f.ty.kind()));
                }
            }
            if out == Ordering::Equal {
                out = own;
            }
        }
        out
    }
    fn equal(&self, i: usize, j: usize) -> bool {
        self.case.cols.iter().all(|c| c[i] == c[j])
    }
    /// the same comparison through `arrow_ord::ord::make_comparator` (when it supports every column)
    fn expected_mk(&self, i: usize, j: usize) -> Option<Ordering> {
        let mut out = Ordering::Equal;
        for m in &self.mk {
            let f = m.as_ref()?;
            let o = catch(|| f(i, j))?;
            if out == Ordering::Equal {
                out = o;
            }
        }
        Some(out)
    }
}

fn step(name: &str, fails: &mut Vec<String>, f: impl FnOnce() -> Vec<String>) {
    match catch(f) {
        Some(v) => {
            // one failure per class and step is enough
            let mut seen: Vec<String> = vec![];
            for w in v {
                let class = w.split(':').next().unwrap_or("").to_string();
                if !seen.contains(&class) {
                    seen.push(class);
                    fails.push(w);
                }
            }
        }
        None => fails.push(format!("{}: PANIC", name)),
    }
}

fn mode_name(m: &Mode) -> &'static str {
    match m {
        Mode::One => "one",
        Mode::App(_) => "app",
        Mode::Each => "each",
        Mode::Sl(_) => "sl",
        Mode::Clr => "clr",
        Mode::Bin(_) => "bin",
        Mode::Bsl(_) => "bsl",
        Mode::Bsf(_) => "bsf",
        Mode::Psh(_) => "psh",
    }
}

/// (answer, oracle failures, extra tags)
fn run_case(line: &str) -> (String, Vec<String>, String) {
    let case = match catch(|| parse_case(line)) {
        Some(Ok(c)) => c,
        Some(Err(e)) if e == "bad-op" => return ("bad-op".into(), vec![], String::new()),
        _ => return ("bad-case".into(), vec![], String::new()),
    };
    let n = case.n;
    let mut fails: Vec<String> = vec![];
    let mut xt: Vec<String> = vec![];
    for f in &case.fields {
        union_preds(&f.ty, f.desc, &mut xt);
    }
    // the rows come from `from_binary` of a BinaryArray whose values buffer extends past its last offset
    if matches!(case.mode, Mode::Bsl(_)) && n > 0 {
        xt.push("fb:tail".into());
    }
    let conv = match catch(|| {
        let sf: Vec<SortField> = case.fields.iter().map(|f| SortField::new_with_options(dtype(&f.ty), f.opts())).collect();
        RowConverter::new(sf)
    }) {
        None => return ("PANIC".into(), fails, "stage:new".into()),
        Some(Err(e)) => {
            // `supports_fields` must agree with the constructor
            let sf: Vec<SortField> = case.fields.iter().map(|f| SortField::new_with_options(dtype(&f.ty), f.opts())).collect();
            if RowConverter::supports_fields(&sf) {
                fails.push("api: supports_fields true but RowConverter::new failed".into());
            }
            return (err_class(&e), fails, "stage:new".into());
        }
        Some(Ok(c)) => c,
    };
    let seed = fnv(line);
    let mut lay = Lay::fancy(seed);
    let rows = match catch(|| compute_rows(&conv, &case, &case.mode, &mut lay, &mut fails)) {
        None => return ("PANIC".into(), fails, "stage:convert".into()),
        Some(Err(e)) => return (err_class(&e), fails, "stage:convert".into()),
        Some(Ok(r)) => r,
    };
    if rows.num_rows() != n {
        fails.push(format!("shape: got {} rows want {}", rows.num_rows(), n));
        return ("ERR:other".into(), fails, "stage:shape".into());
    }
    let bytes: Vec<Vec<u8>> = (0..n).map(|i| rows.row(i).as_ref().to_vec()).collect();
    let answer = if n == 0 { "-".to_string() } else { bytes.iter().map(|b| hx(b)).collect::<Vec<_>>().join(",") };

    // --- the logical oracle -------------------------------------------------------------
    let plain: Vec<ArrayRef> = match catch(|| {
        case.fields.iter().zip(case.cols.iter()).map(|(f, col)| build(&f.ty, col, &mut Lay::plain(), false)).collect()
    }) {
        Some(p) => p,
        None => {
            fails.push("harness-bug: plain arrays".into());
            return (answer, fails, String::new());
        }
    };
    let mk: Vec<Option<DynComparator>> = case
        .fields
        .iter()
        .zip(plain.iter())
        .map(|(f, a)| catch(|| make_comparator(a.as_ref(), a.as_ref(), f.opts()).ok()).flatten())
        .collect();
    if mk.iter().any(|m| m.is_none()) {
        xt.push("mk:none".into());
    }
    let orc = Oracle { case: &case, mk, disagree: Default::default() };
    let mut prng = Rng::new(seed ^ 0x5eed);
    let pairs: Vec<(usize, usize)> = if n * n <= 400 {
        (0..n).flat_map(|i| (0..n).map(move |j| (i, j))).collect()
    } else {
        (0..400).map(|_| (prng.usize(n), prng.usize(n))).collect()
    };

    // 1. order and equality
    step("ord", &mut fails, || {
        let mut v = vec![];
        for &(i, j) in &pairs {
            let got = rows.row(i).cmp(&rows.row(j));
            let exp = orc.expected(i, j);
            if got != exp {
                v.push(format!("ord: rows {},{} row-cmp={:?} logical={:?} make_comparator={:?}", i, j, got, exp, orc.expected_mk(i, j)));
            }
            let geq = rows.row(i) == rows.row(j);
            let leq = orc.equal(i, j);
            if geq != leq {
                v.push(format!("eq: rows {},{} row-eq={} logical-eq={}", i, j, geq, leq));
            }
            if (exp == Ordering::Equal) != leq {
                v.push(format!("harness-bug: comparator/equality rows {},{}", i, j));
            }
        }
        v
    });

    // 2. convert_rows round trips
    let ident: Vec<usize> = (0..n).collect();
    step("roundtrip", &mut fails, || {
        let mut v = vec![];
        match conv.convert_rows(&rows) {
            Ok(back) => v.extend(check_vals("roundtrip", &case, &back, &ident)),
            Err(e) => v.push(format!("roundtrip: {}", err_class(&e))),
        }
        v
    });
    step("roundtrip-rev", &mut fails, || {
        let mut v = vec![];
        let sel: Vec<usize> = (0..n).rev().collect();
        match conv.convert_rows(rows.iter().rev()) {
            Ok(back) => v.extend(check_vals("roundtrip-rev", &case, &back, &sel)),
            Err(e) => v.push(format!("roundtrip-rev: {}", err_class(&e))),
        }
        v
    });
    step("roundtrip-push", &mut fails, || {
        let mut v = vec![];
        let mut sel: Vec<usize> = (0..n).map(|i| (i * 7 + 3) % n).collect();
        if n > 0 {
            sel.push(sel[0]);
        }
        let mut fresh = conv.empty_rows(0, 0);
        for s in &sel {
            fresh.push(rows.row(*s));
        }
        for (r, s) in sel.iter().enumerate() {
            if fresh.row(r).as_ref() != &bytes[*s][..] {
                v.push(format!("roundtrip-push: pushed row {} differs", r));
            }
        }
        match conv.convert_rows(&fresh) {
            Ok(back) => v.extend(check_vals("roundtrip-push", &case, &back, &sel)),
            Err(e) => v.push(format!("roundtrip-push: {}", err_class(&e))),
        }
        v
    });

    // 3. binary round trip (validates utf8 on the way back)
    step("binary-roundtrip", &mut fails, || {
        let mut v = vec![];
        match rows.clone().try_into_binary() {
            Err(e) => v.push(format!("binary-roundtrip: try_into_binary {}", err_class(&e))),
            Ok(arr) => {
                if arr.len() != n || arr.null_count() != 0 {
                    v.push(format!("binary-roundtrip: binary array len {} nulls {}", arr.len(), arr.null_count()));
                    return v;
                }
                let r2 = conv.from_binary(arr);
                if r2.num_rows() != n {
                    v.push(format!("binary-roundtrip: got {} rows want {}", r2.num_rows(), n));
                    return v;
                }
                for i in 0..n {
                    if r2.row(i).as_ref() != &bytes[i][..] || r2.row(i) != rows.row(i) {
                        v.push(format!("binary-roundtrip: row {} bytes differ", i));
                        break;
                    }
                }
                match conv.convert_rows(&r2) {
                    Ok(back) => v.extend(check_vals("binary-roundtrip", &case, &back, &ident)),
                    Err(e) => v.push(format!("binary-roundtrip: {}", err_class(&e))),
                }
            }
        }
        v
    });

    // 4. independence of the way the rows were produced: one call on plain-layout arrays
    step("mode-mismatch", &mut fails, || {
        let mut v = vec![];
        let mn = mode_name(&case.mode);
        match conv.convert_columns(&plain) {
            Err(e) => v.push(format!("mode-mismatch: plain-one {} but {} ok", err_class(&e), mn)),
            Ok(r1) => {
                if r1.num_rows() != n {
                    v.push(format!("mode-mismatch: plain-one {} rows, {} {} rows", r1.num_rows(), mn, n));
                    return v;
                }
                for i in 0..n {
                    if r1.row(i).as_ref() != &bytes[i][..] {
                        v.push(trunc(format!("mode-mismatch: row {} plain-one={} {}={}", i, hx(r1.row(i).as_ref()), mn, hx(&bytes[i]))));
                        break;
                    }
                }
                for &(i, j) in pairs.iter().take(24) {
                    let got = rows.row(i).cmp(&r1.row(j));
                    let exp = orc.expected(i, j);
                    if got != exp {
                        v.push(format!("ord-cross: rows {},{} row-cmp={:?} logical={:?}", i, j, got, exp));
                        break;
                    }
                }
            }
        }
        v
    });

    // 5. owned rows and the parser
    step("owned", &mut fails, || {
        let mut v = vec![];
        let parser = conv.parser();
        for i in 0..n {
            let o = rows.row(i).owned();
            if o.row() != rows.row(i) || o.as_ref() != &bytes[i][..] || rows.row(i).data() != &bytes[i][..] {
                v.push(format!("owned: row {} differs", i));
            }
            let p = parser.parse(&bytes[i]);
            if p != rows.row(i) || p.cmp(&rows.row(i)) != Ordering::Equal {
                v.push(format!("parser: row {} differs", i));
            }
            let j = (i + 1) % n;
            let oj = rows.row(j).owned();
            if o.cmp(&oj) != rows.row(i).cmp(&rows.row(j)) || (o == oj) != (rows.row(i) == rows.row(j)) {
                v.push(format!("owned: cmp rows {},{} inconsistent", i, j));
            }
            if p.cmp(&oj.row()) != rows.row(i).cmp(&rows.row(j)) {
                v.push(format!("parser: cmp rows {},{} inconsistent", i, j));
            }
        }
        match conv.convert_rows(bytes.iter().map(|b| parser.parse(b))) {
            Ok(back) => v.extend(check_vals("parser-roundtrip", &case, &back, &ident)),
            Err(e) => v.push(format!("parser-roundtrip: {}", err_class(&e))),
        }
        v
    });

    // 6. the rest of the public surface of Rows / Row / RowConverter
    step("api", &mut fails, || {
        use std::hash::{Hash, Hasher};
        let mut v = vec![];
        let h = |x: &dyn Fn(&mut std::collections::hash_map::DefaultHasher)| {
            let mut s = std::collections::hash_map::DefaultHasher::new();
            x(&mut s);
            s.finish()
        };
        if rows.num_rows() != n || rows.iter().len() != n || rows.iter().size_hint() != (n, Some(n)) || (&rows).into_iter().count() != n {
            v.push("api: num_rows / iter len".into());
        }
        let lens: Vec<usize> = rows.lengths().collect();
        for i in 0..n {
            if rows.row_len(i) != bytes[i].len() || lens[i] != bytes[i].len() {
                v.push(format!("api: row_len/lengths row {}", i));
            }
            // SAFETY: i < num_rows
            if unsafe { rows.row_unchecked(i) }.as_ref() != &bytes[i][..] {
                v.push(format!("api: row_unchecked row {}", i));
            }
            let o = rows.row(i).owned();
            if h(&|s| rows.row(i).hash(s)) != h(&|s| o.hash(s)) {
                v.push(format!("api: Row/OwnedRow hash differ row {}", i));
            }
            let j = (i * 3 + 1) % n;
            if rows.row(i) == rows.row(j) && h(&|s| rows.row(i).hash(s)) != h(&|s| rows.row(j).hash(s)) {
                v.push(format!("api: equal rows {} {} hash differently", i, j));
            }
        }
        let back: Vec<Vec<u8>> = rows.iter().rev().map(|r| r.as_ref().to_vec()).collect();
        if back.iter().rev().ne(bytes.iter()) {
            v.push("api: reverse iteration".into());
        }
        let mut it = rows.iter();
        if n > 0 && (it.next_back().map(|r| r.as_ref().to_vec()) != Some(bytes[n - 1].clone()) || it.len() != n - 1) {
            v.push("api: next_back".into());
        }
        let sf: Vec<SortField> = case.fields.iter().map(|f| SortField::new_with_options(dtype(&f.ty), f.opts())).collect();
        if !RowConverter::supports_fields(&sf) {
            v.push("api: supports_fields false for a converter that exists".into());
        }
        if let Some(f) = case.fields.first() {
            if SortField::new(dtype(&f.ty)) != SortField::new_with_options(dtype(&f.ty), SortOptions::default()) {
                v.push("api: SortField::new".into());
            }
        }
        if rows.size() < bytes.iter().map(|b| b.len()).sum::<usize>() || conv.size() == 0 {
            v.push("api: size()".into());
        }
        // SAFETY: the rows come from valid arrays
        let p2 = unsafe { conv.parser_skip_utf8_validation() };
        match conv.convert_rows(bytes.iter().map(|b| p2.parse(b))) {
            Ok(back) => v.extend(check_vals("parser-noutf8-roundtrip", &case, &back, &ident)),
            Err(e) => v.push(format!("parser-noutf8-roundtrip: {}", err_class(&e))),
        }
        v
    });

    // 7. histories on top of these rows: push, then append, then convert everything back
    step("history", &mut fails, || {
        let mut v = vec![];
        if n == 0 {
            return v;
        }
        let mut r2 = rows.clone();
        r2.push(rows.row(n - 1));
        r2.push(rows.row(0));
        if r2.num_rows() != n + 2 || r2.row(n).as_ref() != &bytes[n - 1][..] || r2.row(n + 1).as_ref() != &bytes[0][..] {
            v.push("history-push: pushed rows read back differently".into());
            return v;
        }
        let mut r4 = rows.clone();
        let one4 = mk_arrays(&case, 0, 1, &mut Lay::plain(), None, &mut v);
        if conv.append(&mut r4, &one4).is_err() || r4.num_rows() != n + 1 || r4.row(n).as_ref() != &bytes[0][..]
            || (0..n).any(|i| r4.row(i).as_ref() != &bytes[i][..]) {
            v.push("history-append: appended row or earlier rows read back differently".into());
        }
        let one = mk_arrays(&case, 0, 1, &mut Lay::plain(), None, &mut v);
        if let Err(e) = conv.append(&mut r2, &one) {
            v.push(format!("history: append {}", err_class(&e)));
            return v;
        }
        let mut sel: Vec<usize> = (0..n).collect();
        sel.extend([n - 1, 0, 0]);
        if r2.num_rows() != sel.len() {
            v.push(format!("history: {} rows want {}", r2.num_rows(), sel.len()));
            return v;
        }
        for (r, s) in sel.iter().enumerate() {
            if r2.row(r).as_ref() != &bytes[*s][..] {
                v.push(format!("history: row {} after push/append differs from row {}", r, s));
                break;
            }
        }
        match conv.convert_rows(&r2) {
            Ok(back) => v.extend(check_vals("history-roundtrip", &case, &back, &sel)),
            Err(e) => v.push(format!("history-roundtrip: {}", err_class(&e))),
        }
        match r2.try_into_binary() {
            Ok(arr) => {
                let r3 = conv.from_binary(arr);
                if (0..sel.len()).any(|r| r3.row(r).as_ref() != &bytes[sel[r]][..]) {
                    v.push("history: binary round trip after push/append".into());
                }
            }
            Err(e) => v.push(format!("history: try_into_binary {}", err_class(&e))),
        }
        v
    });

    // 8. misuse is reported as an error, never as rows
    step("misuse", &mut fails, || {
        let mut v = vec![];
        let nf = case.fields.len();
        if nf >= 1 {
            if conv.convert_columns(&plain[..nf - 1]).is_ok() {
                v.push("misuse: too few columns accepted".into());
            }
            let mut wrong = plain.clone();
            wrong[0] = if matches!(case.fields[0].ty, Ty::Int { bits: 8, signed: true, .. }) {
                Arc::new(BooleanArray::from(vec![true; n])) as ArrayRef
            } else {
                Arc::new(Int8Array::from(vec![0i8; n])) as ArrayRef
            };
            if conv.convert_columns(&wrong).is_ok() {
                v.push("misuse: column of a different type accepted".into());
            }
        }
        // rows of another converter (same schema) are refused (documented panic), never mixed in
        if nf >= 1 {
            let sf: Vec<SortField> = case.fields.iter().map(|f| SortField::new_with_options(dtype(&f.ty), f.opts())).collect();
            if let Ok(conv2) = RowConverter::new(sf) {
                let mut foreign = rows.clone();
                if catch(|| conv2.append(&mut foreign, &plain)).is_some() {
                    v.push("misuse: append onto rows of another converter did not panic".into());
                }
                if n > 0 && catch(|| conv2.convert_rows(&rows)).is_some() {
                    v.push("misuse: convert_rows of another converter's rows did not panic".into());
                }
            }
        }
        if nf >= 2 && n >= 1 {
            let mut short = plain.clone();
            short[nf - 1] = short[nf - 1].slice(0, n - 1);
            if conv.convert_columns(&short).is_ok() {
                v.push("misuse: columns of different length accepted".into());
            }
        }
        v
    });

    let mut dis = orc.disagree.into_inner();
    dis.sort();
    dis.dedup();
    if !dis.is_empty() {
        xt.push("cmp-disagree".into());
        xt.extend(dis);
    }
    if !fails.is_empty() {
        xt.push("oracle-fail".into());
        for f in &fails {
            xt.push(format!("fail:{}", f.split(':').next().unwrap_or("")));
        }
        xt.sort();
        xt.dedup();
    }
    (answer, fails, xt.join(" "))
}

// ------------------------------------------------------------------------------------------
// case generator
// ------------------------------------------------------------------------------------------

fn gen_leaf(r: &mut Rng, for_key: bool) -> Ty {
    loop {
        let t = match r.below(100) {
            0..=19 => {
                let signed = r.bool();
                Ty::Int { bits: *r.pick(&[8u32, 16, 32, 64]), signed, tag: String::new() }
            }
            20..=34 => match r.below(8) {
                0 | 1 => Ty::Int { bits: 32, signed: true, tag: r.pick(&I32_TAGS).to_string() },
                2 | 3 | 4 => Ty::Int { bits: 64, signed: true, tag: r.pick(&I64_TAGS).to_string() },
                5 | 6 => Ty::Int { bits: 128, signed: true, tag: "dec128".into() },
                _ => Ty::Int { bits: 256, signed: true, tag: "dec256".into() },
            },
            35..=46 => Ty::Float(*r.pick(&[16u32, 32, 64])),
            47..=51 => Ty::Bool,
            52..=77 => Ty::Bytes(*r.pick(&[BK::Bin, BK::LBin, BK::BinV, BK::Utf8, BK::LUtf8, BK::Utf8V])),
            78..=84 => Ty::Iv(*r.pick(&[2u8, 3])),
            85..=95 => Ty::Fsb(*r.pick(&[0usize, 1, 2, 7, 8, 9, 16, 31, 32, 33])),
            _ => Ty::Null,
        };
        if for_key && t == Ty::Null {
            continue;
        }
        return t;
    }
}

/// a type of nesting depth at most `d` (0 = leaf)
fn gen_ty(r: &mut Rng, d: usize) -> Ty {
    if d == 0 || r.chance(1, 2) { gen_leaf(r, false) } else { gen_nested(r, d) }
}

fn gen_nested(r: &mut Rng, d: usize) -> Ty {
    let d1 = d.saturating_sub(1);
    match r.below(100) {
        0..=19 => {
            let k = match r.below(10) {
                0 => 0,
                1..=4 => 1,
                5..=7 => 2,
                _ => 3,
            };
            Ty::Struct((0..k).map(|_| gen_ty(r, d1)).collect())
        }
        20..=44 => {
            let k = *r.pick(&[LK::L, LK::L, LK::LL, LK::LV, LK::LLV]);
            Ty::List(k, Box::new(gen_ty(r, d1)))
        }
        45..=54 => Ty::Fsl(*r.pick(&[0usize, 1, 2, 2, 3]), Box::new(gen_ty(r, d1))),
        55..=66 => {
            let v = if d1 > 0 && r.chance(1, 12) { gen_nested(r, d1) } else { gen_leaf(r, false) };
            Ty::Dict(r.pick(&KEY_WORDS).to_string(), Box::new(v))
        }
        67..=76 => Ty::Ree(*r.pick(&[16u32, 32, 64]), Box::new(gen_ty(r, d1))),
        77..=84 => Ty::Map(Box::new(gen_leaf(r, true)), Box::new(gen_ty(r, d1))),
        _ => {
            let k = 1 + r.usize(3);
            let kids: Vec<Ty> = (0..k).map(|_| gen_ty(r, d1)).collect();
            let ids: Vec<i8> = if r.chance(1, 6) {
                // non-contiguous (and sometimes not ascending) type ids
                let mut ids: Vec<i8> = vec![];
                while ids.len() < k {
                    let x = r.below(12) as i8;
                    if !ids.contains(&x) {
                        ids.push(x);
                    }
                }
                if r.bool() {
                    ids.sort();
                }
                ids
            } else {
                (0..k as i8).collect()
            };
            Ty::Union { dense: r.bool(), ids, kids }
        }
    }
}

fn len_bucket(n: usize) -> &'static str {
    match n {
        0 => "len:0",
        1..=7 => "len:1-7",
        8 => "len:8",
        9..=31 => "len:9-31",
        32 => "len:32",
        33..=63 => "len:33-63",
        64 => "len:64",
        _ => "len:65+",
    }
}

fn ty_tags(t: &Ty, tags: &mut Vec<String>, top: bool) {
    let add = |tags: &mut Vec<String>, s: String| {
        if !tags.contains(&s) {
            tags.push(s)
        }
    };
    if top {
        add(tags, format!("ty:{}", t.kind()));
    } else {
        add(tags, format!("in:{}", t.kind()));
    }
    match t {
        Ty::Int { tag, .. } if !tag.is_empty() => add(tags, format!("lt:{}", tag)),
        Ty::Struct(ks) => {
            if ks.is_empty() {
                add(tags, "S:empty".into());
            }
            ks.iter().for_each(|k| ty_tags(k, tags, false))
        }
        Ty::Fsl(n, e) => {
            if *n == 0 {
                add(tags, "F:0".into());
            }
            ty_tags(e, tags, false)
        }
        Ty::Fsb(0) => add(tags, "fsb:0".into()),
        Ty::List(_, e) | Ty::Dict(_, e) | Ty::Ree(_, e) => ty_tags(e, tags, false),
        Ty::Map(k, v) => {
            ty_tags(k, tags, false);
            ty_tags(v, tags, false)
        }
        Ty::Union { ids, kids, .. } => {
            if !contiguous(ids) {
                add(tags, "uids:noncontig".into());
            }
            kids.iter().for_each(|k| ty_tags(k, tags, false))
        }
        _ => {}
    }
}

fn val_tags(v: &Val, tags: &mut Vec<String>) {
    let mut add = |s: &str| {
        if !tags.iter().any(|t| t == s) {
            tags.push(s.to_string())
        }
    };
    match v {
        Val::Null => add("nullval"),
        Val::Bytes(b) => add(len_bucket(b.len())),
        Val::Struct(vs) => vs.iter().for_each(|x| val_tags(x, tags)),
        Val::List(vs) => {
            add(match vs.len() {
                0 => "list:0",
                1 => "list:1",
                _ => "list:2+",
            });
            vs.iter().for_each(|x| val_tags(x, tags))
        }
        Val::Union(_, x) => val_tags(x, tags),
        _ => {}
    }
}

fn gen_case(g: &mut Gen) -> (String, String) {
    g.reset();
    let nfields = if g.rng.chance(55, 100) { 1 } else { 2 + g.rng.usize(3) };
    let n = if g.rng.chance(1, 25) {
        0
    } else if g.rng.chance(1, 10) {
        1
    } else {
        2 + g.rng.usize(11)
    };
    let mode = match g.rng.below(20) {
        0..=5 => Mode::One,
        6..=8 => Mode::App(g.rng.usize(n + 1)),
        9..=10 => Mode::Each,
        11..=13 => Mode::Sl(1 + g.rng.usize(4)),
        14 => Mode::Clr,
        15..=16 => Mode::Bin(g.rng.usize(n + 1)),
        17 => Mode::Bsl(g.rng.usize(4)),
        18 => Mode::Bsf(1 + g.rng.usize(4)),
        _ => Mode::Psh(g.rng.usize(n + 1)),
    };
    let mut fields = vec![];
    for _ in 0..nfields {
        let ty = if g.rng.chance(55, 100) {
            gen_leaf(&mut g.rng, false)
        } else {
            let d = 1 + g.rng.usize(3);
            gen_nested(&mut g.rng, d)
        };
        fields.push(FieldSpec { ty, desc: g.rng.bool(), nf: g.rng.bool() });
    }
    make_case(g, fields, n, mode, None)
}

/// build the case line and tags for a schema, a row count and a mode; `cols` overrides the drawn values
fn make_case(g: &mut Gen, fields: Vec<FieldSpec>, n: usize, mode: Mode, forced: Option<Vec<Vec<Val>>>) -> (String, String) {
    let nfields = fields.len();
    let mut cols: Vec<Vec<Val>> = vec![];
    if let Some(c) = forced {
        cols = c;
    }
    for f in fields.iter().skip(cols.len()) {
        g.reset();
        let mut col: Vec<Val> = vec![];
        for i in 0..n {
            if i > 0 && g.rng.chance(1, 5) {
                let k = g.rng.usize(i);
                col.push(col[k].clone());
            } else {
                col.push(g.val(&f.ty, true, 0));
            }
        }
        cols.push(col);
    }
    let schema = fields
        .iter()
        .map(|f| format!("{}:{}{}", show_ty(&f.ty), f.desc as u8, f.nf as u8))
        .collect::<Vec<_>>()
        .join(",");
    let rows = if n == 0 {
        "-".to_string()
    } else {
        (0..n)
            .map(|r| format!("({})", cols.iter().map(|c| show_val(&c[r])).collect::<Vec<_>>().join(",")))
            .collect::<String>()
    };
    let mode_s = match &mode {
        Mode::One => "one".to_string(),
        Mode::App(k) => format!("app{}", k),
        Mode::Each => "each".to_string(),
        Mode::Sl(k) => format!("sl{}", k),
        Mode::Clr => "clr".to_string(),
        Mode::Bin(k) => format!("bin{}", k),
        Mode::Bsl(k) => format!("bsl{}", k),
        Mode::Bsf(k) => format!("bsf{}", k),
        Mode::Psh(k) => format!("psh{}", k),
    };
    let line = format!("C11 enc {} {} {}", mode_s, schema, rows);

    let mut tags: Vec<String> = vec!["op:enc".into(), format!("mode:{}", mode_name(&mode))];
    for f in &fields {
        ty_tags(&f.ty, &mut tags, true);
        let o = format!("opt:{}{}", f.desc as u8, f.nf as u8);
        if !tags.contains(&o) {
            tags.push(o);
        }
    }
    for c in &cols {
        for v in c {
            val_tags(v, &mut tags);
        }
    }
    if nfields > 1 {
        tags.push("multi".into());
    }
    if fields.iter().any(|f| f.ty.is_nested()) {
        tags.push("nested".into());
    }
    if fields.iter().any(|f| f.ty.has_union()) {
        tags.push("has-union".into());
    }
    tags.push(match n {
        0 => "n:0".into(),
        1 => "n:1".into(),
        2..=62 => "n:2+".into(),
        63..=65 => "n:63-65".into(),
        _ => "n:66+".into(),
    });
    if n >= 2 && !fields.is_empty() {
        tags.push("nt".into());
    }
    (line, tags.join(" "))
}

/// A fixed block of boundary cases, identical in every run (its own constant seed):
/// row counts around the 64-row chunks of `decode_bool` / the validity bit-packing, byte-string
/// lengths around the inline-view limit (12) and the 8/32-byte blocks with shared prefixes,
/// and every way of producing rows on one mixed schema under all four options.
fn dense_block() -> Vec<(String, String)> {
    let mut g = Gen::new(Rng::new(0xD15E_C11));
    let mut out = vec![];
    let leaf = |w: &str| Parser::leaf(w).expect("dense leaf");
    let opts = [(false, false), (false, true), (true, false), (true, true)];
    let modes = |i: usize, n: usize| match i % 10 {
        0 => Mode::One,
        1 => Mode::App(n / 2),
        2 => Mode::Each,
        3 => Mode::Sl(3),
        4 => Mode::Clr,
        5 => Mode::Bin(n / 3),
        6 => Mode::Bsl(2),
        7 => Mode::Bsf(3),
        8 => Mode::Psh(n - n / 4),
        _ => Mode::App(n),
    };
    // A. many rows
    let many: Vec<Ty> = vec![
        leaf("b"), leaf("i8"), leaf("u64"), leaf("f32"), leaf("utf8"), leaf("binv"), leaf("utf8v"), leaf("fsb3"),
        leaf("ivdt"), leaf("null"),
        Ty::Dict("i8".into(), Box::new(leaf("utf8"))),
        Ty::List(LK::L, Box::new(leaf("b"))),
        Ty::List(LK::LV, Box::new(leaf("u8"))),
        Ty::Struct(vec![leaf("b"), leaf("i16")]),
        Ty::Ree(16, Box::new(leaf("b"))),
        Ty::Fsl(2, Box::new(leaf("b"))),
    ];
    let mut i = 0;
    for ty in &many {
        for (oi, (d, nf)) in opts.iter().enumerate() {
            for n in [63usize, 64, 65, 129] {
                // not every (type, option, size) triple: rotate the sizes over the options
                if (oi + n) % 2 == 1 && n != 64 {
                    continue;
                }
                g.reset();
                let (l, t) = make_case(&mut g, vec![FieldSpec { ty: ty.clone(), desc: *d, nf: *nf }], n, modes(i, n), None);
                out.push((l, format!("{} dense:rows", t)));
                i += 1;
            }
        }
    }
    // B. byte-string lengths with shared prefixes, every kind
    for w in ["bin", "lbin", "binv", "utf8", "lutf8", "utf8v"] {
        for (d, nf) in opts {
            let mut col: Vec<Val> = vec![Val::Null];
            for len in [0usize, 1, 7, 8, 9, 11, 12, 13, 31, 32, 33, 63, 64, 65, 96, 97] {
                let base: Vec<u8> = (0..len).map(|j| b'a' + (j % 3) as u8).collect();
                col.push(Val::Bytes(base.clone()));
                if len > 0 {
                    let mut z = base.clone();
                    *z.last_mut().unwrap() = 0;
                    col.push(Val::Bytes(z));
                    if !w.contains("utf8") {
                        let mut f = base.clone();
                        *f.last_mut().unwrap() = 0xFF;
                        col.push(Val::Bytes(f));
                    }
                }
            }
            let n = col.len();
            g.reset();
            let (l, t) = make_case(&mut g, vec![FieldSpec { ty: leaf(w), desc: d, nf }], n, modes(i, n), Some(vec![col]));
            out.push((l, format!("{} dense:lens", t)));
            i += 1;
        }
    }
    // C. every way of producing rows, one mixed schema
    for m in 0..10 {
        for (d, nf) in opts {
            let fields = vec![
                FieldSpec { ty: leaf("i32"), desc: d, nf },
                FieldSpec { ty: leaf("utf8"), desc: !d, nf },
                FieldSpec { ty: Ty::List(LK::L, Box::new(leaf("i8"))), desc: d, nf: !nf },
                FieldSpec { ty: leaf("ivmdn"), desc: d, nf },
            ];
            g.reset();
            let (l, t) = make_case(&mut g, fields, 9, modes(m, 9), None);
            out.push((l, format!("{} dense:modes", t)));
        }
    }
    out
}

fn main() {
    let args = parse_args();
    if std::env::var("VERIF_LOUD").is_err() {
        quiet_panics();
    }
    let mut sink = Sink::new(&args.out);
    let record = |sink: &mut Sink, line: String, tags: String| {
        let (a, fails, xt) = run_case(&line);
        let tags = if xt.is_empty() { tags } else { format!("{} {}", tags, xt) };
        for f in fails {
            // `this:<class>[-panic|-err]` identifies the failing check of this very violation
            let class = f.split(':').next().unwrap_or("").to_string();
            let kind = if f.ends_with("PANIC") { "-panic" } else if f.contains("ERR:") { "-err" } else { "" };
            sink.oracle_failure(line.clone(), f, &format!("{} this:{}{}", tags, class, kind));
        }
        sink.case(line, a, &tags);
    };
    if args.mode == "replay" {
        for line in read_cases(args.replay.as_ref().unwrap()) {
            record(&mut sink, line, "replay".to_string());
        }
    } else {
        for (line, tags) in dense_block() {
            record(&mut sink, line, tags);
        }
        let mut g = Gen::new(Rng::new(args.seed ^ 0xC11));
        let n = n_cases(&args, 4000, 120000);
        for _ in 0..n {
            let (line, tags) = gen_case(&mut g);
            record(&mut sink, line, tags);
        }
    }
    sink.finish();
}
