//! C14 correspondence harness: incremental decoders (IPC StreamDecoder, JSON Decoder, CSV Decoder)
//! are independent of how the input is chunked.
//!
//! Case lines (all self-contained):
//!   C14 ipc  <stream-hex> <chunk sizes> <table off:len:kind:bodyLen:rows,…>   model + oracle
//!   C14 ipcx <stream-hex> <chunk sizes>                                        oracle only (corrupted bytes)
//!   C14 json <mode v|s|f> <batch_size> <bytes-hex> <chunk sizes>               model (tape) + oracle
//!   C14 csv  <batch_size> <header 0|1> <ncols> <bytes-hex> <chunk sizes>       oracle only
//! Chunk sizes sum to the input length; 0 = an empty chunk.
//!
//! For every case the real push decoder is run (1) with the chunking of the case line,
//! (2) with the whole input as one chunk, (3) one byte at a time, (4) at every single split
//! point (inputs up to a size limit), (5) for short inputs with all 2^(n-1) partitions, and
//! (6) through the one-shot pull reader.  Oracle: identical batches (==), schema and outcome,
//! and no batch larger than the batch size.  The answer line (compared with the Lean model) is
//! computed from run (1).
use arrow_array::{
    Array, ArrayRef, BooleanArray, DictionaryArray, Float64Array, Int32Array, Int64Array, RecordBatch, StringArray,
    types::Int8Type,
};
use arrow_buffer::Buffer;
use arrow_ipc::reader::{StreamDecoder, StreamReader};
use arrow_ipc::writer::StreamWriter;
use arrow_schema::{ArrowError, DataType, Field, Schema, SchemaRef};
use std::io::{BufRead, Read};
use std::sync::Arc;
use vcommon::*;

// ------------------------------------------------------------------------------------------ util

fn split<'a>(data: &'a [u8], sizes: &[usize]) -> Vec<&'a [u8]> {
    let mut out = vec![];
    let mut p = 0;
    for &n in sizes {
        out.push(&data[p..p + n]);
        p += n;
    }
    assert_eq!(p, data.len(), "chunk sizes must sum to the input length");
    out
}

/// all compositions of n (n >= 1) as chunk-size lists; 2^(n-1) of them
fn all_partitions(n: usize) -> Vec<Vec<usize>> {
    if n == 0 {
        return vec![vec![]];
    }
    let mut out = vec![];
    for mask in 0u32..(1u32 << (n - 1)) {
        let mut sizes = vec![];
        let mut cur = 1;
        for i in 0..n - 1 {
            if mask >> i & 1 == 1 {
                sizes.push(cur);
                cur = 1;
            } else {
                cur += 1;
            }
        }
        sizes.push(cur);
        out.push(sizes);
    }
    out
}

fn err_class(e: &ArrowError) -> &'static str {
    match e {
        ArrowError::IpcError(_) => "ipc",
        ArrowError::ParseError(_) => "parse",
        ArrowError::JsonError(_) => "json",
        ArrowError::CsvError(_) => "csv",
        ArrowError::InvalidArgumentError(_) => "invalid-arg",
        ArrowError::SchemaError(_) => "schema",
        ArrowError::ComputeError(_) => "compute",
        ArrowError::CastError(_) => "cast",
        ArrowError::MemoryError(_) => "memory",
        ArrowError::IoError(_, _) => "io",
        _ => "other",
    }
}

/// a BufRead that hands out the input in the given chunks (empty chunks are skipped: an empty
/// `fill_buf` means EOF by contract)
struct ChunkedRead<'a> {
    chunks: Vec<&'a [u8]>,
    idx: usize,
    pos: usize,
}
impl<'a> ChunkedRead<'a> {
    fn new(chunks: Vec<&'a [u8]>) -> Self {
        ChunkedRead { chunks, idx: 0, pos: 0 }
    }
    fn skip(&mut self) {
        while self.idx < self.chunks.len() && self.pos >= self.chunks[self.idx].len() {
            self.idx += 1;
            self.pos = 0;
        }
    }
}
impl Read for ChunkedRead<'_> {
    fn read(&mut self, out: &mut [u8]) -> std::io::Result<usize> {
        let b = self.fill_buf()?;
        let n = b.len().min(out.len());
        out[..n].copy_from_slice(&b[..n]);
        self.consume(n);
        Ok(n)
    }
}
impl BufRead for ChunkedRead<'_> {
    fn fill_buf(&mut self) -> std::io::Result<&[u8]> {
        self.skip();
        if self.idx >= self.chunks.len() { Ok(&[]) } else { Ok(&self.chunks[self.idx][self.pos..]) }
    }
    fn consume(&mut self, n: usize) {
        self.pos += n;
    }
}

/// the observable result of a decoder run
#[derive(Clone, Debug, PartialEq)]
struct Outcome {
    batches: Vec<RecordBatch>,
    schema: Option<SchemaRef>,
    verdict: String,
}
impl Outcome {
    fn rows(&self) -> Vec<usize> {
        self.batches.iter().map(|b| b.num_rows()).collect()
    }
    fn short(&self) -> String {
        format!("rows={} schema={} r={}", show_list(&self.rows()), self.schema.is_some() as u8, self.verdict)
    }
}

// ------------------------------------------------------------------------------------------- IPC

/// run a decoder, mapping a panic to the verdict `PANIC` (compared across chunkings like any other)
fn no_panic<F: FnOnce() -> Outcome>(f: F) -> Outcome {
    match std::panic::catch_unwind(std::panic::AssertUnwindSafe(f)) {
        Ok(o) => o,
        Err(_) => Outcome { batches: vec![], schema: None, verdict: "PANIC".into() },
    }
}

fn ipc_push(chunks: &[&[u8]]) -> Outcome {
    no_panic(|| ipc_push_inner(chunks))
}

fn ipc_push_inner(chunks: &[&[u8]]) -> Outcome {
    let mut d = StreamDecoder::new();
    let mut batches = vec![];
    let mut verdict = None;
    'outer: for c in chunks {
        let mut x = Buffer::from(c.to_vec());
        // documented caller loop
        while !x.is_empty() {
            match d.decode(&mut x) {
                Ok(Some(b)) => batches.push(b),
                Ok(None) => {}
                Err(e) => {
                    verdict = Some(format!("ERR:decode:{}", err_class(&e)));
                    break 'outer;
                }
            }
        }
        if c.is_empty() {
            // an empty buffer may also be handed to decode directly
            match d.decode(&mut x) {
                Ok(None) => {}
                Ok(Some(_)) => verdict = Some("ERR:batch-from-empty".into()),
                Err(e) => verdict = Some(format!("ERR:decode:{}", err_class(&e))),
            }
            if verdict.is_some() {
                break 'outer;
            }
        }
    }
    let verdict = verdict.unwrap_or_else(|| match d.finish() {
        Ok(()) => "ok".into(),
        Err(_) => "ERR:finish".into(),
    });
    Outcome { batches, schema: d.schema(), verdict }
}

fn ipc_pull(data: &[u8]) -> Outcome {
    no_panic(|| ipc_pull_inner(data))
}

fn ipc_pull_inner(data: &[u8]) -> Outcome {
    match StreamReader::try_new(std::io::Cursor::new(data.to_vec()), None) {
        Err(e) => Outcome { batches: vec![], schema: None, verdict: format!("ERR:open:{}", err_class(&e)) },
        Ok(r) => {
            let schema = Some(r.schema());
            let mut batches = vec![];
            let mut verdict = "ok".to_string();
            for b in r {
                match b {
                    Ok(b) => batches.push(b),
                    Err(e) => {
                        verdict = format!("ERR:read:{}", err_class(&e));
                        break;
                    }
                }
            }
            Outcome { batches, schema, verdict }
        }
    }
}

struct Piece {
    prefix: Vec<u8>, // continuation marker + length
    md: Vec<u8>,
    body: Vec<u8>,
    kind: u8,
    rows: i64,
}

/// frame the *writer's* output (trusted) into messages; uses only the flatbuffers API
fn ipc_pieces(stream: &[u8]) -> Vec<Piece> {
    let mut out = vec![];
    let mut p = 0;
    while p + 8 <= stream.len() {
        assert_eq!(&stream[p..p + 4], &[0xff; 4]);
        let len = u32::from_le_bytes(stream[p + 4..p + 8].try_into().unwrap()) as usize;
        if len == 0 {
            break;
        }
        let md = &stream[p + 8..p + 8 + len];
        let m = arrow_ipc::root_as_message(md).expect("writer output");
        let bl = m.bodyLength() as usize;
        let rows = m.header_as_record_batch().map(|b| b.length()).unwrap_or(0);
        out.push(Piece {
            prefix: stream[p..p + 8].to_vec(),
            md: md.to_vec(),
            body: stream[p + 8 + len..p + 8 + len + bl].to_vec(),
            kind: m.header_type().0,
            rows,
        });
        p += 8 + len + bl;
    }
    out
}

fn gen_ipc_batches(rng: &mut Rng) -> (SchemaRef, Vec<RecordBatch>) {
    let which = rng.below(5);
    let nb = *rng.pick(&[0usize, 1, 1, 2, 3]);
    let mut mk: Box<dyn FnMut(&mut Rng, usize) -> Vec<ArrayRef>> = match which {
        0 => Box::new(|rng, n| vec![Arc::new(Int32Array::from((0..n).map(|_| rng.range(-5, 5) as i32).collect::<Vec<_>>())) as ArrayRef]),
        1 => Box::new(|rng, n| {
            vec![
                Arc::new(Int64Array::from((0..n).map(|_| if rng.chance(1, 4) { None } else { Some(rng.range(-9, 9)) }).collect::<Vec<_>>())) as ArrayRef,
                Arc::new(StringArray::from((0..n).map(|_| if rng.chance(1, 4) { None } else { Some("x".repeat(rng.usize(4))) }).collect::<Vec<_>>())) as ArrayRef,
            ]
        }),
        2 => Box::new(|rng, n| vec![Arc::new(BooleanArray::from((0..n).map(|_| Some(rng.bool())).collect::<Vec<_>>())) as ArrayRef]),
        3 => Box::new(|rng, n| {
            let vals: Vec<&str> = (0..n).map(|_| *rng.pick(&["a", "bb", "ccc"])).collect();
            let d: DictionaryArray<Int8Type> = vals.into_iter().collect();
            vec![Arc::new(d) as ArrayRef]
        }),
        _ => Box::new(|rng, n| vec![Arc::new(Float64Array::from((0..n).map(|_| rng.range(-3, 3) as f64 * 0.5).collect::<Vec<_>>())) as ArrayRef]),
    };
    let fields: Vec<Field> = match which {
        0 => vec![Field::new("a", DataType::Int32, false)],
        1 => vec![Field::new("a", DataType::Int64, true), Field::new("s", DataType::Utf8, true)],
        2 => vec![Field::new("b", DataType::Boolean, true)],
        3 => vec![Field::new("d", DataType::Dictionary(Box::new(DataType::Int8), Box::new(DataType::Utf8)), true)],
        _ => vec![Field::new("f", DataType::Float64, true)],
    };
    let schema = Arc::new(Schema::new(fields));
    let mut batches = vec![];
    for _ in 0..nb {
        let n = *rng.pick(&[0usize, 0, 1, 2, 3, 5, 9, 9, 64, 65, 300]);
        batches.push(RecordBatch::try_new(schema.clone(), mk(rng, n)).unwrap());
    }
    (schema, batches)
}

fn write_ipc(schema: &SchemaRef, batches: &[RecordBatch]) -> Vec<u8> {
    let mut buf = Vec::new();
    {
        let mut w = StreamWriter::try_new(&mut buf, schema).unwrap();
        for b in batches {
            w.write(b).unwrap();
        }
        w.finish().unwrap();
    }
    buf
}

/// random chunk sizes for an input of length n; `style` picks the flavour
fn gen_chunks(rng: &mut Rng, n: usize, boundaries: &[usize]) -> (Vec<usize>, &'static str) {
    let style = rng.below(8);
    let mut cuts: Vec<usize> = vec![];
    let name;
    match style {
        0 => {
            name = "ch:single";
        }
        1 => {
            name = "ch:bytes";
            cuts = (1..n).collect();
        }
        2 => {
            name = "ch:one-split";
            if n > 0 {
                cuts.push(rng.usize(n + 1));
            }
        }
        3 | 4 => {
            // at / next to structure boundaries
            name = "ch:boundary";
            for &b in boundaries {
                if rng.chance(2, 3) {
                    let d = rng.range(-2, 2);
                    let c = (b as i64 + d).clamp(0, n as i64) as usize;
                    cuts.push(c);
                }
            }
        }
        5 => {
            name = "ch:fixed";
            let k = 1 + rng.usize(9);
            cuts = (1..n).filter(|i| i % k == 0).collect();
        }
        _ => {
            name = "ch:random";
            let k = rng.usize(8) + 1;
            for _ in 0..k {
                cuts.push(rng.usize(n + 1));
            }
        }
    }
    // empty chunks: duplicate some cut points / add 0 and n
    if rng.chance(1, 2) {
        let extra = rng.usize(3) + 1;
        for _ in 0..extra {
            let c = if cuts.is_empty() || rng.chance(1, 3) { *rng.pick(&[0, n]) } else { *rng.pick(&cuts) };
            cuts.push(c);
        }
    }
    cuts.sort();
    let mut sizes = vec![];
    let mut p = 0;
    for c in cuts {
        sizes.push(c - p);
        p = c;
    }
    sizes.push(n - p);
    (sizes, name)
}

fn ipc_answer(o: &Outcome) -> String {
    format!("b={} s={} r={}", show_list(&o.rows()), o.schema.is_some() as u8, o.verdict)
}

/// compare a run against the reference run of the same input
fn same(a: &Outcome, b: &Outcome) -> bool {
    a.verdict == b.verdict && a.schema == b.schema && a.batches == b.batches
}

fn ipc_oracles(data: &[u8], sizes: &[usize], given: &Outcome, fails: &mut Vec<(String, String)>, every_split: bool) {
    let single = ipc_push(&[data]);
    if !same(given, &single) {
        fails.push((format!("chunked {} != single-chunk {}", given.short(), single.short()), "oracle:chunk-dep".into()));
    }
    let bytes: Vec<&[u8]> = data.chunks(1).collect();
    let bw = ipc_push(&bytes);
    if !same(&bw, &single) {
        fails.push((format!("bytewise {} != single-chunk {}", bw.short(), single.short()), "oracle:chunk-dep".into()));
    }
    if every_split {
        for i in 0..=data.len() {
            let o = ipc_push(&[&data[..i], &data[i..]]);
            if !same(&o, &single) {
                fails.push((format!("split@{} {} != single-chunk {}", i, o.short(), single.short()), "oracle:chunk-dep".into()));
                break;
            }
        }
    }
    let _ = sizes;
    // one-shot pull reader: same batches; the pull reader reports problems as read errors, the
    // push decoder as decode/finish errors: compare ok-ness and the batches delivered
    if data.is_empty() {
        // zero bytes: the pull reader cannot be constructed (no schema), the push decoder has simply seen nothing
        return;
    }
    let pull = ipc_pull(data);
    let ok_push = single.verdict == "ok";
    let ok_pull = pull.verdict == "ok";
    if single.batches != pull.batches || ok_push != ok_pull || (ok_push && single.schema != pull.schema) {
        // the pull reader ignores bytes after the EOS marker (it stops reading); not a row difference
        let trailing_only = single.batches == pull.batches && single.verdict == "ERR:decode:ipc" && ok_pull && single.schema == pull.schema;
        // the pull reader cannot even be constructed without a leading schema message; the push decoder
        // in that situation has delivered nothing and knows no schema either (API difference, no rows)
        let no_schema = pull.verdict.starts_with("ERR:open") && single.schema.is_none() && single.batches.is_empty();
        if !trailing_only && !no_schema {
            fails.push((format!("push {} != pull {}", single.short(), pull.short()), "oracle:push-vs-pull".into()));
        }
    }
}

fn run_ipc(t: &[&str], fails: &mut Vec<(String, String)>) -> String {
    let data = unhex(t[2]);
    let sizes: Vec<usize> = parse_list(t[3]);
    let chunks = split(&data, &sizes);
    let given = ipc_push(&chunks);
    ipc_oracles(&data, &sizes, &given, fails, data.len() <= 1500);
    // dense targeted partitions: a cut strictly inside a metadata flatbuffer / a body (every k for
    // short units, a spread of k otherwise) FOLLOWED BY a chunk longer than the whole unit, i.e. the
    // zero-copy fast path is eligible by size while the scratch buffer is non-empty
    {
        let single = ipc_push(&[&data]);
        let n = data.len();
        'dense: for e in t[4].split(',').filter(|e| *e != "-") {
            let f: Vec<usize> = e.split(':').map(|x| x.parse().unwrap()).collect();
            for (start, len) in [(f[0], f[1]), (f[0] + f[1], f[3])] {
                if len < 2 || start + 1 >= n {
                    continue;
                }
                let ks: Vec<usize> = if len <= 72 {
                    (1..len).collect()
                } else {
                    let mut v: Vec<usize> = (1..6).chain(len - 5..len).collect();
                    let step = (len / 40).max(1);
                    v.extend((6..len - 5).step_by(step));
                    v
                };
                for k in ks {
                    let c1 = start + k;
                    if c1 >= n {
                        break;
                    }
                    for m in [len + 1, len + 9, len - k, len - k + 1] {
                        let c2 = (c1 + m).min(n);
                        for with_empty in [false, true] {
                            let mut ch: Vec<&[u8]> = vec![&data[..c1]];
                            if with_empty {
                                ch.push(&data[c1..c1]);
                            }
                            ch.push(&data[c1..c2]);
                            ch.push(&data[c2..]);
                            let o = ipc_push(&ch);
                            if !same(&o, &single) {
                                fails.push((
                                    format!("3-chunk cut@{}+{} (inside unit at {} len {}) {} != single-chunk {}", c1, c2 - c1, start, len, o.short(), single.short()),
                                    "oracle:chunk-dep".into(),
                                ));
                                break 'dense;
                            }
                        }
                    }
                }
            }
        }
    }
    // structural classification of a push-vs-pull difference (recomputed from the case line, so
    // that replayed lines carry it too): where does the stream end relative to the genuine messages?
    let mut extra = String::new();
    for e in t[4].split(',').filter(|e| *e != "-") {
        let f: Vec<usize> = e.split(':').map(|x| x.parse().unwrap()).collect();
        let (md_end, msg_end) = (f[0] + f[1], f[0] + f[1] + f[3]);
        if f[3] == 0 && data.len() == md_end && !extra.contains("pending") {
            extra.push_str(" finding:ipc-pending-empty-body");
        }
        if data.len() > msg_end && data.len() - msg_end <= 3 && !extra.contains("partial") {
            extra.push_str(" finding:ipc-pull-partial-prefix");
        }
    }
    for f in fails.iter_mut() {
        if f.1.contains("push-vs-pull") {
            f.1.push_str(&extra);
        }
    }
    ipc_answer(&given)
}

fn gen_ipc(rng: &mut Rng) -> (String, String) {
    let (schema, batches) = gen_ipc_batches(rng);
    let stream = write_ipc(&schema, &batches);
    let pieces = ipc_pieces(&stream);
    // plan: a sequence of piece indices, then EOS handling, truncation, legacy markers
    let mut plan: Vec<usize> = (0..pieces.len()).collect();
    let mut tags = vec!["op:ipc".to_string()];
    let nrec: Vec<usize> = (0..pieces.len()).filter(|&i| pieces[i].kind == 3).collect();
    match rng.below(10) {
        0 if !nrec.is_empty() => {
            let i = *rng.pick(&nrec);
            plan.retain(|&x| x != i);
            tags.push("mut:drop-batch".into());
        }
        1 if !nrec.is_empty() => {
            let i = *rng.pick(&nrec);
            let pos = plan.iter().position(|&x| x == i).unwrap();
            plan.insert(pos, i);
            tags.push("mut:dup-batch".into());
        }
        2 => {
            let pos = rng.usize(plan.len() + 1);
            plan.insert(pos.max(1), 0);
            tags.push("mut:dup-schema".into());
        }
        3 if plan.len() > 1 && pieces[1].kind == 3 => {
            plan.swap(0, 1);
            tags.push("mut:batch-before-schema".into());
        }
        _ => {}
    }
    let legacy = rng.below(6); // 0: strip all markers, 1: strip some
    let mut out: Vec<u8> = vec![];
    let mut table = vec![];
    let mut boundaries = vec![];
    let mut pending_pos: Vec<usize> = vec![];
    let mut msg_ends: Vec<usize> = vec![];
    let mut units: Vec<(usize, usize)> = vec![]; // (start, len) of every metadata flatbuffer and body
    let early_eos = if rng.chance(1, 10) { Some(rng.usize(plan.len() + 1)) } else { None };
    for (k, &i) in plan.iter().enumerate() {
        if early_eos == Some(k) {
            out.extend_from_slice(&[0xff, 0xff, 0xff, 0xff, 0, 0, 0, 0]);
            tags.push("mut:early-eos".into());
        }
        let p = &pieces[i];
        boundaries.push(out.len());
        if legacy == 0 || (legacy == 1 && rng.bool()) {
            out.extend_from_slice(&p.prefix[4..]);
            tags.push("legacy-prefix".into());
        } else {
            out.extend_from_slice(&p.prefix);
        }
        boundaries.push(out.len());
        table.push(format!("{}:{}:{}:{}:{}", out.len(), p.md.len(), p.kind, p.body.len(), p.rows));
        units.push((out.len(), p.md.len()));
        out.extend_from_slice(&p.md);
        boundaries.push(out.len());
        units.push((out.len(), p.body.len()));
        out.extend_from_slice(&p.body);
        if p.body.is_empty() {
            tags.push("empty-body".into());
            if early_eos.map_or(true, |e| k < e) {
                pending_pos.push(out.len());
            }
        }
        if early_eos.map_or(true, |e| k < e) {
            msg_ends.push(out.len());
        }
    }
    boundaries.push(out.len());
    match rng.below(8) {
        0 => {
            tags.push("end:no-eos".into());
        }
        1 => {
            out.extend_from_slice(&[0xff, 0xff, 0xff, 0xff, 0, 0, 0, 0]);
            let n = 1 + rng.usize(9);
            out.extend(rng.bytes(n));
            tags.push("end:trailing".into());
        }
        2 => {
            out.extend_from_slice(&[0, 0, 0, 0]);
            tags.push("end:legacy-eos".into());
        }
        3 => {
            out.extend_from_slice(&[0xff, 0xff, 0xff, 0xff, 0, 0, 0, 0]);
            // truncate somewhere
            let cut = if rng.bool() { rng.usize(out.len() + 1) } else { (*rng.pick(&boundaries) as i64 + rng.range(-3, 3)).clamp(0, out.len() as i64) as usize };
            out.truncate(cut);
            tags.push("end:truncated".into());
        }
        _ => {
            out.extend_from_slice(&[0xff, 0xff, 0xff, 0xff, 0, 0, 0, 0]);
            tags.push("end:eos".into());
        }
    }
    // the stream ends exactly after the metadata of a message with an empty body: the push decoder
    // has not dispatched that message yet (see report: differs from the pull reader)
    if pending_pos.contains(&out.len()) {
        tags.push("finding:ipc-pending-empty-body".into());
    }
    // the stream ends 1..3 bytes into the next length prefix: `StreamReader::read_meta_len` maps the
    // UnexpectedEof of its first read_exact to a clean end of stream, the push decoder reports it
    if msg_ends.iter().any(|&e| out.len() > e && out.len() - e <= 3) {
        tags.push("finding:ipc-pull-partial-prefix".into());
    }
    boundaries.retain(|&b| b <= out.len());
    let (mut sizes, mut chname) = gen_chunks(rng, out.len(), &boundaries);
    // a cut strictly inside a metadata flatbuffer or body followed by a chunk longer than that unit
    if rng.chance(1, 3) && !units.is_empty() {
        let cand: Vec<(usize, usize)> = units.iter().copied().filter(|&(s, l)| l >= 2 && s + 1 < out.len()).collect();
        if !cand.is_empty() {
            let (s0, l) = *rng.pick(&cand);
            let c1 = (s0 + 1 + rng.usize(l - 1)).min(out.len());
            let c2 = (c1 + l + 1 + rng.usize(12)).min(out.len());
            let mut v = vec![];
            // optionally a few cuts before
            let pre = if rng.bool() && c1 > 1 { rng.usize(c1) } else { 0 };
            if pre > 0 {
                v.push(pre);
            }
            v.push(c1 - pre);
            if rng.chance(1, 4) {
                v.push(0);
            }
            v.push(c2 - c1);
            v.push(out.len() - c2);
            sizes = v;
            chname = "ch:mid-then-long";
        }
    }
    tags.push(chname.into());
    if sizes.iter().filter(|&&s| s > 0).count() >= 2 {
        tags.push("nt".into());
    }
    if sizes.contains(&0) {
        tags.push("empty-chunk".into());
    }
    tags.sort();
    tags.dedup();
    (format!("C14 ipc {} {} {}", hex(&out), show_list(&sizes), show_list(&table)), tags.join(" "))
}

fn run_ipcx(t: &[&str], fails: &mut Vec<(String, String)>) -> String {
    let data = unhex(t[2]);
    let sizes: Vec<usize> = parse_list(t[3]);
    let chunks = split(&data, &sizes);
    // a corrupted length can make the decoder wait for gigabytes: that is fine, it never allocates ahead
    let given = ipc_push(&chunks);
    let single = ipc_push(&[&data]);
    if !same(&given, &single) {
        fails.push((format!("chunked {} != single-chunk {}", given.short(), single.short()), "oracle:chunk-dep".into()));
    }
    let bytes: Vec<&[u8]> = data.chunks(1).collect();
    let bw = ipc_push(&bytes);
    if !same(&bw, &single) {
        fails.push((format!("bytewise {} != single-chunk {}", bw.short(), single.short()), "oracle:chunk-dep".into()));
    }
    ipc_answer(&given)
}

fn gen_ipcx(rng: &mut Rng) -> (String, String) {
    let (schema, batches) = gen_ipc_batches(rng);
    let mut stream = write_ipc(&schema, &batches);
    let pieces = ipc_pieces(&stream);
    let mut tags = vec!["op:ipcx".to_string()];
    let mut boundaries = vec![];
    let mut p = 0;
    for pc in &pieces {
        boundaries.push(p);
        p += 8 + pc.md.len() + pc.body.len();
    }
    match rng.below(3) {
        0 => {
            // corrupt a length prefix byte
            let b = *rng.pick(&boundaries) + 4 + rng.usize(2);
            stream[b] = stream[b].wrapping_add(*rng.pick(&[1u8, 8, 0xf8, 0xff]));
            tags.push("mut:len-prefix".into());
        }
        1 => {
            let n = 1 + rng.usize(3);
            for _ in 0..n {
                let i = rng.usize(stream.len());
                stream[i] ^= 1 << rng.usize(8);
            }
            tags.push("mut:bitflip".into());
        }
        _ => {
            // corrupt inside a metadata flatbuffer
            let k = rng.usize(pieces.len());
            let off = boundaries[k] + 8 + rng.usize(pieces[k].md.len());
            stream[off] = rng.next_u64() as u8;
            tags.push("mut:metadata".into());
        }
    }
    let (sizes, chname) = gen_chunks(rng, stream.len(), &boundaries);
    tags.push(chname.into());
    if sizes.iter().filter(|&&s| s > 0).count() >= 2 {
        tags.push("nt".into());
    }
    (format!("C14 ipcx {} {}", hex(&stream), show_list(&sizes)), tags.join(" "))
}

// ------------------------------------------------------------------------------------------ JSON

fn json_builder(mode: &str, batch_size: usize) -> arrow_json::ReaderBuilder {
    match mode {
        // any top-level value as a string column (numbers / booleans coerced to their text)
        "v" | "f" => arrow_json::ReaderBuilder::new_with_field(Field::new("item", DataType::Utf8, true))
            .with_coerce_primitive(true)
            .with_ignore_type_conflicts(true)
            .with_flatten(mode == "f")
            .with_batch_size(batch_size),
        // objects with a fixed, type-tolerant schema
        _ => {
            let schema = Arc::new(Schema::new(vec![
                Field::new("a", DataType::Int64, true),
                Field::new("b", DataType::Utf8, true),
                Field::new("c", DataType::List(Arc::new(Field::new("item", DataType::Utf8, true))), true),
                Field::new("d", DataType::Struct(vec![Field::new("e", DataType::Boolean, true)].into()), true),
                Field::new("f", DataType::Float64, true),
            ]));
            arrow_json::ReaderBuilder::new(schema)
                .with_coerce_primitive(true)
                .with_ignore_type_conflicts(true)
                .with_batch_size(batch_size)
        }
    }
}

/// push protocol: decode; when it stops short of the chunk the batch is full: flush and go on
fn json_push(mode: &str, batch_size: usize, chunks: &[&[u8]]) -> Outcome {
    no_panic(|| json_push_inner(mode, batch_size, chunks))
}

fn json_push_inner(mode: &str, batch_size: usize, chunks: &[&[u8]]) -> Outcome {
    let mut d = json_builder(mode, batch_size).build_decoder().unwrap();
    let mut batches = vec![];
    for c in chunks {
        let mut rest: &[u8] = c;
        loop {
            match d.decode(rest) {
                Ok(n) => {
                    rest = &rest[n..];
                    if rest.is_empty() {
                        break;
                    }
                    match d.flush() {
                        Ok(Some(b)) => batches.push(b),
                        Ok(None) => {
                            return Outcome { batches, schema: None, verdict: "ERR:stall".into() };
                        }
                        Err(_) => return Outcome { batches, schema: None, verdict: "ERR:flush".into() },
                    }
                }
                Err(_) => return Outcome { batches, schema: None, verdict: "ERR:decode".into() },
            }
        }
    }
    // state observable through the public accessors before the last flush
    let extra = format!(";len={};partial={};empty={}", d.len(), d.has_partial_record() as u8, d.is_empty() as u8);
    let verdict = match d.flush() {
        Ok(Some(b)) => {
            batches.push(b);
            "ok"
        }
        Ok(None) => "ok",
        Err(_) => "ERR:flush",
    };
    Outcome { batches, schema: None, verdict: format!("{}{}", verdict, extra) }
}

fn json_pull(mode: &str, batch_size: usize, chunks: Vec<&[u8]>) -> Outcome {
    no_panic(|| json_pull_inner(mode, batch_size, chunks))
}

fn json_pull_inner(mode: &str, batch_size: usize, chunks: Vec<&[u8]>) -> Outcome {
    let r = json_builder(mode, batch_size).build(ChunkedRead::new(chunks)).unwrap();
    let mut batches = vec![];
    let mut verdict = "ok".to_string();
    for b in r {
        match b {
            Ok(b) => batches.push(b),
            Err(_) => {
                verdict = "ERR".into();
                break;
            }
        }
    }
    Outcome { batches, schema: None, verdict }
}

fn json_answer(mode: &str, o: &Outcome) -> String {
    let mut s = format!("rows={} r={}", show_list(&o.rows()), o.verdict.split(';').next().unwrap());
    if mode != "s" {
        // the decoded values themselves: hex of each string, `N` for null
        let mut vals = vec![];
        for b in &o.batches {
            let col = b.column(0).as_any().downcast_ref::<StringArray>().unwrap();
            for i in 0..col.len() {
                vals.push(if col.is_null(i) { "N".to_string() } else { hex(col.value(i).as_bytes()) });
            }
        }
        s.push_str(&format!(" v={}", show_list(&vals)));
    }
    s
}

fn same_ok_class(a: &str, b: &str) -> bool {
    (a.split(';').next() == Some("ok")) == (b.split(';').next() == Some("ok"))
}

fn run_json(t: &[&str], fails: &mut Vec<(String, String)>) -> String {
    let (mode, bs, data, sizes) = (t[2], t[3].parse::<usize>().unwrap(), unhex(t[4]), parse_list::<usize>(t[5]));
    let chunks = split(&data, &sizes);
    let given = json_push(mode, bs, &chunks);
    let single = json_push(mode, bs, &[&data]);
    let mut cmp = |name: String, o: &Outcome| {
        if !same(o, &single) {
            fails.push((format!("{} {} != single-chunk {}", name, o.short(), single.short()), "oracle:chunk-dep".into()));
        }
    };
    cmp("chunked".into(), &given);
    let bytes: Vec<&[u8]> = data.chunks(1).collect();
    cmp("bytewise".into(), &json_push(mode, bs, &bytes));
    if data.len() <= 400 {
        for i in 0..=data.len() {
            let o = json_push(mode, bs, &[&data[..i], &data[i..]]);
            if !same(&o, &single) {
                cmp(format!("split@{}", i), &o);
                break;
            }
        }
    }
    if data.len() <= 12 {
        for p in all_partitions(data.len()) {
            let o = json_push(mode, bs, &split(&data, &p));
            if !same(&o, &single) {
                cmp(format!("partition {}", show_list(&p)), &o);
                break;
            }
        }
    }
    for b in &single.batches {
        if b.num_rows() > bs {
            fails.push((format!("batch of {} rows > batch_size {}", b.num_rows(), bs), "oracle:batch-size".into()));
        }
    }
    // pull reader over the same chunking, and over the whole input
    for (name, ch) in [("pull-chunked", chunks.clone()), ("pull-whole", vec![&data[..]])] {
        let pull = json_pull(mode, bs, ch);
        if pull.batches != single.batches || !same_ok_class(&pull.verdict, &single.verdict) {
            fails.push((format!("{} {} != push {}", name, pull.short(), single.short()), "oracle:push-vs-pull".into()));
        }
    }
    json_answer(mode, &given)
}

fn json_string(rng: &mut Rng, out: &mut Vec<u8>) {
    out.push(b'"');
    if rng.chance(1, 6) {
        // a long plain run: crosses the 16/32/64 byte blocks of the memchr scan
        let n = *rng.pick(&[15usize, 16, 17, 31, 32, 33, 64, 100]);
        out.extend(std::iter::repeat(b'q').take(n));
    }
    for _ in 0..rng.usize(5) {
        match rng.below(12) {
            0 => out.extend_from_slice(b"\\n"),
            1 => out.extend_from_slice(b"\\\""),
            2 => out.extend_from_slice(b"\\\\"),
            3 => out.extend_from_slice(*rng.pick(&[&b"\\/"[..], b"\\b", b"\\f", b"\\r", b"\\t"])),
            4 => out.extend_from_slice(format!("\\u{:04x}", *rng.pick(&[0x41u32, 0xe9, 0x20ac, 0x7f, 0x800, 0xffff, 0xd7ff, 0xe000, 0])).as_bytes()),
            5 => {
                // surrogate pair
                let c = *rng.pick(&[0x1f600u32, 0x10000, 0x10ffff, 0x1d11e]) - 0x10000;
                let hex_case = rng.bool();
                let s = if hex_case {
                    format!("\\u{:04X}\\u{:04X}", 0xd800 + (c >> 10), 0xdc00 + (c & 0x3ff))
                } else {
                    format!("\\u{:04x}\\u{:04x}", 0xd800 + (c >> 10), 0xdc00 + (c & 0x3ff))
                };
                out.extend_from_slice(s.as_bytes());
            }
            6 => out.extend_from_slice("é€😀".chars().nth(rng.usize(3)).unwrap().to_string().as_bytes()),
            7 => out.extend_from_slice(*rng.pick(&[&b"{"[..], b"}", b"[", b"]", b",", b":", b" ", b"tru", b"null", b"1e5"])),
            _ => out.push(b'a' + rng.below(26) as u8),
        }
    }
    out.push(b'"');
}

fn json_number(rng: &mut Rng, out: &mut Vec<u8>) {
    let s = match rng.below(8) {
        0 => "0".to_string(),
        1 => format!("{}", rng.range(-1000, 1000)),
        2 => format!("{}.{}", rng.range(-9, 9), rng.below(100)),
        3 => format!("{}e{}", rng.range(1, 9), rng.range(-3, 3)),
        4 => format!("-{}.5E+{}", rng.below(10), rng.below(4)),
        5 => "9223372036854775807".to_string(),
        6 => "1.7976931348623157e308".to_string(),
        _ => format!("{}", rng.below(10)),
    };
    out.extend_from_slice(s.as_bytes());
}

fn json_ws(rng: &mut Rng, out: &mut Vec<u8>) {
    if rng.chance(1, 4) {
        for _ in 0..1 + rng.usize(2) {
            out.push(*rng.pick(&[b' ', b'\t', b'\n', b'\r']));
        }
    }
}

fn json_value(rng: &mut Rng, depth: usize, out: &mut Vec<u8>) {
    let k = if depth >= 3 { rng.below(5) } else { rng.below(8) };
    match k {
        0 => json_string(rng, out),
        1 => json_number(rng, out),
        2 => out.extend_from_slice(b"true"),
        3 => out.extend_from_slice(b"false"),
        4 => out.extend_from_slice(b"null"),
        5 | 6 => {
            out.push(b'[');
            let n = rng.usize(4);
            for i in 0..n {
                json_ws(rng, out);
                json_value(rng, depth + 1, out);
                json_ws(rng, out);
                if i + 1 < n {
                    out.push(b',');
                }
            }
            json_ws(rng, out);
            out.push(b']');
        }
        _ => json_object(rng, depth, out),
    }
}

fn json_object(rng: &mut Rng, depth: usize, out: &mut Vec<u8>) {
    out.push(b'{');
    let n = rng.usize(4);
    for i in 0..n {
        json_ws(rng, out);
        if depth == 0 && rng.chance(2, 3) {
            out.extend_from_slice(format!("\"{}\"", *rng.pick(&["a", "b", "c", "d", "e", "f"])).as_bytes());
        } else {
            json_string(rng, out);
        }
        json_ws(rng, out);
        out.push(b':');
        json_ws(rng, out);
        json_value(rng, depth + 1, out);
        json_ws(rng, out);
        if i + 1 < n {
            out.push(b',');
        }
    }
    json_ws(rng, out);
    out.push(b'}');
}

fn gen_json(rng: &mut Rng) -> (String, String) {
    let mode = *rng.pick(&["v", "v", "s", "s", "f"]);
    let bs = *rng.pick(&[1usize, 2, 3, 4, 5, 1024]);
    let mut out = vec![];
    let mut tags = vec!["op:json".to_string(), format!("mode:{}", mode)];
    let short = rng.chance(1, 4); // short inputs get all partitions
    let nrows = if short { 1 + rng.usize(2) } else { rng.usize(7) };
    let mut boundaries = vec![];
    if mode == "f" && rng.chance(3, 4) {
        out.push(b'[');
        for i in 0..nrows {
            json_ws(rng, &mut out);
            boundaries.push(out.len());
            if short { out.extend_from_slice(*rng.pick(&[&b"1"[..], b"\"a\"", b"null", b"true", b"\"\\n\"", b"-2"])) } else { json_value(rng, 1, &mut out) };
            if i + 1 < nrows {
                out.push(b',');
            }
        }
        out.push(b']');
        if rng.bool() {
            out.push(b'\n');
        }
    } else {
        for _ in 0..nrows {
            boundaries.push(out.len());
            if short {
                out.extend_from_slice(*rng.pick(&[&b"1"[..], b"\"a\"", b"null", b"true", b"{}", b"[]", b"\"\\n\"", b"-2.5", b"{\"a\":1}", b"\"\\u00e9\"", b"false", b"[1]"]));
            } else if mode == "s" {
                json_object(rng, 0, &mut out);
            } else {
                json_value(rng, 0, &mut out);
            }
            boundaries.push(out.len());
            match rng.below(5) {
                0 => out.push(b' '),
                1 => out.extend_from_slice(b"\r\n"),
                2 if mode != "s" => out.push(b' '),
                _ => out.push(b'\n'),
            }
        }
        if rng.chance(1, 5) && !out.is_empty() {
            out.pop(); // no trailing newline
            tags.push("end:no-newline".into());
        }
    }
    match rng.below(8) {
        0 if !out.is_empty() => {
            let cut = rng.usize(out.len());
            out.truncate(cut);
            tags.push("mut:truncated".into());
        }
        1 if !out.is_empty() => {
            let i = rng.usize(out.len());
            out[i] = *rng.pick(&[b'"', b'\\', b'{', b'}', b'[', b']', b',', b':', b'x', b'u', 0x80, 0xff, b' ', b'0', b'-', b'e', b'n', b't']);
            tags.push("mut:corrupt".into());
        }
        2 => {
            // a lone / bad surrogate or bad escape inside a string
            let bad = *rng.pick(&[&b"\"\\ud800\""[..], b"\"\\ud800\\u0041\"", b"\"\\udc00\"", b"\"\\x\"", b"\"\\u12g4\"", b"\"\\ud800\\n\"", b"nul", b"tru ", b"-", b"1e", b"\"\xff\"", b"\"\xc3\""]);
            out.extend_from_slice(bad);
            out.push(b'\n');
            tags.push("mut:bad-token".into());
        }
        _ => {}
    }
    boundaries.retain(|&b| b <= out.len());
    let (sizes, chname) = gen_chunks(rng, out.len(), &boundaries);
    tags.push(chname.into());
    tags.push(format!("bs:{}", if bs > 5 { "large".to_string() } else { bs.to_string() }));
    if out.len() <= 12 {
        tags.push("all-partitions".into());
    }
    if sizes.iter().filter(|&&s| s > 0).count() >= 2 {
        tags.push("nt".into());
    }
    (format!("C14 json {} {} {} {}", mode, bs, hex(&out), show_list(&sizes)), tags.join(" "))
}

/// fixed block of JSON boundary documents (same in every run): scan lengths around 8/16/32/64
/// (memchr / SIMD block sizes), escapes right after such runs, long whitespace and number runs,
/// nesting deeper than the initial stack capacity, many keys, every literal / escape kind
fn json_fixed_block() -> Vec<(String, String)> {
    let mut docs: Vec<(&str, Vec<u8>)> = vec![];
    for n in [7usize, 8, 9, 15, 16, 17, 31, 32, 33, 63, 64, 65, 130] {
        let mut d = vec![b'"'];
        d.extend(std::iter::repeat(b'a').take(n));
        d.extend_from_slice(b"\"\n");
        docs.push(("v", d));
        let mut d = vec![b'"'];
        d.extend(std::iter::repeat(b'b').take(n));
        d.extend_from_slice(b"\\n");
        d.extend(std::iter::repeat(b'c').take(n));
        d.extend_from_slice(b"\\ud83d\\ude00\" ");
        docs.push(("v", d));
        let mut d = vec![];
        d.extend(std::iter::repeat(b' ').take(n));
        d.extend_from_slice(b"1");
        d.extend(std::iter::repeat(b'7').take(n));
        d.extend(std::iter::repeat(b'\n').take(n));
        d.extend_from_slice(b"null");
        docs.push(("v", d));
    }
    let mut deep = vec![];
    deep.extend(std::iter::repeat(b'[').take(14));
    deep.extend_from_slice(b"{\"k\":[true,false,null,-1.5e+3,\"\\\"\\\\\\/\\b\\f\\n\\r\\t\\u0041\"]}");
    deep.extend(std::iter::repeat(b']').take(14));
    deep.push(b'\n');
    docs.push(("v", deep.clone()));
    docs.push(("f", deep));
    let mut many = b"{".to_vec();
    for i in 0..40 {
        many.extend_from_slice(format!("\"a\":{},\"k{}\" : \"v{}\" ,", i, i, i).as_bytes());
    }
    many.extend_from_slice(b"\"b\":\"end\"}\n{\"a\":1}");
    docs.push(("s", many));
    docs.push(("f", b"[1, 2 ,\"x\",[3],{\"a\":4}]  [5]\n[]".to_vec()));
    docs.push(("f", b" [ \"a\" , \"b\" ] 7 [null]".to_vec()));
    docs.push(("v", b"true false null 0 -0 1E5 \"\\ud800\\udc00\" \"\\udbff\\udfff\" \"\\uD83D\\uDE00\"".to_vec()));
    docs.push(("v", b"tru".to_vec()));
    docs.push(("v", b"\"\\ud83d\\u0041\"".to_vec()));
    docs.push(("v", b"\"\\ud83d\\ude0".to_vec()));
    docs.push(("s", b"{\"a\":1}{\"a\":2} {\"a\":3}\r\n{\"a\" : 4 , \"b\":\"\\n\"}".to_vec()));
    docs.push(("s", b"{\"a\":1,}\n{,\"a\":2}".to_vec()));
    docs.push(("s", b"{\"a\" 1}".to_vec()));
    let mut out = vec![];
    for (k, (mode, d)) in docs.iter().enumerate() {
        for bs in [1usize, 2, 1024] {
            // one chunking in the line (cut in the middle); the harness adds every split etc.
            let n = d.len();
            let sizes = if n >= 2 { vec![n / 2, 0, n - n / 2] } else { vec![n] };
            out.push((
                format!("C14 json {} {} {} {}", mode, bs, hex(d), show_list(&sizes)),
                format!("op:json mode:{} fixed-block doc:{} bs:{} nt", mode, k, if bs > 5 { "large".to_string() } else { bs.to_string() }),
            ));
        }
    }
    out
}

// ------------------------------------------------------------------------------------------- CSV

fn csv_schema(ncols: usize) -> SchemaRef {
    // all columns Utf8: type parsing works on complete rows and is not part of the chunking logic
    Arc::new(Schema::new((0..ncols).map(|i| Field::new(format!("c{}", i), DataType::Utf8, true)).collect::<Vec<_>>()))
}

thread_local! {
    /// reader options of the `csvo` op: `-` or tokens joined by `_`:
    /// d<byte> delimiter, q<byte> quote, e<byte> escape, t<byte> terminator, c<byte> comment,
    /// T truncated_rows, V header_validation, b<start>:<end> bounds, p<i>.<j>… projection
    static CSV_OPTS: std::cell::RefCell<String> = std::cell::RefCell::new("-".to_string());
}

fn csv_builder(bs: usize, header: bool, ncols: usize) -> arrow_csv::ReaderBuilder {
    let mut b = arrow_csv::ReaderBuilder::new(csv_schema(ncols)).with_batch_size(bs).with_header(header);
    let opts = CSV_OPTS.with(|o| o.borrow().clone());
    if opts != "-" {
        for tok in opts.split('_') {
            let (k, v) = tok.split_at(1);
            b = match k {
                "d" => b.with_delimiter(v.parse().unwrap()),
                "q" => b.with_quote(v.parse().unwrap()),
                "e" => b.with_escape(v.parse().unwrap()),
                "t" => b.with_terminator(v.parse().unwrap()),
                "c" => b.with_comment(v.parse().unwrap()),
                "T" => b.with_truncated_rows(true),
                "V" => b.with_header_validation(true),
                "b" => {
                    let (a, z) = v.split_once(':').unwrap();
                    b.with_bounds(a.parse().unwrap(), z.parse().unwrap())
                }
                "p" => b.with_projection(v.split('.').map(|x| x.parse().unwrap()).collect()),
                _ => panic!("bad csv option"),
            };
        }
    }
    b
}

/// the documented push loop (see `arrow_csv::reader::Decoder`), driven by a chunk list
fn csv_push(bs: usize, header: bool, ncols: usize, chunks: Vec<&[u8]>) -> Outcome {
    no_panic(|| csv_push_inner(bs, header, ncols, chunks))
}

fn csv_push_inner(bs: usize, header: bool, ncols: usize, chunks: Vec<&[u8]>) -> Outcome {
    let mut reader = ChunkedRead::new(chunks);
    let mut d = csv_builder(bs, header, ncols).build_decoder();
    let mut batches = vec![];
    loop {
        // one batch
        let r: Result<Option<RecordBatch>, ArrowError> = (|| {
            loop {
                let buf = reader.fill_buf().unwrap();
                let decoded = d.decode(buf)?;
                reader.consume(decoded);
                if decoded == 0 || d.capacity() == 0 {
                    break;
                }
            }
            d.flush()
        })();
        match r {
            Ok(Some(b)) => batches.push(b),
            Ok(None) => return Outcome { batches, schema: None, verdict: "ok".into() },
            Err(_) => return Outcome { batches, schema: None, verdict: "ERR".into() },
        }
    }
}

fn csv_pull(bs: usize, header: bool, ncols: usize, chunks: Vec<&[u8]>, buffered: bool) -> Outcome {
    no_panic(|| csv_pull_inner(bs, header, ncols, chunks, buffered))
}

fn csv_pull_inner(bs: usize, header: bool, ncols: usize, chunks: Vec<&[u8]>, buffered: bool) -> Outcome {
    let mut batches = vec![];
    let mut verdict = "ok".to_string();
    let mut take = |it: &mut dyn Iterator<Item = Result<RecordBatch, ArrowError>>| {
        for b in it {
            match b {
                Ok(b) => batches.push(b),
                Err(_) => {
                    verdict = "ERR".into();
                    break;
                }
            }
        }
    };
    if buffered {
        take(&mut csv_builder(bs, header, ncols).build_buffered(ChunkedRead::new(chunks)).unwrap());
    } else {
        take(&mut csv_builder(bs, header, ncols).build(ChunkedRead::new(chunks)).unwrap());
    }
    Outcome { batches, schema: None, verdict }
}

fn run_csv(t: &[&str], fails: &mut Vec<(String, String)>) -> String {
    let (bs, header, ncols, data, sizes) =
        (t[2].parse::<usize>().unwrap(), t[3] == "1", t[4].parse::<usize>().unwrap(), unhex(t[5]), parse_list::<usize>(t[6]));
    let chunks = split(&data, &sizes);
    let given = csv_push(bs, header, ncols, chunks.clone());
    let single = csv_push(bs, header, ncols, vec![&data]);
    let mut cmp = |name: String, o: &Outcome| {
        if !same(o, &single) {
            fails.push((format!("{} {} != single-chunk {}", name, o.short(), single.short()), "oracle:chunk-dep".into()));
        }
    };
    cmp("chunked".into(), &given);
    cmp("bytewise".into(), &csv_push(bs, header, ncols, data.chunks(1).collect()));
    if data.len() <= 400 {
        for i in 0..=data.len() {
            let o = csv_push(bs, header, ncols, vec![&data[..i], &data[i..]]);
            if !same(&o, &single) {
                cmp(format!("split@{}", i), &o);
                break;
            }
        }
    }
    if data.len() <= 12 {
        for p in all_partitions(data.len()) {
            let o = csv_push(bs, header, ncols, split(&data, &p));
            if !same(&o, &single) {
                cmp(format!("partition {}", show_list(&p)), &o);
                break;
            }
        }
    }
    for b in &single.batches {
        if b.num_rows() > bs {
            fails.push((format!("batch of {} rows > batch_size {}", b.num_rows(), bs), "oracle:batch-size".into()));
        }
    }
    for (name, o) in [
        ("bufreader-chunked", csv_pull(bs, header, ncols, chunks.clone(), true)),
        ("bufreader-whole", csv_pull(bs, header, ncols, vec![&data], true)),
        ("reader-whole", csv_pull(bs, header, ncols, vec![&data], false)),
    ] {
        if !same(&o, &single) {
            fails.push((format!("{} {} != push {}", name, o.short(), single.short()), "oracle:push-vs-pull".into()));
        }
    }
    // values row-major: hex of each field, `N` for null (the empty string is null by default)
    let mut vals = vec![];
    for b in &given.batches {
        for r in 0..b.num_rows() {
            for c in 0..b.num_columns() {
                let col = b.column(c).as_any().downcast_ref::<StringArray>().unwrap();
                vals.push(if col.is_null(r) { "N".to_string() } else { hex(col.value(r).as_bytes()) });
            }
        }
    }
    // a chunking whose first chunk holds only part of a UTF-8 BOM: csv-core strips the BOM only
    // when its first read sees all three bytes
    if data.starts_with(&[0xef, 0xbb, 0xbf]) {
        for f in fails.iter_mut() {
            if f.1.contains("chunk-dep") || f.1.contains("push-vs-pull") {
                f.1.push_str(" finding:csv-bom-split");
            }
        }
    }
    format!("rows={} r={} v={}", show_list(&given.rows()), given.verdict, show_list(&vals))
}

fn gen_csv(rng: &mut Rng) -> (String, String) {
    let ncols = 1 + rng.usize(3);
    let bs = *rng.pick(&[1usize, 2, 3, 4, 5, 1024]);
    let header = rng.chance(1, 3);
    let short = rng.chance(1, 5);
    let nrows = if short { 1 + rng.usize(2) } else { rng.usize(8) };
    let mut tags = vec!["op:csv".to_string()];
    // real writer for the values, then terminator variants
    let schema = csv_schema(ncols);
    let mut cols: Vec<ArrayRef> = vec![];
    for _ in 0..ncols {
        let vals: Vec<Option<String>> = (0..nrows)
            .map(|_| {
                if short {
                    return Some((*rng.pick(&["a", "", "\"", ",", "\n", "b\r\nc", "é", "1"])).to_string());
                }
                match rng.below(9) {
                    0 => None,
                    1 => Some("has,comma".into()),
                    2 => Some("has \"quote\"".into()),
                    3 => Some("line1\nline2".into()),
                    4 => Some("cr\r\nlf".into()),
                    5 => Some("".into()),
                    6 => Some("é€😀".into()),
                    7 => Some(format!("{}", rng.range(-99, 99))),
                    _ => Some("x".repeat(rng.usize(5))),
                }
            })
            .collect();
        cols.push(Arc::new(StringArray::from(vals)));
    }
    let batch = RecordBatch::try_new(schema.clone(), cols).unwrap();
    let mut out = vec![];
    {
        let mut w = arrow_csv::WriterBuilder::new().with_header(header).build(&mut out);
        w.write(&batch).unwrap();
    }
    match rng.below(4) {
        0 => {
            // CRLF record terminators (outside quotes only: the writer quotes embedded newlines)
            let mut o2 = vec![];
            let mut inq = false;
            for &b in &out {
                if b == b'"' {
                    inq = !inq;
                }
                if b == b'\n' && !inq {
                    o2.push(b'\r');
                }
                o2.push(b);
            }
            out = o2;
            tags.push("term:crlf".into());
        }
        1 if out.last() == Some(&b'\n') => {
            out.pop();
            tags.push("term:none-at-end".into());
        }
        2 => {
            // blank lines between records
            let mut o2 = vec![];
            let mut inq = false;
            for &b in &out {
                if b == b'"' {
                    inq = !inq;
                }
                o2.push(b);
                if b == b'\n' && !inq && rng.chance(1, 3) {
                    o2.push(b'\n');
                }
            }
            out = o2;
            tags.push("term:blank-lines".into());
        }
        _ => {}
    }
    match rng.below(8) {
        0 if !out.is_empty() => {
            let cut = rng.usize(out.len());
            out.truncate(cut);
            tags.push("mut:truncated".into());
        }
        1 if !out.is_empty() => {
            let i = rng.usize(out.len());
            out[i] = *rng.pick(&[b'"', b',', b'\n', b'\r', b'x', 0xff, b'1']);
            tags.push("mut:corrupt".into());
        }
        2 => {
            out.extend_from_slice(b"a,b,c,d,e\n");
            tags.push("mut:extra-fields".into());
        }
        _ => {}
    }
    match rng.below(12) {
        0 => {
            let mut o2 = vec![0xef, 0xbb, 0xbf];
            o2.extend_from_slice(&out);
            out = o2;
            tags.push("bom".into());
        }
        1 => {
            // hand-written oddities: quote inside an unquoted field, text after a closing quote,
            // bare CR terminators, trailing delimiter, unterminated quote
            let odd: &[&[u8]] = &[b"a\"b,c\n", b"\"a\"b,c\n", b"a,b\rc,d\r", b"a,\n", b"\"a,b", b"\"a\"\"b\",c\r\n", b",\n,", b"\r\n\r\na\n", b"\"\"\n", b"a\xc3,\xa9b\n"];
            for _ in 0..1 + rng.usize(3) {
                let k = rng.usize(odd.len());
                out.extend_from_slice(odd[k]);
            }
            tags.push("odd".into());
        }
        _ => {}
    }
    let mut boundaries: Vec<usize> = out.iter().enumerate().filter(|(_, b)| **b == b'\n' || **b == b'\r' || **b == b'"').map(|(i, _)| i + 1).collect();
    boundaries.truncate(12);
    let (mut sizes, chname) = gen_chunks(rng, out.len(), &boundaries);
    // an empty chunk means EOF for the CSV decoder: not a legal mid-stream call
    sizes.retain(|&s| s > 0);
    tags.push(chname.into());
    tags.push(format!("bs:{}", if bs > 5 { "large".to_string() } else { bs.to_string() }));
    if out.len() <= 12 {
        tags.push("all-partitions".into());
    }
    if sizes.len() >= 2 {
        tags.push("nt".into());
    }
    (format!("C14 csv {} {} {} {} {}", bs, header as u8, ncols, hex(&out), show_list(&sizes)), tags.join(" "))
}

/// `C14 csvo <opts> <batch_size> <header> <ncols> <hex> <chunks>`: reader options (oracle only)
fn run_csvo(t: &[&str], fails: &mut Vec<(String, String)>) -> String {
    CSV_OPTS.with(|o| *o.borrow_mut() = t[2].to_string());
    let t2: Vec<&str> = vec![t[0], "csv", t[3], t[4], t[5], t[6], t[7]];
    let a = std::panic::catch_unwind(std::panic::AssertUnwindSafe(|| run_csv(&t2, fails)));
    CSV_OPTS.with(|o| *o.borrow_mut() = "-".to_string());
    a.unwrap_or_else(|_| "PANIC".into())
}

/// fixed block of option × content combinations (same in every run) and random ones
fn gen_csvo(rng: &mut Rng, fixed: Option<usize>) -> (String, String) {
    // (options, ncols, header, content)
    let table: &[(&str, usize, bool, &[u8])] = &[
        ("d59", 2, false, b"a;b\n\"x;y\";z\r\nlast;row"),
        ("d9", 3, false, b"a\tb\tc\n1\t\t3\n"),
        ("q39", 2, false, b"'a,b',c\n'it''s',d\n"),
        ("e92", 2, false, b"\"a\\\"b\",c\n\"x\\\\\",y\n\"p\\nq\",r\n"),
        ("e92_q39", 1, false, b"'a\\'b'\n'c'\n"),
        ("t124", 2, false, b"a,b|c,d|\"e|f\",g|h,i"),
        ("t59_d44", 2, false, b"a,b;c,d;;e,f;"),
        ("c35", 2, false, b"#comment,line\na,b\n# another\r\nc,d\n#tail"),
        ("c35", 1, true, b"h\n#x\na\n#y\nb\n"),
        ("T", 3, false, b"a,b,c\nd\ne,f\n\ng,h,i\n"),
        ("T", 2, true, b"h1,h2\na\nb,c\n"),
        ("V", 2, true, b"c0,c1\na,b\nc,d\n"),
        ("V", 2, true, b"c0,wrong\na,b\n"),
        ("b1:3", 1, false, b"r0\nr1\nr2\nr3\nr4\n"),
        ("b0:2", 2, true, b"h,h\na,b\nc,d\ne,f\n"),
        ("b2:9", 1, false, b"r0\r\nr1\r\nr2\r\nr3"),
        ("p1", 3, false, b"a,b,c\nd,e,f\n"),
        ("p2.0", 3, true, b"x,y,z\n1,2,3\n\"4\n4\",5,6\n"),
        ("d124_q39_e92_c33", 2, false, b"!c|c\n'a|b'|'c\\'d'\ne|f\r\n"),
        ("T_c35_b1:4", 2, false, b"a\n#c\nb,c\nd\ne,f\ng\n"),
        ("-", 1, false, b"\"\xef\xbb\xbf\"\n"),
        ("-", 2, true, b"\"h\r\n1\",h2\r\n\"a\"\"b\",\"\"\r\n"),
    ];
    let mut tags = vec!["op:csvo".to_string()];
    let (opts, ncols, header, content): (String, usize, bool, Vec<u8>) = match fixed {
        Some(k) => {
            let e = &table[k % table.len()];
            tags.push("fixed-block".into());
            (e.0.to_string(), e.1, e.2, e.3.to_vec())
        }
        None => {
            let e = rng.pick(table);
            let mut c = e.3.to_vec();
            // repeat / mutate
            if rng.bool() {
                let c2 = c.clone();
                c.extend_from_slice(b"\n");
                c.extend_from_slice(&c2);
            }
            match rng.below(5) {
                0 if !c.is_empty() => {
                    let cut = rng.usize(c.len());
                    c.truncate(cut);
                    tags.push("mut:truncated".into());
                }
                1 if !c.is_empty() => {
                    let i = rng.usize(c.len());
                    c[i] = *rng.pick(&[b'"', b',', b'\n', b'\r', b'\\', b'#', b';', b'|', b'\'']);
                    tags.push("mut:corrupt".into());
                }
                _ => {}
            }
            (e.0.to_string(), e.1, e.2, c)
        }
    };
    for tok in opts.split('_') {
        tags.push(format!("opt:{}", &tok[..1]));
    }
    let bs = match fixed {
        Some(k) => [1usize, 2, 3, 1024][(k / table.len()) % 4],
        None => *rng.pick(&[1usize, 2, 3, 5, 1024]),
    };
    let n = content.len();
    let mut cuts: Vec<usize> = (0..rng.usize(6)).map(|_| rng.usize(n + 1)).filter(|&c| c > 0 && c < n).collect();
    cuts.sort();
    cuts.dedup();
    let mut sizes = vec![];
    let mut p = 0;
    for c in cuts {
        sizes.push(c - p);
        p = c;
    }
    sizes.push(n - p);
    sizes.retain(|&x| x > 0);
    if sizes.len() >= 2 {
        tags.push("nt".into());
    }
    tags.push(format!("bs:{}", if bs > 5 { "large".to_string() } else { bs.to_string() }));
    (format!("C14 csvo {} {} {} {} {} {}", opts, bs, header as u8, ncols, hex(&content), show_list(&sizes)), tags.join(" "))
}

// ------------------------------------------------------------------------------------------ main

fn run_case(line: &str) -> (String, Vec<(String, String)>) {
    let t: Vec<&str> = line.split(' ').collect();
    assert_eq!(t[0], "C14");
    let mut fails = vec![];
    let line_owned = line.to_string();
    let ans = {
        let fails_ref = &mut fails;
        guarded(move || {
            let t: Vec<&str> = line_owned.split(' ').collect();
            match t[1] {
                "ipc" => run_ipc(&t, fails_ref),
                "ipcx" => run_ipcx(&t, fails_ref),
                "json" => run_json(&t, fails_ref),
                "csv" => run_csv(&t, fails_ref),
                "csvo" => run_csvo(&t, fails_ref),
                _ => "bad-op".into(),
            }
        })
    };
    (ans, fails)
}

fn gen_case(rng: &mut Rng) -> (String, String) {
    match rng.below(10) {
        0 | 1 | 2 => gen_ipc(rng),
        3 => gen_ipcx(rng),
        4 | 5 | 6 => gen_json(rng),
        _ => gen_csv(rng),
    }
}

fn main() {
    let args = parse_args();
    if std::env::var("VERIF_LOUD").is_err() {
        quiet_panics();
    }
    let mut sink = Sink::new(&args.out);
    let emit = |sink: &mut Sink, line: String, tags: String| {
        let (a, fails) = run_case(&line);
        let mut tags = tags;
        for (what, tag) in fails {
            // the push-vs-pull difference for a pending zero-length body is tagged by the generator
            let t = format!("{} {}", tags, tag);
            sink.oracle_failure(line.clone(), what, &t);
            tags = format!("{} {}", tags, tag);
        }
        sink.case(line, a, &tags);
    };
    if args.mode == "replay" {
        for line in read_cases(args.replay.as_ref().unwrap()) {
            emit(&mut sink, line, "replay".into());
        }
    } else {
        let mut rng = Rng::new(args.seed ^ 0xC14);
        // fixed deterministic blocks (identical in every run), then the random cases
        for (line, tags) in json_fixed_block() {
            emit(&mut sink, line, tags);
        }
        let mut fixed_rng = Rng::new(0xC14F);
        for k in 0..88 {
            let (line, tags) = gen_csvo(&mut fixed_rng, Some(k));
            emit(&mut sink, line, tags);
        }
        let n = n_cases(&args, 3000, 60000);
        for i in 0..n {
            let (line, tags) = if i % 12 == 11 { gen_csvo(&mut rng, None) } else { gen_case(&mut rng) };
            emit(&mut sink, line, tags);
        }
    }
    sink.finish();
}
