//! C14 scratch experiment (to be replaced by the harness)
use arrow_array::{Int32Array, RecordBatch};
use arrow_buffer::Buffer;
use arrow_ipc::reader::{StreamDecoder, StreamReader};
use arrow_ipc::writer::StreamWriter;
use arrow_schema::{DataType, Field, Schema};
use std::sync::Arc;

fn main() {
    let schema = Arc::new(Schema::new(vec![Field::new("a", DataType::Int32, true)]));
    let b0 = RecordBatch::try_new(schema.clone(), vec![Arc::new(Int32Array::from(Vec::<i32>::new()))]).unwrap();
    let b1 = RecordBatch::try_new(schema.clone(), vec![Arc::new(Int32Array::from(vec![1, 2, 3]))]).unwrap();
    for (name, batches) in [("empty-last", vec![b1.clone(), b0.clone()]), ("nonempty-last", vec![b1.clone()]), ("schema-only", vec![])] {
        let mut buf = Vec::new();
        {
            let mut w = StreamWriter::try_new(&mut buf, &schema).unwrap();
            for b in &batches {
                w.write(b).unwrap();
            }
            w.finish().unwrap();
        }
        println!("{name}: total {} bytes, tail {:?}", buf.len(), &buf[buf.len() - 8..]);
        let no_eos = &buf[..buf.len() - 8];
        // pull reader
        let r = StreamReader::try_new(std::io::Cursor::new(no_eos.to_vec()), None);
        match r {
            Ok(r) => {
                let rows: Vec<_> = r.map(|b| b.map(|b| b.num_rows()).map_err(|e| e.to_string())).collect();
                println!("  pull: {:?}", rows);
            }
            Err(e) => println!("  pull: ERR {e}"),
        }
        let mut d = StreamDecoder::new();
        let mut x = Buffer::from(no_eos.to_vec());
        let mut rows = vec![];
        let mut err = None;
        while !x.is_empty() {
            match d.decode(&mut x) {
                Ok(Some(b)) => rows.push(b.num_rows()),
                Ok(None) => {}
                Err(e) => {
                    err = Some(e.to_string());
                    break;
                }
            }
        }
        println!("  push: rows {:?} err {:?} schema {} finish {:?}", rows, err, d.schema().is_some(), d.finish().map_err(|e| e.to_string()));
    }
}
