//! C16 correspondence harness (array / C Data Interface level; same history language as
//! h-buffer/c16 plus `xf` = export to FFI, `if` = import from FFI, `um` = PrimitiveArray::unary_mut).
//! Derived from h-buffer/src/bin/c16.rs — C16 correspondence harness (buffer level): random operation histories on real
//! `Buffer` / `MutableBuffer` / `BooleanBuffer` values with standard and custom owners.
//!
//! Case line:  `C16 ahist <nslots> <op>;<op>;…`   (ops as in lean/ArrowModel/C16/Driver.lean)
//! Answer: one group per step `<outcome>/<used() of pool 0.1.2>/<owners dropped in this step>/<slots whose
//! visible content changed>` and finally the drop count of every owner.
//!
//! Besides producing the answer the harness checks the property directly on the
//! implementation (oracle): the bytes seen through a `Buffer` that an operation does not
//! consume never change (custom owners scribble their memory when dropped, so a view that
//! outlives its owner is caught here too), no owner is dropped twice, and after everything
//! is dropped every owner has been dropped exactly once and the pool is empty.
use arrow_array::ffi::{FFI_ArrowArray, FFI_ArrowSchema, from_ffi};
use arrow_array::types::UInt8Type;
use arrow_array::{Array, ArrayRef, PrimitiveArray, StructArray};
use arrow_buffer::alloc::Allocation;
use arrow_buffer::{BooleanBuffer, Buffer, MemoryPool, MutableBuffer, ScalarBuffer, TrackingMemoryPool};
use arrow_schema::{DataType, Field, Fields};
use std::collections::BTreeSet;
use std::panic::{AssertUnwindSafe, catch_unwind};
use std::ptr::NonNull;
use std::sync::Arc;
use std::sync::atomic::{AtomicUsize, Ordering};
use vcommon::*;

/// custom owner of a leaked heap block: counts its drops and scribbles the block when dropped
/// (the block is deliberately never freed, so reading it afterwards is well defined and shows
/// the scribble)
struct RawOwner {
    ptr: *mut u8,
    len: usize,
    drops: Arc<AtomicUsize>,
}
unsafe impl Send for RawOwner {}
unsafe impl Sync for RawOwner {}
impl std::panic::RefUnwindSafe for RawOwner {}
impl Drop for RawOwner {
    fn drop(&mut self) {
        self.drops.fetch_add(1, Ordering::SeqCst);
        for k in 0..self.len {
            unsafe { *self.ptr.add(k) = 0xDD ^ (k as u8) };
        }
    }
}

/// custom owner that keeps another buffer alive (what an imported FFI array does)
struct Holder {
    #[allow(dead_code)]
    buf: Buffer,
    drops: Arc<AtomicUsize>,
}
impl Drop for Holder {
    fn drop(&mut self) {
        self.drops.fetch_add(1, Ordering::SeqCst);
    }
}

enum Slot {
    Empty,
    Buf(Buffer, usize),
    Mut(MutableBuffer, usize),
    /// an exported array not yet imported (dropping it runs its release callback)
    Ffi(FFI_ArrowArray, FFI_ArrowSchema),
}

/// private data of the counting release callback wrapped around an exported struct's own
struct Wrap {
    orig_private: *mut std::ffi::c_void,
    orig_release: Option<unsafe extern "C" fn(*mut FFI_ArrowArray)>,
    drops: Arc<AtomicUsize>,
}
/// counts the invocation, then restores and chains to the producer's release callback
unsafe extern "C" fn counting_release(arr: *mut FFI_ArrowArray) {
    unsafe {
        let a = &mut *arr;
        let mine = Box::from_raw(a.private_data() as *mut Wrap);
        a.set_private_data(mine.orig_private);
        a.set_release(mine.orig_release);
        mine.drops.fetch_add(1, Ordering::SeqCst);
        if let Some(r) = mine.orig_release {
            r(arr);
        }
    }
}

fn u8_array(b: Buffer) -> PrimitiveArray<UInt8Type> {
    PrimitiveArray::<UInt8Type>::new(ScalarBuffer::<u8>::from(b), None)
}

struct Exec {
    slots: Vec<Slot>,
    /// the program's memory pools (index = pool id in `cm:<slot>:<pool>`)
    pools: Vec<TrackingMemoryPool>,
    owners: Vec<Arc<AtomicUsize>>,
    /// harness-side region ids → pool currently holding its reservation (tags, and where to
    /// restore the reservation after the known truncate finding)
    claimed: Vec<Option<usize>>,
    tags: BTreeSet<String>,
    oracle: Vec<String>,
    good_ops: usize,
}

const NPOOLS: usize = 3;
const HOWS: usize = 3;
/// `used()` of every pool, `a.b.c`
fn used_all(pools: &[TrackingMemoryPool]) -> String {
    pools.iter().map(|p| p.used().to_string()).collect::<Vec<_>>().join(".")
}

fn pattern(seed: usize, len: usize) -> Vec<u8> {
    (0..len).map(|k| ((seed + 7 * k) % 256) as u8).collect()
}
fn digest(b: &[u8]) -> u64 {
    b.iter().fold(7u64, |acc, x| (acc * 31 + *x as u64 + 1) % 1000003)
}
fn show_slot(s: &Slot) -> String {
    match s {
        Slot::Empty => "e".into(),
        Slot::Buf(b, _) => format!("b{}.{}", b.len(), digest(b.as_slice())),
        Slot::Mut(m, _) => format!("m{}.{}", m.len(), digest(m.as_slice())),
        Slot::Ffi(..) => "x".into(),
    }
}

fn vec_buffer(bytes: &[u8], cap: usize, t: usize) -> Option<Buffer> {
    fn mk<T: arrow_buffer::ArrowNativeType>(bytes: &[u8], cap: usize) -> Buffer {
        let sz = std::mem::size_of::<T>();
        let mut v: Vec<T> = Vec::with_capacity(cap / sz);
        for c in bytes.chunks_exact(sz) {
            let mut raw = [0u8; 8];
            raw[..sz].copy_from_slice(c);
            // native-endian reinterpretation of the byte pattern
            v.push(unsafe { std::ptr::read_unaligned(raw.as_ptr() as *const T) });
        }
        Buffer::from_vec(v)
    }
    Some(match t {
        1 => mk::<u8>(bytes, cap),
        2 => mk::<u16>(bytes, cap),
        4 => mk::<u32>(bytes, cap),
        8 => mk::<u64>(bytes, cap),
        _ => return None,
    })
}

/// `into_vec::<T>` then `from_vec` again; Err gives the buffer back
fn into_vec_roundtrip(b: Buffer, t: usize) -> Result<Buffer, Buffer> {
    match t {
        1 => b.into_vec::<u8>().map(Buffer::from_vec),
        2 => b.into_vec::<u16>().map(Buffer::from_vec),
        4 => b.into_vec::<u32>().map(Buffer::from_vec),
        8 => b.into_vec::<u64>().map(Buffer::from_vec),
        _ => Err(b),
    }
}

impl Exec {
    fn new(n: usize) -> Self {
        Exec {
            slots: (0..n).map(|_| Slot::Empty).collect(),
            pools: (0..NPOOLS).map(|_| TrackingMemoryPool::default()).collect(),
            owners: vec![],
            claimed: vec![],
            tags: BTreeSet::new(),
            oracle: vec![],
            good_ops: 0,
        }
    }
    fn tag(&mut self, t: &str) {
        self.tags.insert(t.to_string());
    }
    fn new_rid(&mut self) -> usize {
        self.claimed.push(None);
        self.claimed.len() - 1
    }
    fn is_empty(&self, d: usize) -> bool {
        matches!(self.slots.get(d), Some(Slot::Empty))
    }
    fn buf(&self, i: usize) -> Option<(&Buffer, usize)> {
        match self.slots.get(i) {
            Some(Slot::Buf(b, r)) => Some((b, *r)),
            _ => None,
        }
    }
    fn take(&mut self, i: usize) -> Slot {
        std::mem::replace(&mut self.slots[i], Slot::Empty)
    }

    /// slots an op consumes / overwrites (mirror of `Op.targets` in the Lean model)
    fn targets(f: &[&str]) -> Vec<usize> {
        let us = |k: usize| f.get(k).and_then(|x| x.parse::<usize>().ok()).unwrap_or(usize::MAX);
        match f[0] {
            "av" | "am" | "ac" => vec![us(1)],
            "cl" | "sl" | "wp" | "xf" => vec![us(2)],
            "dr" | "im" | "iv" | "fz" | "wr" | "ex" | "tr" | "ba" | "um" => vec![us(1)],
            "if" => {
                let mut v = vec![us(1)];
                if let Some(d) = f.get(2) {
                    v.extend(d.split('+').filter_map(|x| x.parse::<usize>().ok()));
                }
                v
            }
            _ => vec![],
        }
    }

    fn op(&mut self, tok: &str) -> &'static str {
        let f: Vec<&str> = tok.split(':').collect();
        let n: Vec<Option<usize>> = f.iter().skip(1).map(|x| x.parse::<usize>().ok()).collect();
        let g = |k: usize| n.get(k).copied().flatten();
        let out = match (f[0], n.len()) {
            ("av", 5) => (|| {
                let (d, len, cap, t, seed) = (g(0)?, g(1)?, g(2)?, g(3)?, g(4)?);
                if !(self.is_empty(d) && len <= cap && t > 0 && len % t == 0 && cap % t == 0) {
                    return None;
                }
                let b = vec_buffer(&pattern(seed, len), cap, t)?;
                let r = self.new_rid();
                self.slots[d] = Slot::Buf(b, r);
                Some("ok")
            })(),
            ("am", 4) => (|| {
                let (d, len, cap, seed) = (g(0)?, g(1)?, g(2)?, g(3)?);
                if !(self.is_empty(d) && len <= cap) {
                    return None;
                }
                let mut m = MutableBuffer::with_capacity(cap);
                m.extend_from_slice(&pattern(seed, len));
                let r = self.new_rid();
                self.slots[d] = Slot::Mut(m, r);
                Some("ok")
            })(),
            ("ac", 3) => (|| {
                let (d, len, seed) = (g(0)?, g(1)?, g(2)?);
                if !self.is_empty(d) {
                    return None;
                }
                let block: &'static mut [u8] = Box::leak(pattern(seed, len).into_boxed_slice());
                let ptr = block.as_mut_ptr();
                let drops = Arc::new(AtomicUsize::new(0));
                self.owners.push(drops.clone());
                let owner: Arc<dyn Allocation> = Arc::new(RawOwner { ptr, len, drops });
                let b = unsafe { Buffer::from_custom_allocation(NonNull::new(ptr).unwrap(), len, owner) };
                let r = self.new_rid();
                self.slots[d] = Slot::Buf(b, r);
                Some("ok")
            })(),
            ("cl", 2) => (|| {
                let (i, d) = (g(0)?, g(1)?);
                let (b, r) = self.buf(i)?;
                let (b, r) = (b.clone(), r);
                if !self.is_empty(d) {
                    return None;
                }
                self.slots[d] = Slot::Buf(b, r);
                Some("ok")
            })(),
            ("sl", 4) => (|| {
                let (i, d, off, len) = (g(0)?, g(1)?, g(2)?, g(3)?);
                let (b, r) = self.buf(i)?;
                if !self.is_empty(d) {
                    return None;
                }
                match catch_unwind(AssertUnwindSafe(|| b.slice_with_length(off, len))) {
                    Ok(nb) => {
                        self.slots[d] = Slot::Buf(nb, r);
                        Some("ok")
                    }
                    Err(_) => Some("panic"),
                }
            })(),
            ("dr", 1) => (|| {
                let i = g(0)?;
                if i >= self.slots.len() || self.is_empty(i) {
                    return None;
                }
                drop(self.take(i));
                Some("ok")
            })(),
            ("im", 1) => (|| {
                let i = g(0)?;
                self.buf(i)?;
                let Slot::Buf(b, r) = self.take(i) else { unreachable!() };
                let (shared, offset) = (b.strong_count() > 1, b.ptr_offset() > 0);
                match b.into_mutable() {
                    Ok(m) => {
                        self.slots[i] = Slot::Mut(m, r);
                        self.tag("im:ok");
                        Some("ok")
                    }
                    Err(b) => {
                        self.slots[i] = Slot::Buf(b, r);
                        self.tag(if shared { "im:no:shared" } else if offset { "im:no:offset" } else { "im:no:custom" });
                        Some("no")
                    }
                }
            })(),
            ("iv", 2) => (|| {
                let (i, t) = (g(0)?, g(1)?);
                self.buf(i)?;
                let Slot::Buf(b, r) = self.take(i) else { unreachable!() };
                let (shared, offset) = (b.strong_count() > 1, b.ptr_offset() > 0);
                match into_vec_roundtrip(b, t) {
                    Ok(nb) => {
                        if self.claimed[r].is_some() {
                            self.tag("iv:ok:claimed");
                        }
                        let nr = self.new_rid();
                        self.slots[i] = Slot::Buf(nb, nr);
                        self.tag("iv:ok");
                        Some("ok")
                    }
                    Err(b) => {
                        self.slots[i] = Slot::Buf(b, r);
                        self.tag(if shared { "iv:no:shared" } else if offset { "iv:no:offset" } else { "iv:no:layout-or-custom" });
                        Some("no")
                    }
                }
            })(),
            ("fz", 1) => (|| {
                let i = g(0)?;
                if !matches!(self.slots.get(i), Some(Slot::Mut(..))) {
                    return None;
                }
                let Slot::Mut(m, r) = self.take(i) else { unreachable!() };
                self.slots[i] = Slot::Buf(m.into(), r);
                Some("ok")
            })(),
            ("wr", 3) => (|| {
                let (i, pos, val) = (g(0)?, g(1)?, g(2)?);
                match self.slots.get_mut(i) {
                    Some(Slot::Mut(m, _)) if pos < m.len() => {
                        m.as_slice_mut()[pos] = (val % 256) as u8;
                        Some("ok")
                    }
                    _ => None,
                }
            })(),
            ("ex", 3) => (|| {
                let (i, k, val) = (g(0)?, g(1)?, g(2)?);
                let mut realloc = false;
                let r = match self.slots.get_mut(i) {
                    Some(Slot::Mut(m, _)) => {
                        let c = m.capacity();
                        m.extend_from_slice(&vec![(val % 256) as u8; k]);
                        realloc = m.capacity() != c;
                        Some("ok")
                    }
                    _ => None,
                };
                if realloc {
                    self.tag("ex:realloc");
                }
                r
            })(),
            ("tr", 2) => (|| {
                let (i, len) = (g(0)?, g(1)?);
                let mut drift: Option<(String, String)> = None;
                let mut hit = false;
                let r = match self.slots.get_mut(i) {
                    Some(Slot::Mut(m, r)) => {
                        hit = self.claimed[*r].is_some();
                        let before = used_all(&self.pools);
                        m.truncate(len);
                        let after = used_all(&self.pools);
                        if hit && after != before {
                            // known finding: `truncate` resizes the reservation to `len` although
                            // the capacity is unchanged.  Report it on its own (oracle), then
                            // restore the capacity-based reservation so that the rest of the
                            // history is still compared exactly against the model.
                            drift = Some((before, after));
                            m.claim(&self.pools[self.claimed[*r].unwrap()]);
                        }
                        Some("ok")
                    }
                    _ => None,
                };
                if hit {
                    self.tag("tr:claimed");
                }
                if let Some((b, a)) = drift {
                    self.oracle.push(format!(
                        "KNOWN:finding:mutlen-claimed|MutableBuffer::truncate on a claimed buffer changed the pools' used() from {} to {} although its capacity is unchanged",
                        b, a
                    ));
                }
                r
            })(),
            ("xf", _) if f.len() == 3 => (|| {
                // export: slots `a` or `a+b` hold the (equally long) u8 columns of the array
                let srcs: Option<Vec<usize>> = f[1].split('+').map(|x| x.parse::<usize>().ok()).collect();
                let (srcs, d) = (srcs?, f[2].parse::<usize>().ok()?);
                let mut bufs = vec![];
                for i in &srcs {
                    bufs.push(self.buf(*i)?.0.clone());
                }
                if !self.is_empty(d) || !bufs.iter().all(|b| b.len() == bufs[0].len()) || bufs.is_empty() || bufs.len() > 2 {
                    return None;
                }
                let array: ArrayRef = if bufs.len() == 1 {
                    Arc::new(u8_array(bufs.pop().unwrap()))
                } else {
                    let fields: Fields = vec![Field::new("a", DataType::UInt8, false), Field::new("b", DataType::UInt8, false)].into();
                    let cols: Vec<ArrayRef> = bufs.drain(..).map(|b| Arc::new(u8_array(b)) as ArrayRef).collect();
                    Arc::new(StructArray::new(fields, cols, None))
                };
                let data = array.to_data();
                let mut ffi = FFI_ArrowArray::new(&data);
                let schema = FFI_ArrowSchema::try_from(data.data_type()).ok()?;
                drop(data);
                drop(array);
                // count invocations of the release callback
                let drops = Arc::new(AtomicUsize::new(0));
                let wrap = Box::new(Wrap { orig_private: ffi.private_data(), orig_release: ffi.release(), drops: drops.clone() });
                unsafe {
                    ffi.set_private_data(Box::into_raw(wrap) as *mut std::ffi::c_void);
                    ffi.set_release(Some(counting_release));
                }
                self.owners.push(drops);
                self.slots[d] = Slot::Ffi(ffi, schema);
                Some("ok")
            })(),
            ("if", _) if f.len() == 3 => (|| {
                let i = f[1].parse::<usize>().ok()?;
                let dsts: Option<Vec<usize>> =
                    if f[2] == "-" { Some(vec![]) } else { f[2].split('+').map(|x| x.parse::<usize>().ok()).collect() };
                let dsts = dsts?;
                let n_held = match self.slots.get(i) {
                    Some(Slot::Ffi(a, _)) => {
                        let k = a.num_children();
                        if k == 0 { 1 } else { k }
                    }
                    _ => return None,
                };
                let mut seen = BTreeSet::new();
                if dsts.len() != n_held || !dsts.iter().all(|d| self.is_empty(*d) && seen.insert(*d)) {
                    return None;
                }
                let Slot::Ffi(a, schema) = self.take(i) else { unreachable!() };
                let data = unsafe { from_ffi(a, &schema) }.expect("from_ffi");
                drop(schema);
                let bufs: Vec<Buffer> = if data.child_data().is_empty() {
                    vec![data.buffers()[0].clone()]
                } else {
                    data.child_data().iter().map(|c| c.buffers()[0].clone()).collect()
                };
                drop(data);
                for (d, b) in dsts.iter().zip(bufs) {
                    let r = self.new_rid();
                    self.slots[*d] = Slot::Buf(b, r);
                }
                self.tag("if:ok");
                Some("ok")
            })(),
            ("um", 2) => (|| {
                let (i, delta) = (g(0)?, g(1)?);
                self.buf(i)?;
                let Slot::Buf(b, r) = self.take(i) else { unreachable!() };
                let before = b.as_slice().to_vec();
                let (res, out) = match u8_array(b).unary_mut(|x| x.wrapping_add((delta % 256) as u8)) {
                    Ok(a) => (a, "ok"),
                    Err(a) => (a, "no"),
                };
                let (_, vals, _) = res.into_parts();
                let nb = vals.into_inner();
                if out == "no" && nb.as_slice() != &before[..] {
                    self.oracle.push("unary_mut declined but the array changed".into());
                }
                self.slots[i] = Slot::Buf(nb, r);
                self.tag(if out == "ok" { "um:inplace" } else { "um:declined" });
                Some(out)
            })(),
            ("cm", 1 | 2 | 3) => (|| {
                // cm:<slot>[:<pool>[:<how>]]  how: 0 Buffer::claim, 1 BooleanBuffer::claim, 2 Array::claim
                let (i, p, how) = (g(0)?, if n.len() > 1 { g(1)? } else { 0 }, if n.len() > 2 { g(2)? } else { 0 });
                if p >= NPOOLS {
                    return None;
                }
                let pool = &self.pools[p];
                let r = match self.slots.get(i) {
                    Some(Slot::Buf(b, r)) => {
                        match how {
                            1 => {
                                let bb = BooleanBuffer::new(b.clone(), 0, 8 * b.len());
                                bb.claim(pool);
                                self.tags.insert("cm:via-boolean".to_string());
                            }
                        2 => {
                            // through an array sharing the buffer: `Array::claim`
                            let a = u8_array(b.clone());
                            Array::claim(&a, pool);
                            self.tags.insert("cm:via-array".to_string());
                        }
                            _ => b.claim(pool),
                        }
                        *r
                    }
                    Some(Slot::Mut(m, r)) => {
                        m.claim(pool);
                        *r
                    }
                    _ => return None,
                };
                match self.claimed[r] {
                    Some(q) if q == p => self.tag("cm:reclaim:same-pool"),
                    Some(_) => self.tag("cm:reclaim:other-pool"),
                    None => {}
                }
                self.claimed[r] = Some(p);
                self.tag("cm");
                Some("ok")
            })(),
            ("wp", 4) => (|| {
                let (i, d, off, len) = (g(0)?, g(1)?, g(2)?, g(3)?);
                let (b, _) = self.buf(i)?;
                if off + len > b.len() || !self.is_empty(d) {
                    return None;
                }
                let drops = Arc::new(AtomicUsize::new(0));
                let ptr = NonNull::new(unsafe { b.as_ptr().add(off) } as *mut u8).unwrap();
                let owner: Arc<dyn Allocation> = Arc::new(Holder { buf: b.clone(), drops: drops.clone() });
                let nb = unsafe { Buffer::from_custom_allocation(ptr, len, owner) };
                self.owners.push(drops);
                let r = self.new_rid();
                self.slots[d] = Slot::Buf(nb, r);
                Some("ok")
            })(),
            ("ba", 5) => (|| {
                let (i, j, boff, blen) = (g(0)?, g(1)?, g(3)?, g(4)?);
                let opname = f[3];
                if !matches!(opname, "a" | "o" | "x") || i == j {
                    return None;
                }
                let (bi, _) = self.buf(i)?;
                let (bj, _) = self.buf(j)?;
                if bi.is_empty() || boff + blen > 8 * bi.len() || blen > 8 * bj.len() {
                    return None;
                }
                // a reference to the right operand's buffer is enough for `BooleanBuffer::new`
                // only by value, so it is cloned for the duration of the call (it is a
                // different variable than slot i; if it shares slot i's region that region is
                // shared anyway)
                let rhs = BooleanBuffer::new(bj.clone(), 0, blen);
                let Slot::Buf(b, r) = self.take(i) else { unreachable!() };
                let old_ptr = b.as_ptr();
                let old_len = b.len();
                let mut lhs = BooleanBuffer::new(b, boff, blen);
                match opname {
                    "a" => lhs &= &rhs,
                    "o" => lhs |= &rhs,
                    _ => lhs ^= &rhs,
                }
                drop(rhs);
                let in_place = lhs.inner().as_ptr() == old_ptr && lhs.offset() == boff && lhs.inner().len() == old_len;
                if in_place {
                    self.slots[i] = Slot::Buf(lhs.into_inner(), r);
                    self.tag("ba:inplace");
                    Some("ok")
                } else {
                    // canonical form of the freshly allocated result: its bits packed from bit 0
                    let bits: Vec<bool> = lhs.iter().collect();
                    let mut bytes = vec![0u8; (blen + 7) / 8];
                    for (k, b) in bits.iter().enumerate() {
                        if *b {
                            bytes[k / 8] |= 1 << (k % 8);
                        }
                    }
                    if lhs.len() != blen {
                        self.oracle.push("bit-assign result has wrong length".into());
                    }
                    drop(lhs);
                    let nr = self.new_rid();
                    self.slots[i] = Slot::Buf(Buffer::from_vec(bytes), nr);
                    self.tag("ba:copy");
                    Some("no")
                }
            })(),
            _ => None,
        };
        match out {
            Some(o) => {
                if o != "panic" {
                    self.good_ops += 1;
                }
                self.tag(&format!("op:{}", f[0]));
                o
            }
            None => {
                self.tag("bad");
                "bad"
            }
        }
    }
}

fn run_hist(nslots: usize, ops: &str) -> (String, String, Vec<String>) {
    let mut ex = Exec::new(nslots);
    let mut groups: Vec<String> = vec![];
    let toks: Vec<&str> = if ops == "-" { vec![] } else { ops.split(';').collect() };
    let mut views: Vec<String> = ex.slots.iter().map(show_slot).collect();
    let mut snaps: Vec<Option<Vec<u8>>> = vec![None; nslots];
    let mut drops: Vec<usize> = vec![];
    let mut shared_seen = false;
    for (k, tok) in toks.iter().enumerate() {
        let f: Vec<&str> = tok.split(':').collect();
        let targets = Exec::targets(&f);
        let out = ex.op(tok);
        // observables
        let nviews: Vec<String> = ex.slots.iter().map(show_slot).collect();
        let changed: Vec<String> =
            (0..nslots).filter(|i| views[*i] != nviews[*i]).map(|i| format!("{}={}", i, nviews[i])).collect();
        let ndrops: Vec<usize> = ex.owners.iter().map(|c| c.load(Ordering::SeqCst)).collect();
        let newly: Vec<usize> = (0..ndrops.len()).filter(|o| ndrops[*o] != drops.get(*o).copied().unwrap_or(0)).collect();
        if newly.len() > 1 {
            ex.tag("drop:cascade");
        } else if newly.len() == 1 {
            ex.tag("drop:owner");
        }
        groups.push(format!("{}/{}/{}/{}", out, used_all(&ex.pools), show_list(&newly), show_list(&changed)));
        // oracle 1: immutable views not consumed by this op are constant
        for i in 0..nslots {
            let now = match &ex.slots[i] {
                Slot::Buf(b, _) => Some(b.as_slice().to_vec()),
                _ => None,
            };
            if let (Some(a), Some(b)) = (&snaps[i], &now) {
                if !targets.contains(&i) && a != b {
                    ex.oracle.push(format!("step {} ({}): bytes seen through slot {} changed", k, tok, i));
                }
            }
            snaps[i] = now;
        }
        // oracle 2: no owner dropped twice
        if ndrops.iter().any(|c| *c > 1) {
            ex.oracle.push(format!("step {} ({}): an owner was dropped more than once", k, tok));
        }
        if matches!(f[0], "cl" | "sl" | "wp" | "xf") && out == "ok" {
            shared_seen = true;
        }
        views = nviews;
        drops = ndrops;
    }
    let fin: Vec<usize> = ex.owners.iter().map(|c| c.load(Ordering::SeqCst)).collect();
    groups.push(format!("D={}", show_list(&fin)));
    // oracle 3: after dropping everything each owner was dropped exactly once, pool is empty
    for s in ex.slots.iter_mut() {
        drop(std::mem::replace(s, Slot::Empty));
    }
    if ex.owners.iter().any(|c| c.load(Ordering::SeqCst) != 1) {
        ex.oracle.push("after dropping every handle some owner was not dropped exactly once".into());
    }
    if ex.pools.iter().any(|p| p.used() != 0) {
        ex.oracle.push(format!("after dropping every handle the pools still report {} bytes", used_all(&ex.pools)));
    }
    if shared_seen && ex.good_ops >= 5 {
        ex.tag("nt");
    }
    let tags = ex.tags.iter().cloned().collect::<Vec<_>>().join(" ");
    (groups.join(" "), tags, ex.oracle)
}

fn run_case(line: &str) -> (String, String, Vec<String>) {
    let t: Vec<&str> = line.split(' ').collect();
    assert_eq!(t[0], "C16");
    match t[1] {
        "ahist" => {
            let n: usize = t[2].parse().unwrap();
            let ops = t[3].to_string();
            let mut res = (String::new(), String::new(), vec![]);
            let a = guarded(|| {
                res = run_hist(n, &ops);
                res.0.clone()
            });
            (a, res.1, res.2)
        }
        _ => ("bad-op".into(), String::new(), vec![]),
    }
}

// ------------------------------------------------------------------------------ generator

fn gen_hist(rng: &mut Rng) -> String {
    let n = 3 + rng.usize(4); // 3..=6 slots
    let steps = 5 + rng.usize(56); // ≤ 60 ops
    let mut ex = Exec::new(n);
    let mut toks: Vec<String> = vec![];
    let allow_findings = true;
    for _ in 0..steps {
        let empties: Vec<usize> = (0..n).filter(|i| ex.is_empty(*i)).collect();
        let bufs: Vec<usize> = (0..n).filter(|i| matches!(ex.slots[*i], Slot::Buf(..))).collect();
        let muts: Vec<usize> = (0..n).filter(|i| matches!(ex.slots[*i], Slot::Mut(..))).collect();
        let ffis: Vec<usize> = (0..n).filter(|i| matches!(ex.slots[*i], Slot::Ffi(..))).collect();
        let lens = [0usize, 1, 3, 8, 9, 16, 24, 40, 64, 65];
        let tok = loop {
            let r = rng.below(100);
            // array level: export / import / unary_mut take a third of the steps
            if rng.chance(1, 3) {
                match rng.below(4) {
                    0 if !bufs.is_empty() && !empties.is_empty() => {
                        let d = *rng.pick(&empties);
                        let a = *rng.pick(&bufs);
                        let la = ex.buf(a).unwrap().0.len();
                        let same: Vec<usize> = bufs.iter().copied().filter(|b| ex.buf(*b).unwrap().0.len() == la).collect();
                        if rng.bool() && same.len() >= 1 {
                            break format!("xf:{}+{}:{}", a, rng.pick(&same), d);
                        }
                        break format!("xf:{}:{}", a, d);
                    }
                    1 if !ffis.is_empty() => {
                        let i = *rng.pick(&ffis);
                        let k = match &ex.slots[i] {
                            Slot::Ffi(a, _) => a.num_children().max(1),
                            _ => unreachable!(),
                        };
                        if empties.len() >= k {
                            let mut e = empties.clone();
                            let mut ds = vec![];
                            for _ in 0..k {
                                ds.push(e.remove(rng.usize(e.len())).to_string());
                            }
                            break format!("if:{}:{}", i, ds.join("+"));
                        }
                        break format!("dr:{}", i);
                    }
                    2 if !ffis.is_empty() && rng.chance(1, 3) => break format!("dr:{}", rng.pick(&ffis)),
                    _ if !bufs.is_empty() => break format!("um:{}:{}", rng.pick(&bufs), 1 + rng.usize(255)),
                    _ => {}
                }
            }
            // occasionally a deliberately inapplicable op
            if r < 2 {
                break format!("{}:{}", rng.pick(&["dr", "im", "fz", "cm"]), rng.usize(n + 1));
            }
            if r < 14 && !empties.is_empty() {
                let d = *rng.pick(&empties);
                break match rng.below(3) {
                    0 => {
                        let t = *rng.pick(&[1usize, 1, 2, 4, 8]);
                        let len = *rng.pick(&lens) / t * t;
                        let cap = len + if rng.bool() { 0 } else { t * rng.usize(5) };
                        format!("av:{}:{}:{}:{}:{}", d, len, cap, t, rng.usize(256))
                    }
                    1 => {
                        let len = *rng.pick(&lens);
                        format!("am:{}:{}:{}:{}", d, len, len + rng.usize(70), rng.usize(256))
                    }
                    _ => format!("ac:{}:{}:{}", d, *rng.pick(&lens), rng.usize(256)),
                };
            }
            if r < 30 && !bufs.is_empty() && !empties.is_empty() {
                let (i, d) = (*rng.pick(&bufs), *rng.pick(&empties));
                let len = ex.buf(i).unwrap().0.len();
                break match rng.below(4) {
                    0 => format!("cl:{}:{}", i, d),
                    1 => {
                        // offsets biased to 0 (keeps into_mutable possible) and to the ends
                        let off = if rng.bool() { 0 } else { rng.usize(len + 1) };
                        let l = if rng.chance(1, 12) { len + 1 } else { rng.usize(len - off + 1) };
                        format!("sl:{}:{}:{}:{}", i, d, off, l)
                    }
                    2 => {
                        let off = rng.usize(len + 1);
                        format!("wp:{}:{}:{}:{}", i, d, off, rng.usize(len - off + 1))
                    }
                    _ => format!("cl:{}:{}", i, d),
                };
            }
            if r < 48 && (!bufs.is_empty() || !muts.is_empty()) {
                let all: Vec<usize> = bufs.iter().chain(muts.iter()).copied().collect();
                break format!("dr:{}", rng.pick(&all));
            }
            if r < 58 && !bufs.is_empty() {
                break format!("im:{}", rng.pick(&bufs));
            }
            if r < 66 && !bufs.is_empty() {
                let i = *rng.pick(&bufs);
                if !allow_findings && ex.claimed[ex.buf(i).unwrap().1].is_some() {
                    continue;
                }
                break format!("iv:{}:{}", i, rng.pick(&[1usize, 1, 2, 4, 8]));
            }
            if r < 76 && !muts.is_empty() {
                let i = *rng.pick(&muts);
                let (len, claimed) = match &ex.slots[i] {
                    Slot::Mut(m, r) => (m.len(), ex.claimed[*r].is_some()),
                    _ => unreachable!(),
                };
                break match rng.below(4) {
                    0 => format!("fz:{}", i),
                    1 if len > 0 => format!("wr:{}:{}:{}", i, rng.usize(len), rng.usize(256)),
                    2 => format!("ex:{}:{}:{}", i, *rng.pick(&[0usize, 1, 7, 64, 130]), rng.usize(256)),
                    3 if allow_findings || !claimed => format!("tr:{}:{}", i, rng.usize(len + 2)),
                    _ => format!("fz:{}", i),
                };
            }
            if r < 86 && (!bufs.is_empty() || !muts.is_empty()) {
                let all: Vec<usize> = bufs.iter().chain(muts.iter()).copied().collect();
                // prefer a handle whose region is already claimed half of the time, so that
                // re-claims into the same and into a different pool (through clones / slices of
                // the same region) are frequent
                let rid = |ex: &Exec, i: usize| match &ex.slots[i] {
                    Slot::Buf(_, r) | Slot::Mut(_, r) => *r,
                    _ => usize::MAX,
                };
                let again: Vec<usize> = all.iter().copied().filter(|i| ex.claimed[rid(&ex, *i)].is_some()).collect();
                let i = if !again.is_empty() && rng.bool() { *rng.pick(&again) } else { *rng.pick(&all) };
                let p = match ex.claimed[rid(&ex, i)] {
                    Some(q) if rng.chance(1, 3) => q,
                    _ => rng.usize(NPOOLS),
                };
                break format!("cm:{}:{}:{}", i, p, rng.usize(HOWS));
            }
            if bufs.len() >= 2 {
                let i = *rng.pick(&bufs);
                let j = *rng.pick(&bufs);
                if i == j || ex.buf(i).unwrap().0.is_empty() {
                    continue;
                }
                let (li, lj) = (ex.buf(i).unwrap().0.len(), ex.buf(j).unwrap().0.len());
                let boff = if rng.bool() { 0 } else { rng.usize(8 * li + 1) };
                let blen = rng.usize((8 * li - boff).min(8 * lj) + 1);
                break format!("ba:{}:{}:{}:{}:{}", i, j, rng.pick(&["a", "o", "x"]), boff, blen);
            }
            if bufs.is_empty() && muts.is_empty() && !ffis.is_empty() && (empties.is_empty() || rng.bool()) {
                break format!("dr:{}", rng.pick(&ffis));
            }
        };
        ex.op(&tok);
        toks.push(tok);
    }
    format!("C16 ahist {} {}", n, toks.join(";"))
}

fn main() {
    let args = parse_args();
    if std::env::var("VERIF_LOUD").is_err() {
        quiet_panics();
    }
    let mut sink = Sink::new(&args.out);
    let emit = |sink: &mut Sink, line: String, extra: &str| {
        let (a, tags, oracle) = run_case(&line);
        let tags = format!("{} {}", tags, extra);
        for o in oracle {
            // a recorded finding is reported under its own key only; every other oracle failure
            // (and every disagreement with the model) of the same case stays a violation
            match o.strip_prefix("KNOWN:").and_then(|x| x.split_once('|')) {
                Some((key, what)) => sink.oracle_failure(line.clone(), what.to_string(), key),
                None => sink.oracle_failure(line.clone(), o, &tags),
            }
        }
        sink.case(line, a, tags.trim());
    };
    if args.mode == "replay" {
        for line in read_cases(args.replay.as_ref().unwrap()) {
            emit(&mut sink, line, "replay");
        }
    } else {
        let mut rng = Rng::new(args.seed ^ 0xC16A);
        let n = n_cases(&args, 3000, 100000);
        for _ in 0..n {
            let line = gen_hist(&mut rng);
            emit(&mut sink, line, "");
        }
    }
    sink.finish();
}
