//! C16 correspondence harness (array / C Data Interface level; same history language as
//! h-buffer/c16 plus `xf` = export to FFI, `if` = import from FFI, `um` = PrimitiveArray::unary_mut).
//! Derived from h-buffer/src/bin/c16.rs — C16 correspondence harness (buffer level): random operation histories on real
//! `Buffer` / `MutableBuffer` / `BooleanBuffer` values with standard and custom owners.
//!
//! Case line:  `C16 ahist <nslots> <op>;<op>;…`   (ops as in lean/ArrowModel/C16/Driver.lean)
//! Answer: one group per step `<outcome>/<used() of pool 0.1.2>/<owners dropped in this step>/<slots whose
//! visible content changed>` and finally the drop count of every owner.
//!
//! Besides producing the answer the harness checks the property directly on the
//! implementation (oracle): the bytes seen through a `Buffer` that an operation does not
//! consume never change (custom owners scribble their memory when dropped, so a view that
//! outlives its owner is caught here too), no owner is dropped twice, and after everything
//! is dropped every owner has been dropped exactly once and the pool is empty.
use arrow_array::ffi::{FFI_ArrowArray, FFI_ArrowSchema, from_ffi};
use arrow_array::types::UInt8Type;
use arrow_array::{Array, ArrayRef, PrimitiveArray, StructArray};
use arrow_buffer::alloc::Allocation;
use arrow_buffer::{BooleanBuffer, Buffer, MemoryPool, MutableBuffer, ScalarBuffer, TrackingMemoryPool};
use arrow_schema::{DataType, Field, Fields};
use std::collections::BTreeSet;
use std::panic::{AssertUnwindSafe, catch_unwind};
use std::ptr::NonNull;
use std::sync::Arc;
use std::sync::atomic::{AtomicUsize, Ordering};
use vcommon::*;

/// custom owner of a leaked heap block: counts its drops and scribbles the block when dropped
/// (the block is deliberately never freed, so reading it afterwards is well defined and shows
/// the scribble)
struct RawOwner {
    ptr: *mut u8,
    len: usize,
    drops: Arc<AtomicUsize>,
}
unsafe impl Send for RawOwner {}
unsafe impl Sync for RawOwner {}
impl std::panic::RefUnwindSafe for RawOwner {}
impl Drop for RawOwner {
    fn drop(&mut self) {
        self.drops.fetch_add(1, Ordering::SeqCst);
        for k in 0..self.len {
            unsafe { *self.ptr.add(k) = 0xDD ^ (k as u8) };
        }
    }
}

/// custom owner that keeps another buffer alive (what an imported FFI array does)
struct Holder {
    buf: Buffer,
    drops: Arc<AtomicUsize>,
}
impl Drop for Holder {
    fn drop(&mut self) {
        self.drops.fetch_add(1, Ordering::SeqCst);
    }
}

struct HolderBytes(Holder);
impl AsRef<[u8]> for HolderBytes {
    fn as_ref(&self) -> &[u8] {
        self.0.buf.as_slice()
    }
}

enum Slot {
    Empty,
    Buf(Buffer, usize),
    Mut(MutableBuffer, usize),
    /// an exported array not yet imported (dropping it runs its release callback)
    Ffi(FFI_ArrowArray, FFI_ArrowSchema),
}

/// private data of the counting release callback wrapped around an exported struct's own
struct Wrap {
    orig_private: *mut std::ffi::c_void,
    orig_release: Option<unsafe extern "C" fn(*mut FFI_ArrowArray)>,
    drops: Arc<AtomicUsize>,
}
/// counts the invocation, then restores and chains to the producer's release callback
unsafe extern "C" fn counting_release(arr: *mut FFI_ArrowArray) {
    unsafe {
        let a = &mut *arr;
        let mine = Box::from_raw(a.private_data() as *mut Wrap);
        a.set_private_data(mine.orig_private);
        a.set_release(mine.orig_release);
        mine.drops.fetch_add(1, Ordering::SeqCst);
        if let Some(r) = mine.orig_release {
            r(arr);
        }
    }
}

fn u8_array(b: Buffer) -> PrimitiveArray<UInt8Type> {
    PrimitiveArray::<UInt8Type>::new(ScalarBuffer::<u8>::from(b), None)
}

struct Exec {
    slots: Vec<Slot>,
    /// the program's memory pools (index = pool id in `cm:<slot>:<pool>`)
    pools: Vec<TrackingMemoryPool>,
    owners: Vec<Arc<AtomicUsize>>,
    /// harness-side region ids → pool currently holding its reservation (tags, and where to
    /// restore the reservation after the known truncate finding)
    claimed: Vec<Option<usize>>,
    tags: BTreeSet<String>,
    oracle: Vec<String>,
    good_ops: usize,
}

const RT_KINDS: usize = 2;
const NPOOLS: usize = 3;
const HOWS: usize = 3;
/// `used()` of every pool, `a.b.c`
fn used_all(pools: &[TrackingMemoryPool]) -> String {
    pools.iter().map(|p| p.used().to_string()).collect::<Vec<_>>().join(".")
}

fn pattern(seed: usize, len: usize) -> Vec<u8> {
    (0..len).map(|k| ((seed + 7 * k) % 256) as u8).collect()
}
fn digest(b: &[u8]) -> u64 {
    b.iter().fold(7u64, |acc, x| (acc * 31 + *x as u64 + 1) % 1000003)
}
fn show_slot(s: &Slot) -> String {
    match s {
        Slot::Empty => "e".into(),
        Slot::Buf(b, _) => format!(
            "b{}.{}.c{}.o{}.k{}",
            b.len(),
            digest(b.as_slice()),
            b.strong_count(),
            b.ptr_offset(),
            b.capacity()
        ),
        Slot::Mut(m, _) => format!("m{}.{}.k{}", m.len(), digest(m.as_slice()), m.capacity()),
        Slot::Ffi(..) => "x".into(),
    }
}

fn vec_buffer(bytes: &[u8], cap: usize, t: usize) -> Option<Buffer> {
    fn mk<T: arrow_buffer::ArrowNativeType>(bytes: &[u8], cap: usize) -> Buffer {
        let sz = std::mem::size_of::<T>();
        let mut v: Vec<T> = Vec::with_capacity(cap / sz);
        for c in bytes.chunks_exact(sz) {
            let mut raw = [0u8; 8];
            raw[..sz].copy_from_slice(c);
            // native-endian reinterpretation of the byte pattern
            v.push(unsafe { std::ptr::read_unaligned(raw.as_ptr() as *const T) });
        }
        Buffer::from_vec(v)
    }
    Some(match t {
        1 => mk::<u8>(bytes, cap),
        2 => mk::<u16>(bytes, cap),
        4 => mk::<u32>(bytes, cap),
        8 => mk::<u64>(bytes, cap),
        _ => return None,
    })
}

/// `into_vec::<T>` then `from_vec` again; Err gives the buffer back
fn into_vec_roundtrip(b: Buffer, t: usize) -> Result<Buffer, Buffer> {
    match t {
        1 => b.into_vec::<u8>().map(Buffer::from_vec),
        2 => b.into_vec::<u16>().map(Buffer::from_vec),
        4 => b.into_vec::<u32>().map(Buffer::from_vec),
        8 => b.into_vec::<u64>().map(Buffer::from_vec),
        _ => Err(b),
    }
}

impl Exec {
    fn new(n: usize) -> Self {
        Exec {
            slots: (0..n).map(|_| Slot::Empty).collect(),
            pools: (0..NPOOLS).map(|_| TrackingMemoryPool::default()).collect(),
            owners: vec![],
            claimed: vec![],
            tags: BTreeSet::new(),
            oracle: vec![],
            good_ops: 0,
        }
    }
    fn tag(&mut self, t: &str) {
        self.tags.insert(t.to_string());
    }
    fn new_rid(&mut self) -> usize {
        self.claimed.push(None);
        self.claimed.len() - 1
    }
    fn is_empty(&self, d: usize) -> bool {
        matches!(self.slots.get(d), Some(Slot::Empty))
    }
    fn buf(&self, i: usize) -> Option<(&Buffer, usize)> {
        match self.slots.get(i) {
            Some(Slot::Buf(b, r)) => Some((b, *r)),
            _ => None,
        }
    }
    fn take(&mut self, i: usize) -> Slot {
        std::mem::replace(&mut self.slots[i], Slot::Empty)
    }

    /// a length-changing `MutableBuffer` call.  Known finding (`finding:mutlen-claimed`):
    /// `truncate` / `resize` / `clear` resize a claimed reservation to `len` although the capacity
    /// says otherwise.  The deviation is reported on its own (oracle) and the capacity-based
    /// reservation is restored so that the rest of the history is still compared exactly.
    fn len_op(&mut self, i: usize, name: &str, f: impl FnOnce(&mut MutableBuffer)) -> Option<&'static str> {
        let mut drift: Option<(String, String)> = None;
        let hit;
        match self.slots.get_mut(i) {
            Some(Slot::Mut(m, r)) => {
                hit = self.claimed[*r];
                let before = used_all(&self.pools);
                let cap_before = m.capacity();
                f(m);
                if let Some(p) = hit {
                    // what the pools must show: only the capacity change of this region
                    let mut want: Vec<usize> = before.split('.').map(|x| x.parse().unwrap()).collect();
                    want[p] = want[p] + m.capacity() - cap_before;
                    let want = want.iter().map(|x| x.to_string()).collect::<Vec<_>>().join(".");
                    let after = used_all(&self.pools);
                    if after != want {
                        drift = Some((want, after));
                        // only the recorded len-accounting finding is repaired in the harness;
                        // `shrink_to_fit` (repaired in /repo d80671e) must simply be right
                        if name != "ms" {
                            m.claim(&self.pools[p]);
                        }
                    }
                }
            }
            _ => return None,
        }
        if hit.is_some() {
            self.tag(&format!("{}:claimed", name));
        }
        if let Some((want, got)) = drift {
            if name == "ms" {
                // not a recorded finding any more: a plain oracle failure (and the model comparison
                // of the same step disagrees too)
                self.oracle.push(format!(
                    "MutableBuffer::shrink_to_fit on a claimed buffer left the pools at {} where the capacities say {}",
                    got, want
                ));
            } else {
                self.oracle.push(format!(
                    "KNOWN:finding:mutlen-claimed|MutableBuffer::{} on a claimed buffer left the pools at {} where the capacities say {}",
                    match name { "tr" => "truncate", "rs" => "resize", _ => "clear" }, got, want
                ));
            }
        }
        Some("ok")
    }

    /// read-only round trips through other owners of the same memory, dropped again before
    /// returning: nothing observable may change
    fn round_trip(&mut self, bufs: Vec<Buffer>, kind: usize) {
        let _ = kind;
        for b in bufs.iter().filter(|b| !b.is_empty()) {
            let expect = b.as_slice().to_vec();
            let sc = b.strong_count();
            // Buffer → bytes::Bytes (owner = the buffer) → sub-slice → Buffer (owner = the bytes)
            let by: bytes::Bytes = bytes::Bytes::from(b.clone());
            let mid = by.len() / 2;
            let back = Buffer::from(by.slice(mid..));
            drop(by);
            if back.as_slice() != &expect[mid..] || b.strong_count() != sc + 1 {
                self.oracle.push("bytes::Bytes round trip: content or count wrong".into());
            }
            if back.clone().into_mutable().is_ok() {
                self.oracle.push("a buffer owned by bytes::Bytes was made mutable".into());
            }
            drop(back);
            if b.strong_count() != sc {
                self.oracle.push("bytes::Bytes round trip leaked a reference".into());
            }
        }
        self.tag("rt:bytes");
        if kind == 1 {
            // C Stream Interface: export a reader over two batches of these columns, import every
            // batch through ArrowArrayStreamReader, compare, drop everything
            let counts: Vec<usize> = bufs.iter().map(|b| b.strong_count()).collect();
            let fields: Vec<Field> = (0..bufs.len()).map(|k| Field::new(format!("c{k}"), DataType::UInt8, false)).collect();
            let schema = Arc::new(arrow_schema::Schema::new(fields));
            let cols: Vec<ArrayRef> = bufs.iter().map(|b| Arc::new(u8_array(b.clone())) as ArrayRef).collect();
            let batch = arrow_array::RecordBatch::try_new(schema.clone(), cols).expect("batch");
            let reader = arrow_array::RecordBatchIterator::new(vec![Ok(batch.clone()), Ok(batch.slice(0, batch.num_rows() / 2))], schema);
            let stream = arrow_array::ffi_stream::FFI_ArrowArrayStream::new(Box::new(reader));
            let imported: Vec<arrow_array::RecordBatch> =
                arrow_array::ffi_stream::ArrowArrayStreamReader::try_new(stream).expect("stream").map(|b| b.expect("batch")).collect();
            if imported.len() != 2 || imported[0] != batch || imported[1] != batch.slice(0, batch.num_rows() / 2) {
                self.oracle.push("C stream round trip: imported batches differ from the exported ones".into());
            }
            // imported columns are custom-owned: never mutable in place
            for c in imported[0].columns() {
                let d = c.to_data();
                if !d.buffers()[0].is_empty() && d.buffers()[0].clone().into_mutable().is_ok() {
                    self.oracle.push("an imported stream buffer was made mutable".into());
                }
            }
            drop(batch);
            drop(imported);
            let after: Vec<usize> = bufs.iter().map(|b| b.strong_count()).collect();
            if after != counts {
                self.oracle.push(format!("C stream round trip leaked references: {:?} -> {:?}", counts, after));
            }
            self.tag("rt:stream");
        }
    }

    /// slots an op consumes / overwrites (mirror of `Op.targets` in the Lean model)
    fn targets(f: &[&str]) -> Vec<usize> {
        let us = |k: usize| f.get(k).and_then(|x| x.parse::<usize>().ok()).unwrap_or(usize::MAX);
        match f[0] {
            "av" | "am" | "ac" | "as" | "az" => vec![us(1)],
            "cl" | "sl" | "wp" | "xf" => vec![us(2)],
            "dr" | "im" | "iv" | "fz" | "wr" | "ex" | "tr" | "ba" | "rs" | "mc" | "sf" | "ms" | "bm" | "um" => vec![us(1)],
            "u2" => vec![us(1), us(2)],
            "if" => {
                let mut v = vec![us(1)];
                if let Some(d) = f.get(2) {
                    v.extend(d.split('+').filter_map(|x| x.parse::<usize>().ok()));
                }
                v
            }
            _ => vec![],
        }
    }

    fn op(&mut self, tok: &str) -> &'static str {
        let f: Vec<&str> = tok.split(':').collect();
        let n: Vec<Option<usize>> = f.iter().skip(1).map(|x| x.parse::<usize>().ok()).collect();
        let g = |k: usize| n.get(k).copied().flatten();
        let out = match (f[0], n.len()) {
            ("av", 5) => (|| {
                let (d, len, cap, t, seed) = (g(0)?, g(1)?, g(2)?, g(3)?, g(4)?);
                if !(self.is_empty(d) && len <= cap && t > 0 && len % t == 0 && cap % t == 0) {
                    return None;
                }
                let b = vec_buffer(&pattern(seed, len), cap, t)?;
                let r = self.new_rid();
                self.slots[d] = Slot::Buf(b, r);
                Some("ok")
            })(),
            ("am", 4) => (|| {
                let (d, len, cap, seed) = (g(0)?, g(1)?, g(2)?, g(3)?);
                if !(self.is_empty(d) && len <= cap) {
                    return None;
                }
                let mut m = if seed % 2 == 0 { MutableBuffer::with_capacity(cap) } else { MutableBuffer::new(cap) };
                m.extend_from_slice(&pattern(seed, len));
                let r = self.new_rid();
                self.slots[d] = Slot::Mut(m, r);
                Some("ok")
            })(),
            ("ac", 3) => (|| {
                let (d, len, seed) = (g(0)?, g(1)?, g(2)?);
                if !self.is_empty(d) {
                    return None;
                }
                let block: &'static mut [u8] = Box::leak(pattern(seed, len).into_boxed_slice());
                let ptr = block.as_mut_ptr();
                let drops = Arc::new(AtomicUsize::new(0));
                self.owners.push(drops.clone());
                let owner: Arc<dyn Allocation> = Arc::new(RawOwner { ptr, len, drops });
                let b = unsafe { Buffer::from_custom_allocation(NonNull::new(ptr).unwrap(), len, owner) };
                let r = self.new_rid();
                self.slots[d] = Slot::Buf(b, r);
                Some("ok")
            })(),
            ("cl", 2) => (|| {
                let (i, d) = (g(0)?, g(1)?);
                let (b, r) = self.buf(i)?;
                let (b, r) = (b.clone(), r);
                if !self.is_empty(d) {
                    return None;
                }
                {
                    let (orig, _) = self.buf(i)?;
                    if !b.ptr_eq(orig) || b.data_ptr() != orig.data_ptr() || b.as_ptr() != orig.as_ptr() {
                        self.oracle.push("a clone does not point at the same memory".into());
                    }
                }
                self.slots[d] = Slot::Buf(b, r);
                Some("ok")
            })(),
            ("sl", 4 | 5) => (|| {
                let (i, d, off, len) = (g(0)?, g(1)?, g(2)?, g(3)?);
                let how = if n.len() > 4 { g(4)? } else { 0 };
                let (b, r) = self.buf(i)?;
                if !self.is_empty(d) {
                    return None;
                }
                // entry points to the same O(1) view: slice_with_length, slice (to the end),
                // clone + advance, byte-aligned bit_slice
                let whole = b.len();
                match catch_unwind(AssertUnwindSafe(|| match how {
                    1 if off + len == whole => b.slice(off),
                    2 if off + len <= whole => {
                        let mut c = b.clone();
                        c.advance(off);
                        c.slice_with_length(0, len)
                    }
                    3 if off + len <= whole => b.bit_slice(8 * off, 8 * len),
                    _ => b.slice_with_length(off, len),
                })) {
                    Ok(nb) => {
                        self.slots[d] = Slot::Buf(nb, r);
                        Some("ok")
                    }
                    Err(_) => Some("panic"),
                }
            })(),
            ("dr", 1) => (|| {
                let i = g(0)?;
                if i >= self.slots.len() || self.is_empty(i) {
                    return None;
                }
                drop(self.take(i));
                Some("ok")
            })(),
            ("im", 1) => (|| {
                let i = g(0)?;
                self.buf(i)?;
                let Slot::Buf(b, r) = self.take(i) else { unreachable!() };
                let (shared, offset) = (b.strong_count() > 1, b.ptr_offset() > 0);
                match b.into_mutable() {
                    Ok(m) => {
                        self.slots[i] = Slot::Mut(m, r);
                        self.tag("im:ok");
                        Some("ok")
                    }
                    Err(b) => {
                        self.slots[i] = Slot::Buf(b, r);
                        self.tag(if shared { "im:no:shared" } else if offset { "im:no:offset" } else { "im:no:custom" });
                        Some("no")
                    }
                }
            })(),
            ("iv", 2) => (|| {
                let (i, t) = (g(0)?, g(1)?);
                self.buf(i)?;
                let Slot::Buf(b, r) = self.take(i) else { unreachable!() };
                let (shared, offset) = (b.strong_count() > 1, b.ptr_offset() > 0);
                match into_vec_roundtrip(b, t) {
                    Ok(nb) => {
                        if self.claimed[r].is_some() {
                            self.tag("iv:ok:claimed");
                        }
                        let nr = self.new_rid();
                        self.slots[i] = Slot::Buf(nb, nr);
                        self.tag("iv:ok");
                        Some("ok")
                    }
                    Err(b) => {
                        self.slots[i] = Slot::Buf(b, r);
                        self.tag(if shared { "iv:no:shared" } else if offset { "iv:no:offset" } else { "iv:no:layout-or-custom" });
                        Some("no")
                    }
                }
            })(),
            ("fz", 1) => (|| {
                let i = g(0)?;
                if !matches!(self.slots.get(i), Some(Slot::Mut(..))) {
                    return None;
                }
                let Slot::Mut(m, r) = self.take(i) else { unreachable!() };
                self.slots[i] = Slot::Buf(m.into(), r);
                Some("ok")
            })(),
            ("wr", 3) => (|| {
                let (i, pos, val) = (g(0)?, g(1)?, g(2)?);
                match self.slots.get_mut(i) {
                    Some(Slot::Mut(m, _)) if pos < m.len() => {
                        m.as_slice_mut()[pos] = (val % 256) as u8;
                        Some("ok")
                    }
                    _ => None,
                }
            })(),
            ("ex", 3) => (|| {
                let (i, k, val) = (g(0)?, g(1)?, g(2)?);
                let mut realloc = false;
                let r = match self.slots.get_mut(i) {
                    Some(Slot::Mut(m, _)) => {
                        let c = m.capacity();
                        // entry points to the same growth rule: extend_from_slice, reserve + push,
                        // extend_zeros
                        match val % 3 {
                            1 => {
                                m.reserve(k);
                                for _ in 0..k {
                                    m.push((val % 256) as u8);
                                }
                            }
                            2 if val % 256 == 0 => m.extend_zeros(k),
                            _ => m.extend_from_slice(&vec![(val % 256) as u8; k]),
                        }
                        realloc = m.capacity() != c;
                        Some("ok")
                    }
                    _ => None,
                };
                if realloc {
                    self.tag("ex:realloc");
                }
                r
            })(),
            ("tr", 2) => (|| {
                let (i, len) = (g(0)?, g(1)?);
                self.len_op(i, "tr", |m| m.truncate(len))
            })(),
            ("rs", 3) => (|| {
                let (i, len, val) = (g(0)?, g(1)?, g(2)?);
                self.len_op(i, "rs", |m| m.resize(len, (val % 256) as u8))
            })(),
            ("mc", 1) => (|| {
                let i = g(0)?;
                self.len_op(i, "mc", |m| m.clear())
            })(),
            ("ms", 1) => (|| {
                let i = g(0)?;
                self.len_op(i, "ms", |m| m.shrink_to_fit())
            })(),
            ("sf", 1) => (|| {
                let i = g(0)?;
                match self.slots.get_mut(i) {
                    Some(Slot::Buf(b, _)) => {
                        let c = b.capacity();
                        b.shrink_to_fit();
                        let shrunk = b.capacity() != c;
                        self.tag(if shrunk { "sf:shrunk" } else { "sf:noop" });
                        Some("ok")
                    }
                    _ => None,
                }
            })(),
            ("as", 3) => (|| {
                let (d, len, seed) = (g(0)?, g(1)?, g(2)?);
                if !self.is_empty(d) {
                    return None;
                }
                let pat = pattern(seed, len);
                let b = if seed % 2 == 0 { Buffer::from_slice_ref(&pat) } else { Buffer::from(&pat[..]) };
                let r = self.new_rid();
                self.slots[d] = Slot::Buf(b, r);
                Some("ok")
            })(),
            ("az", 2) => (|| {
                let (d, len) = (g(0)?, g(1)?);
                if !self.is_empty(d) {
                    return None;
                }
                let m = MutableBuffer::from_len_zeroed(len);
                let r = self.new_rid();
                self.slots[d] = Slot::Mut(m, r);
                Some("ok")
            })(),
            ("rt", _) if f.len() >= 2 => (|| {
                let srcs: Option<Vec<usize>> = f[1].split('+').map(|x| x.parse::<usize>().ok()).collect();
                let srcs = srcs?;
                let kind = f.get(2).and_then(|x| x.parse::<usize>().ok()).unwrap_or(0);
                let mut bufs = vec![];
                for i in &srcs {
                    bufs.push(self.buf(*i)?.0.clone());
                }
                if bufs.is_empty() || !bufs.iter().all(|b| b.len() == bufs[0].len()) {
                    return None;
                }
                self.round_trip(bufs, kind);
                Some("ok")
            })(),
            ("xf", _) if f.len() == 3 || f.len() == 4 => (|| {
                let how = f.get(3).and_then(|x| x.parse::<usize>().ok()).unwrap_or(0);
                // export: slots `a` or `a+b` hold the (equally long) u8 columns of the array
                let srcs: Option<Vec<usize>> = f[1].split('+').map(|x| x.parse::<usize>().ok()).collect();
                let (srcs, d) = (srcs?, f[2].parse::<usize>().ok()?);
                let mut bufs = vec![];
                for i in &srcs {
                    bufs.push(self.buf(*i)?.0.clone());
                }
                if !self.is_empty(d) || !bufs.iter().all(|b| b.len() == bufs[0].len()) || bufs.is_empty() || bufs.len() > 2 {
                    return None;
                }
                let array: ArrayRef = if bufs.len() == 1 {
                    Arc::new(u8_array(bufs.pop().unwrap()))
                } else {
                    let fields: Fields = vec![Field::new("a", DataType::UInt8, false), Field::new("b", DataType::UInt8, false)].into();
                    let cols: Vec<ArrayRef> = bufs.drain(..).map(|b| Arc::new(u8_array(b)) as ArrayRef).collect();
                    Arc::new(StructArray::new(fields, cols, None))
                };
                let data = array.to_data();
                // two entry points: the struct constructors, or `arrow_array::ffi::to_ffi`
                let (mut ffi, schema) = if how == 1 {
                    self.tags.insert("xf:to_ffi".to_string());
                    arrow_array::ffi::to_ffi(&data).ok()?
                } else {
                    (FFI_ArrowArray::new(&data), FFI_ArrowSchema::try_from(data.data_type()).ok()?)
                };
                drop(data);
                drop(array);
                // count invocations of the release callback
                let drops = Arc::new(AtomicUsize::new(0));
                let wrap = Box::new(Wrap { orig_private: ffi.private_data(), orig_release: ffi.release(), drops: drops.clone() });
                unsafe {
                    ffi.set_private_data(Box::into_raw(wrap) as *mut std::ffi::c_void);
                    ffi.set_release(Some(counting_release));
                }
                self.owners.push(drops);
                self.slots[d] = Slot::Ffi(ffi, schema);
                Some("ok")
            })(),
            ("if", _) if f.len() == 3 || f.len() == 4 => (|| {
                let how = f.get(3).and_then(|x| x.parse::<usize>().ok()).unwrap_or(0);
                let i = f[1].parse::<usize>().ok()?;
                let dsts: Option<Vec<usize>> =
                    if f[2] == "-" { Some(vec![]) } else { f[2].split('+').map(|x| x.parse::<usize>().ok()).collect() };
                let dsts = dsts?;
                let n_held = match self.slots.get(i) {
                    Some(Slot::Ffi(a, _)) => {
                        let k = a.num_children();
                        if k == 0 { 1 } else { k }
                    }
                    _ => return None,
                };
                let mut seen = BTreeSet::new();
                if dsts.len() != n_held || !dsts.iter().all(|d| self.is_empty(*d) && seen.insert(*d)) {
                    return None;
                }
                let Slot::Ffi(mut a, schema) = self.take(i) else { unreachable!() };
                if a.is_released() || a.offset() != 0 || a.null_count() != 0 {
                    self.oracle.push("exported struct: released / offset / null_count wrong before import".into());
                }
                if how == 1 {
                    // move the struct out through a raw pointer (C consumers do this): the source
                    // becomes an empty, released struct whose drop must not release anything
                    let moved = unsafe { FFI_ArrowArray::from_raw(&mut a) };
                    if !a.is_released() || moved.is_released() {
                        self.oracle.push("FFI_ArrowArray::from_raw did not move the release callback".into());
                    }
                    drop(std::mem::replace(&mut a, moved));
                }
                let data = if how == 1 {
                    self.tags.insert("if:and_data_type".to_string());
                    let dt = DataType::try_from(&schema).expect("schema");
                    unsafe { arrow_array::ffi::from_ffi_and_data_type(a, dt) }.expect("from_ffi_and_data_type")
                } else {
                    unsafe { from_ffi(a, &schema) }.expect("from_ffi")
                };
                drop(schema);
                let bufs: Vec<Buffer> = if data.child_data().is_empty() {
                    vec![data.buffers()[0].clone()]
                } else {
                    data.child_data().iter().map(|c| c.buffers()[0].clone()).collect()
                };
                drop(data);
                for (d, b) in dsts.iter().zip(bufs) {
                    let r = self.new_rid();
                    self.slots[*d] = Slot::Buf(b, r);
                }
                self.tag("if:ok");
                Some("ok")
            })(),
            ("um", 2 | 3) => (|| {
                // how: 0 unary_mut, 1 try_unary_mut (never failing), 2 try_unary_mut failing on the
                // last element (the partially updated builder is dropped: the array is gone)
                let (i, delta) = (g(0)?, g(1)?);
                let how = if n.len() > 2 { g(2)? } else { 0 };
                self.buf(i)?;
                let Slot::Buf(b, r) = self.take(i) else { unreachable!() };
                let before = b.as_slice().to_vec();
                let d = (delta % 256) as u8;
                let arr = u8_array(b);
                let (res, out) = match how {
                    0 => match arr.unary_mut(|x| x.wrapping_add(d)) {
                        Ok(a) => (a, "ok"),
                        Err(a) => (a, "no"),
                    },
                    _ => match arr.try_unary_mut(|x| Ok::<u8, ()>(x.wrapping_add(d))) {
                        Ok(Ok(a)) => (a, "ok"),
                        Ok(Err(())) => unreachable!(),
                        Err(a) => (a, "no"),
                    },
                };
                if how == 2 && out == "no" {
                    // a failing closure on a shared array must leave it untouched too
                    let back = res.clone().try_unary_mut(|x| if x == 255 { Err(()) } else { Ok(x) });
                    if let Err(a) = back {
                        if a.values().inner().as_slice() != &before[..] {
                            self.oracle.push("try_unary_mut declined but the array changed".into());
                        }
                    }
                    self.tags.insert("um:try-err-probe".to_string());
                }
                let (_, vals, _) = res.into_parts();
                let nb = vals.into_inner();
                if out == "no" && nb.as_slice() != &before[..] {
                    self.oracle.push("unary_mut declined but the array changed".into());
                }
                let nr = if out == "ok" { self.new_rid() } else { r };
                self.slots[i] = Slot::Buf(nb, nr);
                self.tag(&format!("um{}:{}", how.min(1), if out == "ok" { "inplace" } else { "declined" }));
                Some(out)
            })(),
            ("bm", 2) => (|| {
                let (i, j) = (g(0)?, g(1)?);
                if i == j {
                    return None;
                }
                let (bi, _) = self.buf(i)?;
                let (bj, _) = self.buf(j)?;
                if bi.is_empty() || bi.len() != bj.len() {
                    return None;
                }
                let rhs = u8_array(bj.clone());
                let Slot::Buf(b, r) = self.take(i) else { unreachable!() };
                let before = b.as_slice().to_vec();
                let (res, out) = match arrow_arith::arity::binary_mut(u8_array(b), &rhs, |x, y| x.wrapping_add(y)) {
                    Ok(Ok(a)) => (a, "ok"),
                    Ok(Err(_)) => unreachable!(),
                    Err(a) => (a, "no"),
                };
                drop(rhs);
                let (_, vals, _) = res.into_parts();
                let nb = vals.into_inner();
                if out == "no" && nb.as_slice() != &before[..] {
                    self.oracle.push("binary_mut declined but the array changed".into());
                }
                let nr = if out == "ok" { self.new_rid() } else { r };
                self.slots[i] = Slot::Buf(nb, nr);
                self.tag(if out == "ok" { "bm:inplace" } else { "bm:declined" });
                Some(out)
            })(),
            ("u2", 3) => (|| {
                // unary_mut on an array WITH a validity buffer: values slot v, validity bits slot n
                let (v, nn, delta) = (g(0)?, g(1)?, g(2)?);
                if v == nn {
                    return None;
                }
                let (bv, _) = self.buf(v)?;
                let (bn, _) = self.buf(nn)?;
                let len = bv.len();
                if len == 0 || len > 8 * bn.len() {
                    return None;
                }
                let Slot::Buf(bv, rv) = self.take(v) else { unreachable!() };
                let Slot::Buf(bn, _) = self.take(nn) else { unreachable!() };
                let before = bv.as_slice().to_vec();
                let validity: Vec<bool> = BooleanBuffer::new(bn.clone(), 0, len).iter().collect();
                let nulls = arrow_buffer::NullBuffer::new(BooleanBuffer::new(bn, 0, len));
                let arr = PrimitiveArray::<UInt8Type>::new(ScalarBuffer::<u8>::from(bv), Some(nulls));
                let d = (delta % 256) as u8;
                let (res, out) = match arr.unary_mut(|x| x.wrapping_add(d)) {
                    Ok(a) => (a, "ok"),
                    Err(a) => (a, "no"),
                };
                let (_, vals, nulls) = res.into_parts();
                let after: Vec<bool> = match &nulls {
                    Some(nb) => nb.inner().iter().collect(),
                    None => vec![true; len],
                };
                if after != validity {
                    self.oracle.push("unary_mut changed the validity of an array".into());
                }
                drop(nulls);
                let nb = vals.into_inner();
                if out == "no" && nb.as_slice() != &before[..] {
                    self.oracle.push("unary_mut (with nulls) declined but the values changed".into());
                }
                let nrv = if out == "ok" { self.new_rid() } else { rv };
                self.slots[v] = Slot::Buf(nb, nrv);
                // canonical validity: the `len` bits packed from bit 0 in a fresh buffer
                let mut bytes = vec![0u8; (len + 7) / 8];
                for (k, b) in validity.iter().enumerate() {
                    if *b {
                        bytes[k / 8] |= 1 << (k % 8);
                    }
                }
                let nrn = self.new_rid();
                self.slots[nn] = Slot::Buf(Buffer::from_vec(bytes), nrn);
                self.tag(if validity.iter().all(|x| *x) { "u2:all-valid" } else { "u2:with-nulls" });
                self.tag(if out == "ok" { "u2:inplace" } else { "u2:declined" });
                Some(out)
            })(),
            ("cm", 1 | 2 | 3) => (|| {
                // cm:<slot>[:<pool>[:<how>]]  how: 0 Buffer::claim, 1 BooleanBuffer::claim, 2 Array::claim
                let (i, p, how) = (g(0)?, if n.len() > 1 { g(1)? } else { 0 }, if n.len() > 2 { g(2)? } else { 0 });
                if p >= NPOOLS {
                    return None;
                }
                let pool = &self.pools[p];
                let r = match self.slots.get(i) {
                    Some(Slot::Buf(b, r)) => {
                        match how {
                            1 => {
                                let bb = BooleanBuffer::new(b.clone(), 0, 8 * b.len());
                                bb.claim(pool);
                                self.tags.insert("cm:via-boolean".to_string());
                            }
                        2 => {
                            // through an array sharing the buffer: `Array::claim`
                            let a = u8_array(b.clone());
                            Array::claim(&a, pool);
                            self.tags.insert("cm:via-array".to_string());
                        }
                            _ => b.claim(pool),
                        }
                        *r
                    }
                    Some(Slot::Mut(m, r)) => {
                        m.claim(pool);
                        *r
                    }
                    _ => return None,
                };
                match self.claimed[r] {
                    Some(q) if q == p => self.tag("cm:reclaim:same-pool"),
                    Some(_) => self.tag("cm:reclaim:other-pool"),
                    None => {}
                }
                self.claimed[r] = Some(p);
                self.tag("cm");
                Some("ok")
            })(),
            ("wp", 4 | 5) => (|| {
                let (i, d, off, len) = (g(0)?, g(1)?, g(2)?, g(3)?);
                let how = if n.len() > 4 { g(4)? } else { 0 };
                let (b, _) = self.buf(i)?;
                if off + len > b.len() || !self.is_empty(d) {
                    return None;
                }
                let drops = Arc::new(AtomicUsize::new(0));
                let ptr = NonNull::new(unsafe { b.as_ptr().add(off) } as *mut u8).unwrap();
                let nb = if how == 1 && len > 0 {
                    // the owner is a `bytes::Bytes` that owns (a counting wrapper of) the buffer:
                    // `From<bytes::Bytes> for Buffer`
                    let by = bytes::Bytes::from_owner(HolderBytes(Holder { buf: b.clone(), drops: drops.clone() }));
                    self.tags.insert("wp:bytes".to_string());
                    Buffer::from(by.slice(off..off + len))
                } else {
                    let owner: Arc<dyn Allocation> = Arc::new(Holder { buf: b.clone(), drops: drops.clone() });
                    unsafe { Buffer::from_custom_allocation(ptr, len, owner) }
                };
                self.owners.push(drops);
                let r = self.new_rid();
                self.slots[d] = Slot::Buf(nb, r);
                Some("ok")
            })(),
            ("ba", 5 | 6) => (|| {
                let (i, j, boff, blen) = (g(0)?, g(1)?, g(3)?, g(4)?);
                let how = if n.len() > 5 { g(5)? } else { 0 };
                let opname = f[3];
                if !matches!(opname, "a" | "o" | "x") || i == j {
                    return None;
                }
                let (bi, _) = self.buf(i)?;
                let (bj, _) = self.buf(j)?;
                if bi.is_empty() || boff + blen > 8 * bi.len() || blen > 8 * bj.len() {
                    return None;
                }
                // a reference to the right operand's buffer is enough for `BooleanBuffer::new`
                // only by value, so it is cloned for the duration of the call (it is a
                // different variable than slot i; if it shares slot i's region that region is
                // shared anyway)
                let rhs = BooleanBuffer::new(bj.clone(), 0, blen);
                let Slot::Buf(b, r) = self.take(i) else { unreachable!() };
                let old_ptr = b.as_ptr();
                let old_len = b.len();
                let mut lhs = BooleanBuffer::new(b, boff, blen);
                if how == 1 {
                    // second entry point to the same gate: BooleanArray::bitwise_bin_op_mut_or_clone
                    let la = arrow_array::BooleanArray::new(lhs, None);
                    let ra = arrow_array::BooleanArray::new(rhs.clone(), None);
                    let res = match opname {
                        "a" => la.bitwise_bin_op_mut_or_clone(&ra, |x, y| x & y),
                        "o" => la.bitwise_bin_op_mut_or_clone(&ra, |x, y| x | y),
                        _ => la.bitwise_bin_op_mut_or_clone(&ra, |x, y| x ^ y),
                    };
                    drop(ra);
                    lhs = res.into_parts().0;
                    self.tags.insert("ba:via-boolean-array".to_string());
                } else {
                    match opname {
                        "a" => lhs &= &rhs,
                        "o" => lhs |= &rhs,
                        _ => lhs ^= &rhs,
                    }
                }
                drop(rhs);
                let in_place = lhs.inner().as_ptr() == old_ptr && lhs.offset() == boff && lhs.inner().len() == old_len;
                if in_place {
                    self.slots[i] = Slot::Buf(lhs.into_inner(), r);
                    self.tag("ba:inplace");
                    Some("ok")
                } else {
                    // canonical form of the freshly allocated result: its bits packed from bit 0
                    let bits: Vec<bool> = lhs.iter().collect();
                    let mut bytes = vec![0u8; (blen + 7) / 8];
                    for (k, b) in bits.iter().enumerate() {
                        if *b {
                            bytes[k / 8] |= 1 << (k % 8);
                        }
                    }
                    if lhs.len() != blen {
                        self.oracle.push("bit-assign result has wrong length".into());
                    }
                    drop(lhs);
                    let nr = self.new_rid();
                    self.slots[i] = Slot::Buf(Buffer::from_vec(bytes), nr);
                    self.tag("ba:copy");
                    Some("no")
                }
            })(),
            _ => None,
        };
        match out {
            Some(o) => {
                if o != "panic" {
                    self.good_ops += 1;
                }
                self.tag(&format!("op:{}", f[0]));
                o
            }
            None => {
                self.tag("bad");
                "bad"
            }
        }
    }
}

fn run_hist(nslots: usize, ops: &str) -> (String, String, Vec<String>) {
    let mut ex = Exec::new(nslots);
    let mut groups: Vec<String> = vec![];
    let toks: Vec<&str> = if ops == "-" { vec![] } else { ops.split(';').collect() };
    let mut views: Vec<String> = ex.slots.iter().map(show_slot).collect();
    let mut snaps: Vec<Option<Vec<u8>>> = vec![None; nslots];
    let mut drops: Vec<usize> = vec![];
    let mut shared_seen = false;
    for (k, tok) in toks.iter().enumerate() {
        let f: Vec<&str> = tok.split(':').collect();
        let targets = Exec::targets(&f);
        let out = ex.op(tok);
        // observables
        let nviews: Vec<String> = ex.slots.iter().map(show_slot).collect();
        let changed: Vec<String> =
            (0..nslots).filter(|i| views[*i] != nviews[*i]).map(|i| format!("{}={}", i, nviews[i])).collect();
        let ndrops: Vec<usize> = ex.owners.iter().map(|c| c.load(Ordering::SeqCst)).collect();
        let newly: Vec<usize> = (0..ndrops.len()).filter(|o| ndrops[*o] != drops.get(*o).copied().unwrap_or(0)).collect();
        if newly.len() > 1 {
            ex.tag("drop:cascade");
        } else if newly.len() == 1 {
            ex.tag("drop:owner");
        }
        groups.push(format!("{}/{}/{}/{}", out, used_all(&ex.pools), show_list(&newly), show_list(&changed)));
        // oracle 1: immutable views not consumed by this op are constant
        for i in 0..nslots {
            let now = match &ex.slots[i] {
                Slot::Buf(b, _) => Some(b.as_slice().to_vec()),
                _ => None,
            };
            if let (Some(a), Some(b)) = (&snaps[i], &now) {
                if !targets.contains(&i) && a != b {
                    ex.oracle.push(format!("step {} ({}): bytes seen through slot {} changed", k, tok, i));
                }
            }
            snaps[i] = now;
        }
        // oracle: the pool's other accessors agree with used()
        for p in &ex.pools {
            if p.allocated() != p.used() || p.available() != isize::MAX - p.used() as isize || p.capacity() != usize::MAX {
                ex.oracle.push(format!("step {} ({}): pool accessors disagree with used()", k, tok));
            }
        }
        // oracle 2: no owner dropped twice
        if ndrops.iter().any(|c| *c > 1) {
            ex.oracle.push(format!("step {} ({}): an owner was dropped more than once", k, tok));
        }
        if matches!(f[0], "cl" | "sl" | "wp" | "xf") && out == "ok" {
            shared_seen = true;
        }
        views = nviews;
        drops = ndrops;
    }
    let fin: Vec<usize> = ex.owners.iter().map(|c| c.load(Ordering::SeqCst)).collect();
    groups.push(format!("D={}", show_list(&fin)));
    // oracle 3: after dropping everything each owner was dropped exactly once, pool is empty
    for s in ex.slots.iter_mut() {
        drop(std::mem::replace(s, Slot::Empty));
    }
    if ex.owners.iter().any(|c| c.load(Ordering::SeqCst) != 1) {
        ex.oracle.push("after dropping every handle some owner was not dropped exactly once".into());
    }
    if ex.pools.iter().any(|p| p.used() != 0) {
        ex.oracle.push(format!("after dropping every handle the pools still report {} bytes", used_all(&ex.pools)));
    }
    if shared_seen && ex.good_ops >= 5 {
        ex.tag("nt");
    }
    let tags = ex.tags.iter().cloned().collect::<Vec<_>>().join(" ");
    (groups.join(" "), tags, ex.oracle)
}

// ------------------------------------------------------------- validity across the C Data Interface

/// the array of `kind` with `ArrayData::offset() == data_off` (0 for the typed kinds ≥ 2, which
/// keep only a validity offset) whose validity is bits `[nulls_off, nulls_off + len)` of `vbuf`
fn ffin_array(kind: usize, data_off: usize, nulls_off: usize, len: usize, vbuf: &[u8]) -> Option<(ArrayRef, arrow_data::ArrayData)> {
    use arrow_array::*;
    let total = vbuf.len() * 8;
    let vbits = BooleanBuffer::new(Buffer::from_vec(vbuf.to_vec()), 0, total);
    let valid = |i: usize| vbits.value(i);
    match kind {
        0 => {
            // BooleanArray whose values and validity carry different bit offsets
            let values = BooleanBuffer::collect_bool(data_off + len + 9, |i| i % 3 == 0);
            let a: ArrayRef = Arc::new(BooleanArray::new(
                values.slice(data_off, len),
                Some(arrow_buffer::NullBuffer::new(vbits.slice(nulls_off, len))),
            ));
            let d = a.to_data();
            Some((a, d))
        }
        1 => {
            // hand-built ArrayData with an offset of its own
            let values: Vec<u8> = (0..data_off + len + 3).map(|i| (i * 7 % 251) as u8).collect();
            let data = arrow_data::ArrayData::builder(DataType::UInt8)
                .len(len)
                .offset(data_off)
                .add_buffer(Buffer::from_vec(values))
                .nulls(Some(arrow_buffer::NullBuffer::new(vbits.slice(nulls_off, len))))
                .build()
                .ok()?;
            // exported as built (a typed array would re-base its value buffer to offset 0)
            Some((make_array(data.clone()), data))
        }
        _ => {
            if data_off != 0 {
                return None;
            }
            // typed arrays of `nulls_off + len` elements, sliced at `nulls_off`
            let n = nulls_off + len;
            let a: ArrayRef = match kind {
                2 => Arc::new(Int32Array::from_iter((0..n).map(|i| valid(i).then_some(i as i32 * 3 - 7)))),
                3 => Arc::new(StringArray::from_iter((0..n).map(|i| valid(i).then(|| format!("s{}", i % 11))))),
                4 => {
                    let mut b = builder::ListBuilder::new(builder::Int32Builder::new());
                    for i in 0..n {
                        if valid(i) {
                            for k in 0..i % 3 {
                                b.values().append_value((i + k) as i32);
                            }
                            b.append(true);
                        } else {
                            b.append(false);
                        }
                    }
                    Arc::new(b.finish())
                }
                5 => {
                    let c: ArrayRef = Arc::new(Int32Array::from_iter((0..n).map(|i| (i % 4 != 0).then_some(i as i32))));
                    let fields: Fields = vec![Field::new("a", DataType::Int32, true)].into();
                    let nulls = arrow_buffer::NullBuffer::new(vbits.slice(0, n));
                    Arc::new(StructArray::new(fields, vec![c], Some(nulls)))
                }
                6 => {
                    let keys = Int8Array::from_iter((0..n).map(|i| valid(i).then_some((i % 3) as i8)));
                    let vals: ArrayRef = Arc::new(StringArray::from(vec!["x", "yy", "zzz"]));
                    Arc::new(DictionaryArray::<types::Int8Type>::try_new(keys, vals).ok()?)
                }
                7 => Arc::new(StringViewArray::from_iter(
                    (0..n).map(|i| valid(i).then(|| if i % 2 == 0 { format!("v{i}") } else { format!("a long string value number {i}") })),
                )),
                _ => return None,
            };
            let a = a.slice(nulls_off, len);
            let d = a.to_data();
            Some((a, d))
        }
    }
}

/// `C16 ffin <kind> <dataOff> <nullsOff> <len> <how> <validity hex>`
fn run_ffin(t: &[&str]) -> (String, String, Vec<String>) {
    use arrow_array::*;
    let us = |k: usize| t[k].parse::<usize>().unwrap();
    let (kind, data_off, nulls_off, len, how) = (us(2), us(3), us(4), us(5), us(6));
    let vbuf = unhex(t[7]);
    let mut oracle = vec![];
    if nulls_off + len > vbuf.len() * 8 {
        return ("bad-op".into(), String::new(), oracle);
    }
    let Some((array, data)) = ffin_array(kind, data_off, nulls_off, len, &vbuf) else {
        return ("bad-op".into(), String::new(), oracle);
    };
    if kind == 1 && how == 2 {
        return ("bad-op".into(), String::new(), oracle);
    }
    if data.offset() != data_off || data.nulls().map(|n| n.offset()).unwrap_or(nulls_off) != nulls_off {
        oracle.push(format!("harness: built offsets {} / {:?}", data.offset(), data.nulls().map(|n| n.offset())));
    }
    let drops = Arc::new(AtomicUsize::new(0));
    let (exp_off, exp_nc, exp_bits, imported): (usize, usize, String, ArrayRef) = if how == 2 {
        // C Stream Interface: the array travels as the only column of a record batch
        let schema = Arc::new(arrow_schema::Schema::new(vec![Field::new("c", array.data_type().clone(), true)]));
        let batch = RecordBatch::try_new(schema.clone(), vec![array.clone()]).expect("batch");
        let reader = RecordBatchIterator::new(vec![Ok(batch)], schema);
        let stream = ffi_stream::FFI_ArrowArrayStream::new(Box::new(reader));
        let mut got: Vec<RecordBatch> = ffi_stream::ArrowArrayStreamReader::try_new(stream).expect("stream").map(|b| b.expect("batch")).collect();
        drops.fetch_add(1, Ordering::SeqCst);
        (data_off, data.null_count(), "?".into(), got.remove(0).column(0).clone())
    } else {
        let (mut ffi, schema) = if how == 1 {
            (FFI_ArrowArray::new(&data), FFI_ArrowSchema::try_from(data.data_type()).expect("schema"))
        } else {
            arrow_array::ffi::to_ffi(&data).expect("to_ffi")
        };
        // what a C consumer sees: offset, null_count, and the bitmap read at `offset`
        let off = ffi.offset();
        let nc = ffi.null_count();
        let bitmap = ffi.buffer(0);
        let bits = if bitmap.is_null() {
            "-".to_string()
        } else {
            show_bits(&(0..len).map(|i| unsafe { (*bitmap.add((off + i) / 8) >> ((off + i) % 8)) & 1 == 1 }).collect::<Vec<_>>())
        };
        let wrap = Box::new(Wrap { orig_private: ffi.private_data(), orig_release: ffi.release(), drops: drops.clone() });
        unsafe {
            ffi.set_private_data(Box::into_raw(wrap) as *mut std::ffi::c_void);
            ffi.set_release(Some(counting_release));
        }
        let imp = if how == 1 {
            unsafe { arrow_array::ffi::from_ffi_and_data_type(ffi, data.data_type().clone()) }.expect("import")
        } else {
            unsafe { from_ffi(ffi, &schema) }.expect("import")
        };
        (off, nc, bits, make_array(imp))
    };
    // oracle: the imported array is logically equal to the exported one, null positions included,
    // and its null count is the one its own bitmap shows
    let iv: Vec<bool> = (0..imported.len()).map(|i| imported.is_valid(i)).collect();
    let ev: Vec<bool> = (0..array.len()).map(|i| array.is_valid(i)).collect();
    let recount = imported.nulls().map(|n| n.len() - n.inner().count_set_bits()).unwrap_or(0);
    if imported.len() != array.len() || iv != ev || imported.to_data() != array.to_data() {
        oracle.push("imported array is not logically equal to the exported one".into());
    }
    if imported.null_count() != recount || exp_nc != array.null_count() {
        oracle.push(format!("null counts disagree: exported {} imported {} bitmap {}", exp_nc, imported.null_count(), recount));
    }
    let answer = format!("o{} n{} e{} i{} c{}", exp_off, exp_nc, exp_bits, show_bits(&iv), recount);
    // release accounting: exactly one release, after the imported array is gone
    if how != 2 && drops.load(Ordering::SeqCst) != 0 {
        oracle.push("exported struct released while the imported array is alive".into());
    }
    drop(imported);
    if drops.load(Ordering::SeqCst) != 1 {
        oracle.push(format!("exported struct released {} times", drops.load(Ordering::SeqCst)));
    }
    let branch = if array.nulls().is_none() || array.null_count() == 0 && data.nulls().is_none() {
        "none"
    } else if data_off == nulls_off {
        "same"
    } else if data_off == 0 {
        "sliced"
    } else {
        "copy"
    };
    let tags = format!(
        "op:ffin ffin:kind{} ffin:how{} ffin:branch:{}{} nt",
        kind,
        how,
        branch,
        if data_off >= 8 && nulls_off > data_off && (nulls_off - data_off) % 8 == 0 { " ffin:byte-shift" } else { "" }
    );
    (answer, tags, oracle)
}

/// dense deterministic grid: data offset 0..=20 × validity offset 0..=40 × length, all kinds and
/// all three transports
fn ffin_block() -> Vec<String> {
    let mut out = vec![];
    let mut rng = Rng::new(0xFF1);
    let line = |kind: usize, d: usize, n: usize, len: usize, how: usize, rng: &mut Rng| {
        // (ArrayData::build wants the validity buffer to cover data offset + len bits too)
        let nbytes = (n.max(d) + len + 7) / 8 + 1;
        // irregular validity (never invariant under a shift), at least one null
        let mut v = rng.bytes(nbytes);
        v[(n + len / 2) / 8] &= !(1 << ((n + len / 2) % 8));
        format!("C16 ffin {} {} {} {} {} {}", kind, d, n, len, how, hex(&v))
    };
    for d in 0..=20 {
        for n in 0..=40 {
            for len in [1usize, 9, 40] {
                out.push(line(0, d, n, len, 0, &mut rng));
            }
            out.push(line(1, d, n, 17, (d + n) % 2, &mut rng));
            if n % 4 == 0 || n == d + 8 || n == d + 16 {
                out.push(line(0, d, n, 23, 1, &mut rng));
                out.push(line(0, d, n, 23, 2, &mut rng));
            }
        }
    }
    for kind in 2..=7 {
        for n in 0..=40 {
            for (len, how) in [(1usize, 0usize), (17, n % 3), (40, 2)] {
                out.push(line(kind, 0, n, len, how, &mut rng));
            }
        }
    }
    // all-valid validity (nothing to export) and all-null
    for (d, n) in [(0usize, 0usize), (0, 9), (8, 16), (3, 3), (12, 5)] {
        out.push(format!("C16 ffin 0 {} {} 20 0 {}", d, n, hex(&vec![0xFFu8; 9])));
        out.push(format!("C16 ffin 0 {} {} 20 1 {}", d, n, hex(&vec![0u8; 9])));
    }
    out
}

fn run_case(line: &str) -> (String, String, Vec<String>) {
    let t: Vec<&str> = line.split(' ').collect();
    assert_eq!(t[0], "C16");
    match t[1] {
        "ahist" => {
            let n: usize = t[2].parse().unwrap();
            let ops = t[3].to_string();
            let mut res = (String::new(), String::new(), vec![]);
            let a = guarded(|| {
                res = run_hist(n, &ops);
                res.0.clone()
            });
            (a, res.1, res.2)
        }
        "ffin" => {
            let mut res = (String::new(), String::new(), vec![]);
            let a = guarded(|| {
                res = run_ffin(&t);
                res.0.clone()
            });
            (a, res.1, res.2)
        }
        _ => ("bad-op".into(), String::new(), vec![]),
    }
}

// ------------------------------------------------------------------------------ generator

fn gen_hist(rng: &mut Rng) -> String {
    let n = 3 + rng.usize(4); // 3..=6 slots
    let steps = 5 + rng.usize(56); // ≤ 60 ops
    let mut ex = Exec::new(n);
    let mut toks: Vec<String> = vec![];
    let allow_findings = true;
    for _ in 0..steps {
        let empties: Vec<usize> = (0..n).filter(|i| ex.is_empty(*i)).collect();
        let bufs: Vec<usize> = (0..n).filter(|i| matches!(ex.slots[*i], Slot::Buf(..))).collect();
        let muts: Vec<usize> = (0..n).filter(|i| matches!(ex.slots[*i], Slot::Mut(..))).collect();
        let ffis: Vec<usize> = (0..n).filter(|i| matches!(ex.slots[*i], Slot::Ffi(..))).collect();
        let lens = [0usize, 1, 3, 8, 9, 16, 24, 40, 64, 65];
        let tok = loop {
            let r = rng.below(100);
            // constructors / capacity operations / round trips added by the coverage audit
            if rng.chance(1, 6) {
                match rng.below(7) {
                    0 if !empties.is_empty() => break format!("as:{}:{}:{}", rng.pick(&empties), rng.pick(&lens), rng.usize(256)),
                    1 if !empties.is_empty() => break format!("az:{}:{}", rng.pick(&empties), rng.pick(&lens)),
                    2 if !muts.is_empty() => {
                        let i = *rng.pick(&muts);
                        let len = match &ex.slots[i] {
                            Slot::Mut(m, _) => m.len(),
                            _ => 0,
                        };
                        break format!("rs:{}:{}:{}", i, *rng.pick(&[0usize, len.saturating_sub(1), len, len + 1, 63, 64, 65, 129, 300]), rng.usize(256));
                    }
                    3 if !muts.is_empty() => break format!("{}:{}", rng.pick(&["mc", "ms", "ms"]), rng.pick(&muts)),
                    4 | 5 if !bufs.is_empty() => break format!("sf:{}", rng.pick(&bufs)),
                    6 if !bufs.is_empty() => break format!("rt:{}:{}", rng.pick(&bufs), rng.usize(RT_KINDS)),
                    _ => {}
                }
            }
            // array level: export / import / unary_mut take a third of the steps
            if rng.chance(1, 3) {
                match rng.below(4) {
                    0 if !bufs.is_empty() && !empties.is_empty() => {
                        let d = *rng.pick(&empties);
                        let a = *rng.pick(&bufs);
                        let la = ex.buf(a).unwrap().0.len();
                        let same: Vec<usize> = bufs.iter().copied().filter(|b| ex.buf(*b).unwrap().0.len() == la).collect();
                        if rng.bool() && same.len() >= 1 {
                            break format!("xf:{}+{}:{}:{}", a, rng.pick(&same), d, rng.usize(2));
                        }
                        break format!("xf:{}:{}:{}", a, d, rng.usize(2));
                    }
                    1 if !ffis.is_empty() => {
                        let i = *rng.pick(&ffis);
                        let k = match &ex.slots[i] {
                            Slot::Ffi(a, _) => a.num_children().max(1),
                            _ => unreachable!(),
                        };
                        if empties.len() >= k {
                            let mut e = empties.clone();
                            let mut ds = vec![];
                            for _ in 0..k {
                                ds.push(e.remove(rng.usize(e.len())).to_string());
                            }
                            break format!("if:{}:{}:{}", i, ds.join("+"), rng.usize(2));
                        }
                        break format!("dr:{}", i);
                    }
                    2 if !ffis.is_empty() && rng.chance(1, 3) => break format!("dr:{}", rng.pick(&ffis)),
                    3 if bufs.len() >= 2 && rng.bool() => {
                        let a = *rng.pick(&bufs);
                        let la = ex.buf(a).unwrap().0.len();
                        let same: Vec<usize> = bufs.iter().copied().filter(|b| *b != a && ex.buf(*b).unwrap().0.len() == la).collect();
                        let big: Vec<usize> = bufs.iter().copied().filter(|b| *b != a && 8 * ex.buf(*b).unwrap().0.len() >= la).collect();
                        if la > 0 && !same.is_empty() && rng.bool() {
                            break format!("bm:{}:{}", a, rng.pick(&same));
                        }
                        if la > 0 && !big.is_empty() {
                            break format!("u2:{}:{}:{}", a, rng.pick(&big), 1 + rng.usize(255));
                        }
                    }
                    _ if !bufs.is_empty() => break format!("um:{}:{}:{}", rng.pick(&bufs), 1 + rng.usize(255), rng.usize(3)),
                    _ => {}
                }
            }
            // occasionally a deliberately inapplicable op
            if r < 2 {
                break format!("{}:{}", rng.pick(&["dr", "im", "fz", "cm"]), rng.usize(n + 1));
            }
            if r < 14 && !empties.is_empty() {
                let d = *rng.pick(&empties);
                break match rng.below(3) {
                    0 => {
                        let t = *rng.pick(&[1usize, 1, 2, 4, 8]);
                        let len = *rng.pick(&lens) / t * t;
                        let cap = len + if rng.bool() { 0 } else { t * rng.usize(5) };
                        format!("av:{}:{}:{}:{}:{}", d, len, cap, t, rng.usize(256))
                    }
                    1 => {
                        let len = *rng.pick(&lens);
                        format!("am:{}:{}:{}:{}", d, len, len + rng.usize(70), rng.usize(256))
                    }
                    _ => format!("ac:{}:{}:{}", d, *rng.pick(&lens), rng.usize(256)),
                };
            }
            if r < 30 && !bufs.is_empty() && !empties.is_empty() {
                let (i, d) = (*rng.pick(&bufs), *rng.pick(&empties));
                let len = ex.buf(i).unwrap().0.len();
                break match rng.below(4) {
                    0 => format!("cl:{}:{}", i, d),
                    1 => {
                        // offsets biased to 0 (keeps into_mutable possible) and to the ends
                        let off = if rng.bool() { 0 } else { rng.usize(len + 1) };
                        let l = if rng.chance(1, 12) { len + 1 } else { rng.usize(len - off + 1) };
                        format!("sl:{}:{}:{}:{}:{}", i, d, off, l, rng.usize(4))
                    }
                    2 => {
                        let off = rng.usize(len + 1);
                        format!("wp:{}:{}:{}:{}:{}", i, d, off, rng.usize(len - off + 1), rng.usize(2))
                    }
                    _ => format!("cl:{}:{}", i, d),
                };
            }
            if r < 48 && (!bufs.is_empty() || !muts.is_empty()) {
                let all: Vec<usize> = bufs.iter().chain(muts.iter()).copied().collect();
                break format!("dr:{}", rng.pick(&all));
            }
            if r < 58 && !bufs.is_empty() {
                break format!("im:{}", rng.pick(&bufs));
            }
            if r < 66 && !bufs.is_empty() {
                let i = *rng.pick(&bufs);
                if !allow_findings && ex.claimed[ex.buf(i).unwrap().1].is_some() {
                    continue;
                }
                break format!("iv:{}:{}", i, rng.pick(&[1usize, 1, 2, 4, 8]));
            }
            if r < 76 && !muts.is_empty() {
                let i = *rng.pick(&muts);
                let (len, claimed) = match &ex.slots[i] {
                    Slot::Mut(m, r) => (m.len(), ex.claimed[*r].is_some()),
                    _ => unreachable!(),
                };
                break match rng.below(4) {
                    0 => format!("fz:{}", i),
                    1 if len > 0 => format!("wr:{}:{}:{}", i, rng.usize(len), rng.usize(256)),
                    2 => format!("ex:{}:{}:{}", i, *rng.pick(&[0usize, 1, 7, 64, 130]), rng.usize(256)),
                    3 if allow_findings || !claimed => format!("tr:{}:{}", i, rng.usize(len + 2)),
                    _ => format!("fz:{}", i),
                };
            }
            if r < 86 && (!bufs.is_empty() || !muts.is_empty()) {
                let all: Vec<usize> = bufs.iter().chain(muts.iter()).copied().collect();
                // prefer a handle whose region is already claimed half of the time, so that
                // re-claims into the same and into a different pool (through clones / slices of
                // the same region) are frequent
                let rid = |ex: &Exec, i: usize| match &ex.slots[i] {
                    Slot::Buf(_, r) | Slot::Mut(_, r) => *r,
                    _ => usize::MAX,
                };
                let again: Vec<usize> = all.iter().copied().filter(|i| ex.claimed[rid(&ex, *i)].is_some()).collect();
                let i = if !again.is_empty() && rng.bool() { *rng.pick(&again) } else { *rng.pick(&all) };
                let p = match ex.claimed[rid(&ex, i)] {
                    Some(q) if rng.chance(1, 3) => q,
                    _ => rng.usize(NPOOLS),
                };
                break format!("cm:{}:{}:{}", i, p, rng.usize(HOWS));
            }
            if bufs.len() >= 2 {
                let i = *rng.pick(&bufs);
                let j = *rng.pick(&bufs);
                if i == j || ex.buf(i).unwrap().0.is_empty() {
                    continue;
                }
                let (li, lj) = (ex.buf(i).unwrap().0.len(), ex.buf(j).unwrap().0.len());
                let boff = if rng.bool() { 0 } else { rng.usize(8 * li + 1) };
                let blen = rng.usize((8 * li - boff).min(8 * lj) + 1);
                break format!("ba:{}:{}:{}:{}:{}:{}", i, j, rng.pick(&["a", "o", "x"]), boff, blen, rng.usize(2));
            }
            if bufs.is_empty() && muts.is_empty() && !ffis.is_empty() && (empties.is_empty() || rng.bool()) {
                break format!("dr:{}", rng.pick(&ffis));
            }
        };
        ex.op(&tok);
        toks.push(tok);
    }
    format!("C16 ahist {} {}", n, toks.join(";"))
}

/// A fixed, deterministic block of boundary histories run in EVERY generation (a corpus
/// generated in code): every allocation kind × every sharing situation × every conversion /
/// in-place entry point, followed by re-claims into another pool and by dropping everything;
/// plus capacity arithmetic on the 64-byte boundaries and `into_vec` element-size boundaries.
const HIST: &str = "ahist";
const BLOCK_OPS: [(&str, &str); 9] = [
    ("unary_mut", "um:0:5:0"),
    ("try_unary_mut", "um:0:5:1"),
    ("try_unary_mut-err", "um:0:5:2"),
    ("binary_mut", "sl:3:2:0:0:0;dr:2;bm:0:3"),
    ("unary_mut-nulls", "u2:0:3:9"),
    ("nulls-shared", "cl:3:2;u2:0:3:9;dr:2"),
    ("export-import", "xf:0:2:1;dr:0;if:2:0:1"),
    ("bool-array-assign", "ba:0:3:x:3:7:1"),
    ("into_mutable", "im:0;fz:0"),
];
fn block_cases() -> Vec<String> {
    let mut out = vec![];
    let allocs: [(&str, &str); 8] = [
        ("vec1", "av:0:16:16:1:5"),
        ("vec1cap", "av:0:8:24:1:9"),
        ("vec4", "av:0:16:16:4:3"),
        ("vec8cap", "av:0:8:32:8:1"),
        ("slice_ref", "as:0:10:7"),
        ("mutable", "am:0:3:100:11;fz:0"),
        ("zeroed", "az:0:64;fz:0"),
        ("custom", "ac:0:16:2"),
    ];
    let sharing: [(&str, &str); 8] = [
        ("unique", ""),
        ("cloned", "cl:0:1"),
        ("clone-dropped", "cl:0:1;dr:1"),
        ("prefix", "sl:0:1:0:3:0;dr:0;cl:1:0;dr:1"),
        ("offset", "sl:0:1:1:2:2;dr:0;cl:1:0;dr:1"),
        ("empty-tail", "sl:0:1:3:0:0;dr:0;cl:1:0;dr:1"),
        ("wrapped", "wp:0:1:1:2:0"),
        ("wrapper-dropped", "wp:0:1:0:2:1;dr:1"),
    ];
    let ops: Vec<(&str, &str)> = BLOCK_OPS.to_vec();
    for (an, a) in allocs.iter() {
        for (sn, sh) in sharing.iter() {
            for (on, o) in ops.iter() {
                // slot 3: an operand for the binary ops; pool 0 claim first, pool 1 re-claim after
                let mut h = vec![a.to_string(), "av:3:16:16:1:77".to_string()];
                if !sh.is_empty() {
                    h.push(sh.to_string());
                }
                h.push("cm:0:0:0".into());
                h.push(o.to_string());
                h.push("cm:0:1:0;cm:3:2:1;cm:0:2:0".into());
                h.push("dr:0;dr:1;dr:2;dr:3".into());
                out.push(format!("C16 {} 4 {}\tblk:{}:{}:{}", HIST, h.join(";"), an, sn, on));
            }
        }
    }
    // capacity arithmetic on the rounding / doubling boundaries, claimed throughout
    for len in [0usize, 1, 63, 64, 65, 127, 128, 129] {
        for cap_extra in [0usize, 1, 64] {
            let cap = len + cap_extra;
            let cap64 = (cap + 63) / 64 * 64;
            for n in [0usize, 1, cap64 - len, cap64 - len + 1, 2 * cap64 + 1] {
                out.push(format!(
                    "C16 {} 2 am:0:{}:{}:1;cm:0:0;ex:0:{}:7;cm:0:1;ms:0;ex:0:1:9;ms:0;fz:0;sf:0;cl:0:1;sf:0;dr:1;sf:0;cm:0:2;im:0;ms:0;dr:0\tblk:cap:{}:{}:{}",
                    HIST, len, cap, n, len, cap_extra, n
                ));
            }
            for to in [0usize, len.saturating_sub(1), len, len + 1, 64, 65] {
                out.push(format!(
                    "C16 {} 2 am:0:{}:{}:3;rs:0:{}:5;cm:0:1;rs:0:{}:6;mc:0;ms:0;fz:0;sf:0;dr:0\tblk:resize:{}:{}:{}",
                    HIST, len, cap, to, len, len, cap_extra, to
                ));
            }
        }
    }
    // into_vec: element size × length that is / is not a multiple of it × capacity
    for t in [1usize, 2, 4, 8] {
        for t2 in [1usize, 2, 4, 8] {
            for k in [0usize, 1, t, t + 1, 2 * t] {
                out.push(format!(
                    "C16 {} 3 av:0:{}:{}:{}:4;sl:0:1:0:{}:0;iv:1:{};dr:0;iv:1:{};cm:1:0;iv:1:{};sf:1;dr:1\tblk:intovec:{}:{}:{}",
                    HIST, 2 * t, 4 * t, t, k, t2, t2, t, t, t2, k
                ));
            }
        }
    }
    out
}

fn main() {
    let args = parse_args();
    if std::env::var("VERIF_LOUD").is_err() {
        quiet_panics();
    }
    let mut sink = Sink::new(&args.out);
    let emit = |sink: &mut Sink, line: String, extra: &str| {
        let (a, tags, oracle) = run_case(&line);
        let tags = format!("{} {}", tags, extra);
        for o in oracle {
            // a recorded finding is reported under its own key only; every other oracle failure
            // (and every disagreement with the model) of the same case stays a violation
            match o.strip_prefix("KNOWN:").and_then(|x| x.split_once('|')) {
                Some((key, what)) => sink.oracle_failure(line.clone(), what.to_string(), key),
                None => sink.oracle_failure(line.clone(), o, &tags),
            }
        }
        sink.case(line, a, tags.trim());
    };
    if args.mode == "replay" {
        for line in read_cases(args.replay.as_ref().unwrap()) {
            emit(&mut sink, line, "replay");
        }
    } else {
        let mut rng = Rng::new(args.seed ^ 0xC16A);
        let n = n_cases(&args, 3000, 100000);
        for line in ffin_block() {
            emit(&mut sink, line, "blk:ffin");
        }
        // random offsets beyond the grid
        for _ in 0..300 {
            let (kind, mut how) = (rng.usize(8), rng.usize(3));
            if kind == 1 && how == 2 {
                how = 0;
            }
            let n = rng.usize(200);
            let d = if kind < 2 { rng.usize(100) } else { 0 };
            let len = 1 + rng.usize(70);
            let v = rng.bytes((n.max(d) + len + 7) / 8 + 1);
            emit(&mut sink, format!("C16 ffin {} {} {} {} {} {}", kind, d, n, len, how, hex(&v)), "");
        }
        for c in block_cases() {
            let (line, tag) = c.split_once('\t').unwrap();
            let group = tag.split(':').take(2).collect::<Vec<_>>().join(":");
            emit(&mut sink, line.to_string(), &format!("{} {}", tag, group));
        }
        for _ in 0..n {
            let line = gen_hist(&mut rng);
            emit(&mut sink, line, "");
        }
    }
    sink.finish();
}
